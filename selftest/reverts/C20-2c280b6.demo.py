"""A query reported by the gateway before the bus watcher has started waiting
must still get its 200 ms for an answer."""
import asyncio, struct, sys, time, types
sys.modules.setdefault("usb", types.ModuleType("usb"))
from dali.driver.hid import tridonic
from dali.gear.general import QueryActualLevel
from dali.address import GearShort


def report(drv, frame16):
    # mode, rtype, frame(4), interval, seq + padding to 64 bytes
    body = drv._resptmpl.pack(drv._MODE_OBSERVE, drv._RESPONSE_FRAME_DALI16,
                              b"\x00\x00" + bytes(frame16), 0, 0)
    return body + bytes(64 - len(body))


def test_query_seen_before_watcher_waits_gets_its_timeout():
    async def main():
        drv = tridonic("/dev/null")
        seen = []
        drv.bus_traffic.register(
            lambda d, cmd, rsp, err: seen.append((time.monotonic(), cmd, rsp)))
        cmd = QueryActualLevel(GearShort(0))
        t0 = time.monotonic()
        # the reader callback runs before the freshly created task does
        task = asyncio.ensure_future(drv._bus_watch())
        drv._handle_read(report(drv, cmd.frame.as_byte_sequence))
        await asyncio.sleep(0.1)
        early = list(seen)
        await asyncio.sleep(0.3)
        task.cancel()
        return t0, early, seen
    t0, early, seen = asyncio.run(main())
    assert not early, "reported 'no answer' %.3f s after the query" % (
        early[0][0] - t0)
    assert len(seen) == 1 and seen[0][0] - t0 >= 0.19
