#!/venv/bin/python
"""Regenerate MANIFEST.json from the table below (single source of truth)."""
import json
import os
import subprocess

HERE = os.path.dirname(os.path.dirname(os.path.abspath(__file__)))

# pid -> (technique, level text, level note, design ref)
CHECKS = {}
NA = {}


def load():
    import importlib.util
    spec = importlib.util.spec_from_file_location(
        "manifest_table", os.path.join(HERE, "tools", "manifest_table.py"))
    m = importlib.util.module_from_spec(spec)
    spec.loader.exec_module(m)
    return m


def main():
    t = load()
    props = [json.loads(l) for l in open(os.path.join(HERE,
                                                      "properties.jsonl"))]
    checks = []
    na = []
    for p in props:
        pid = p["id"]
        if pid in t.CHECKS:
            c = t.CHECKS[pid]
            checks.append({
                "property_id": pid,
                "quick_cmd": "/venv/bin/python -m dalint check %s --tier quick" % pid,
                "thorough_cmd": "/venv/bin/python -m dalint check %s --tier thorough" % pid,
                "evidence_file": "/verif/evidence/%s.json" % pid,
                "replay_cmd_template": "cat {path}",
                "engine": "dalint",
                "level_claimed": {"category": "other", "text": c["text"],
                                  "design_ref": c.get("ref", "DESIGN.md section 3 " + pid)},
                "level_note": c["note"],
                "technique": c["technique"],
            })
        else:
            na.append({"property_id": pid, "reason": t.NA.get(
                pid, "check under construction (build phase); see DESIGN.md")})
    try:
        commits = subprocess.check_output(
            ["git", "-C", "/repo", "log", "--format=%h %s", "4d78b1d..HEAD"],
            text=True).strip().splitlines()
    except Exception:
        commits = []
    m = {
        "version": 1,
        "setup_cmd": "true",
        "hooks": {
            "guard": "SDE1000_PYTHON_DALI_VERIF",
            "enable": "none needed: static analysis reads /repo's working "
                      "tree as it is; there are no source hooks",
            "baseline_off_cmd": "cd /repo && /venv/bin/python -m pytest -ra -q"
                                " -p no:cacheprovider --timeout=900 "
                                "--continue-on-collection-errors",
            "source_commits": [],
            "add_only": True,
        },
        "engines": [{
            "name": "dalint", "path": "/verif/dalint",
            "serves_properties": [c["property_id"] for c in checks],
            "kind_free_text": "repository-specific static analyser built on "
            "the stdlib ast module: resolved class table + C3 MRO, constant "
            "folder / partial evaluator of registration code, statement CFG "
            "with exceptional edges and inlined finally, path-sensitive "
            "dataflow, lockset / pairing / typestate rules, abstract "
            "interpretation of codecs over a known-bits domain, table "
            "comparison with /verif/spec.  /repo is never imported or run."}],
        "checks": checks,
        "notes": t.NOTES + " fix: commits in /repo: " + "; ".join(commits),
        "not_applicable": na,
    }
    with open(os.path.join(HERE, "MANIFEST.json"), "w") as f:
        json.dump(m, f, indent=1)
    print("MANIFEST.json: %d checks, %d not_applicable" % (len(checks),
                                                           len(na)))


if __name__ == "__main__":
    main()
