#!/venv/bin/python
"""usage: store_seed.py <src dir> <seed id> <Cxx> [other checks...]
Validates a seeded change (tools/validate_seed.sh), records which checks
fire on it (tools/seedtest.sh) and stores it as /verif/seeded/<id>/."""
import json
import os
import shutil
import subprocess
import sys

src, sid, pids = sys.argv[1], sys.argv[2], sys.argv[3:]
HERE = os.path.dirname(os.path.dirname(os.path.abspath(__file__)))
dst = os.path.join(HERE, "seeded", sid)
os.makedirs(dst, exist_ok=True)
patch = os.path.join(src, "patch_rebased.diff")
rebased = os.path.exists(patch)
if not rebased:
    patch = os.path.join(src, "patch.diff")
shutil.copy(patch, os.path.join(dst, "patch.diff"))
shutil.copy(os.path.join(src, "demo_test.py"), os.path.join(dst, "demo_test.py"))
val = subprocess.run([os.path.join(HERE, "tools", "validate_seed.sh"), dst] +
                     pids, capture_output=True, text=True).stdout
val = [l for l in val.splitlines() if "WARNING conda" not in l]
st = subprocess.run([os.path.join(HERE, "tools", "seedtest.sh"),
                     os.path.join(dst, "patch.diff")] + pids,
                    capture_output=True, text=True).stdout
st = [l.strip()[:400] for l in st.splitlines() if "WARNING conda" not in l]
old = {}
if os.path.exists(os.path.join(src, "meta.json")):
    old = json.load(open(os.path.join(src, "meta.json")))
head = subprocess.check_output(["git", "-C", "/repo", "rev-parse", "--short",
                                "HEAD"], text=True).strip()
meta = {
    "property": pids[0],
    "origin": old.get("origin", "independent sub-agent given only the "
                      "property text and its own scratch worktree"),
    "summary": old.get("summary"),
    "needs_to_manifest": old.get("needs_to_manifest"),
    "files_changed": old.get("files_changed"),
    "rebased_on_fix_commits": rebased,
    "validated_on_repo_head": head,
    "what_i_ran": ["tools/validate_seed.sh seeded/%s %s" % (sid, " ".join(pids))]
    + val + ["tools/seedtest.sh seeded/%s/patch.diff %s" % (sid, " ".join(pids))]
    + st,
    "detected_by": sorted({l.split(":")[0].replace("== ", "") for l in st
                           if l.startswith("== C") and
                           " 0 new violation" not in l}),
}
json.dump(meta, open(os.path.join(dst, "meta.json"), "w"), indent=1)
print(sid, meta["detected_by"], [l for l in val if "suite" in l or "demo" in l])
