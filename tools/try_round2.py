#!/venv/bin/python
"""usage: try_round2.py <dir with m*.diff / t*.diff> <Cxx> [more checks]
Runs the named checks on a scratch copy of /repo/dali with each diff applied."""
import glob
import os
import sys
sys.path.insert(0, os.path.dirname(os.path.dirname(os.path.abspath(__file__))))
from concurrent.futures import ProcessPoolExecutor
from dalint.selftest import run_variant

d, pids = sys.argv[1], sys.argv[2:]
jobs = []
for f in sorted(glob.glob(os.path.join(d, "[mt][0-9]*.diff"))):
    name = os.path.basename(f)[:-5]
    for pid in pids:
        jobs.append((pid, "/repo", {"name": "%s/%s" % (name, pid),
                                    "kind": "mutant" if name[0] == "m"
                                    else "twin", "patch": f}))
with ProcessPoolExecutor(max_workers=12) as ex:
    for (name, kind, verdict, rules, msg) in ex.map(run_variant, jobs):
        good = (kind == "mutant" and verdict == "fired") or (
            kind == "twin" and verdict == "silent")
        print("%-4s %-7s %-10s %-15s %s %s" % (
            "ok" if good else "MISS", kind, name, verdict, rules,
            msg[-300:].replace("\n", " | ") if not good else ""))
