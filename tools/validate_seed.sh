#!/bin/bash
# usage: tools/validate_seed.sh <seed dir with patch.diff + demo_test.py> <Cxx> [more checks]
# Confirms a seeded change on a scratch worktree of /repo HEAD:
#   1. patch applies, tree byte-compiles
#   2. pinned suite still passes with the change (110 passed)
#   3. demo fails with the change and passes without it
#   4. the named checks report a violation with it
# Prints one summary line; removes the worktree.
set -u
sd=$1; shift
wt=$(mktemp -d /tmp/vs.XXXXXX)
git -C /repo worktree add -q --detach "$wt" HEAD || exit 3
cd "$wt"
demo_clean=$(/venv/bin/python -m pytest -q -p no:cacheprovider -x "$sd/demo_test.py" 2>&1 | tail -1)
p="$sd/patch.diff"
if ! git apply "$p" 2>/dev/null; then
  if ! patch -p1 -s -F3 < "$p" >/dev/null 2>&1; then
     echo "SEED $sd: PATCH-DOES-NOT-APPLY"; cd /; git -C /repo worktree remove --force "$wt"; exit 4
  fi
  applied="fuzz"
else applied="clean"; fi
find . -name '*.orig' -delete; find . -name '*.rej' -delete
/venv/bin/python -m compileall -q dali >/dev/null 2>&1 && comp=ok || comp=FAIL
where=$(/venv/bin/python -c "import dali; print(dali.__file__)")
suite=$(/venv/bin/python -m pytest -ra -q -p no:cacheprovider --timeout=900 --continue-on-collection-errors 2>&1 | tail -1)
demo_seed=$(/venv/bin/python -m pytest -q -p no:cacheprovider "$sd/demo_test.py" 2>&1 | tail -1)
git diff > "$wt.diff"
res=""
for pid in "$@"; do
  out=$(cd /verif && /venv/bin/python -m dalint check "$pid" --no-evidence --repo "$wt" 2>&1)
  rc=$?
  nv=$(echo "$out" | grep -c "violation:")
  res="$res $pid:rc=$rc,viol=$nv"
done
echo "SEED $(basename $sd): apply=$applied compile=$comp import=$where"
echo "   suite: $suite"
echo "   demo clean: $demo_clean"
echo "   demo seeded: $demo_seed"
echo "   checks:$res"
cd /
git -C /repo worktree remove --force "$wt"
