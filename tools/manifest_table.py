"""Per-property MANIFEST entries (consumed by tools/gen_manifest.py)."""
NOTES = ("Static analysis only: every check parses /repo's current working "
         "tree with ast and decides from syntax tree, class table, CFG and "
         "dataflow; /repo is never imported or executed.  Exit 0 ok, exit 1 "
         "+ VIOLATION line, exit 2 + ANALYSIS-ERROR when an anchor vanished "
         "or a construct is outside the supported subset.  Each check "
         "decides the structural clauses named in its level text, not the "
         "run-time behaviour as a whole (DESIGN.md section 3 lists what is "
         "not decided).")
ASSUME = ("Trusted: CPython's ast module, the dalint analysers, the "
          "hand-transcribed reference data under /verif/spec, CPython "
          "attribute lookup/MRO semantics; classes are not monkey-patched at "
          "run time. ")
CHECKS = {
 "C07": {
  "technique": "path-sensitive dataflow (typestate, must-pass-through, "
               "pairing) on the generator CFG",
  "text": "Proves, for every path of the Commissioning/_find_next generator "
          "CFGs (hence every answer stream): Terminate before every normal "
          "exit, address-changing commands only under a false dry_run, "
          "Program->Verify->raise pairing, linear use of the address pool "
          "with in-use discovery, clash marker iff framing error, no "
          "re-randomisation while programmed+withdrawn units are still "
          "initialised.  Structural necessary conditions of C07; termination "
          "and the command bound under all random-address histories are not "
          "decided.",
  "note": ASSUME + "Generators are driven by send(None|Response); IEC "
          "62386-102 semantics of RANDOMISE/PROGRAM SHORT ADDRESS on "
          "withdrawn units."},
 "C08": {
  "technique": "CFG dataflow: ranking-guard (monotone tracker) rule, "
               "response-discipline must-analysis, structural set-difference "
               "match",
  "text": "Proves on the CFGs of QueryDeviceTypes/QueryGroups/SetGroups: the "
          "polling loop has a strict ascending guard whose tracker is updated "
          "on every iteration from below the domain (bounds the loop at 254 "
          "iterations for every answer stream); no answer is used as data "
          "without dominating None and framing-error checks; group word is "
          "high+low with bit i = group i; SetGroups issues exactly the set "
          "differences (or all 16).  The final membership as a set value is "
          "not decided.",
  "note": ASSUME + "8-bit backward frames; Frame.__add__ concatenates left "
          "operand high (C05)."},
 "C06": {
  "technique": "abstract interpretation of response classes over "
               "{None, Clean, Err} x byte subsets; exception-escape analysis "
               "with evaluated except clauses; partial evaluation of the "
               "bit-dictionary metaclass",
  "text": "For all 34 response classes reachable from a command and each "
          "of the three bus outcomes, raw_value/value/status/__getattr__/"
          "__str__ are abstractly interpreted through the MRO with class "
          "constants folded; a path carries the subset of the 256 byte "
          "values it covers, so each verdict (family contract of value, "
          "raw_value identity, no MissingResponse/ResponseError out of "
          "__str__, named bit k reads frame bit k) holds for every answer.  "
          "The numeric identity of Frame.as_integer is C05's, not decided "
          "here.",
  "note": ASSUME + "A BackwardFrame is truthy (Frame.__len__ == 8); "
          "IntEnum(value) raises ValueError for undefined codes; `except A "
          "or B` is evaluated as Python does (catches A)."},
 "C13": {
  "technique": "generator-CFG dataflow (guard symmetry after copy "
               "propagation, byte-lane provenance, response discipline, "
               "path enumeration with condition pruning), constant folding "
               "of the scan-range normalisation",
  "text": "Proves on the CFGs of the control-device sequences: DTRk load "
          "guard == read-back guard == (width > 8k) with little-endian "
          "lanes both ways; no .value read without check_bad_rsp; resolved "
          "command order on every feasible path and validation before the "
          "first yield; discovery scan bracketed by quiescent mode with "
          "skip-on-bad and add_type only for the current address/instance; "
          "the default scan range folds to all 64 addresses.  The "
          "shift/accumulate arithmetic of query_input_value is a value "
          "property and is not decided.",
  "note": ASSUME + "check_bad_rsp's own classification is checked "
          "structurally (R-BADRSP)."},
 "C14": {
  "technique": "generator-CFG path enumeration, byte-lane provenance "
               "evaluator, must-dataflow of isinstance guards",
  "text": "Proves for the three DT8 sequences, on every path: exact order "
          "of resolved commands (DTR0, DTR1[, DTR2] before the device-type-8 "
          "command, Activate after; query order), low byte -> DTR0 and high "
          "byte -> DTR1 (idiom-normalised), reassembly msb*256+lsb from the "
          "right answers, the range-limiting operation / selector type "
          "check before the first yield, None on every unclean path.  For "
          "these straight-line generators this covers the statement of C14 "
          "up to the unit's own behaviour.",
  "note": ASSUME + "int.to_bytes(2, order) raises outside 0..65535; "
          "NumericResponse.value is an int exactly for a clean frame (C06)."},
}
NA = {}
