"""Per-property MANIFEST entries (consumed by tools/gen_manifest.py)."""
NOTES = ("Static analysis only: every check parses /repo's current working "
         "tree with ast and decides from syntax tree, class table, CFG and "
         "dataflow; /repo is never imported or executed.  Exit 0 ok, exit 1 "
         "+ VIOLATION line, exit 2 + ANALYSIS-ERROR when an anchor vanished "
         "or a construct is outside the supported subset.  Each check "
         "decides the structural clauses named in its level text, not the "
         "run-time behaviour as a whole (DESIGN.md section 3 lists what is "
         "not decided).")
ASSUME = ("Trusted: CPython's ast module, the dalint analysers, the "
          "hand-transcribed reference data under /verif/spec, CPython "
          "attribute lookup/MRO semantics; classes are not monkey-patched at "
          "run time. ")
CHECKS = {
 "C07": {
  "technique": "path-sensitive dataflow (typestate, must-pass-through, "
               "pairing) on the generator CFG",
  "text": "Proves, for every path of the Commissioning/_find_next generator "
          "CFGs (hence every answer stream): Terminate before every normal "
          "exit, address-changing commands only under a false dry_run, "
          "Program->Verify->raise pairing, linear use of the address pool "
          "with in-use discovery, clash marker iff framing error, no "
          "re-randomisation while programmed+withdrawn units are still "
          "initialised.  Structural necessary conditions of C07; termination "
          "and the command bound under all random-address histories are not "
          "decided.",
  "note": ASSUME + "Generators are driven by send(None|Response); IEC "
          "62386-102 semantics of RANDOMISE/PROGRAM SHORT ADDRESS on "
          "withdrawn units."},
 "C08": {
  "technique": "CFG dataflow: ranking-guard (monotone tracker) rule, "
               "response-discipline must-analysis, structural set-difference "
               "match",
  "text": "Proves on the CFGs of QueryDeviceTypes/QueryGroups/SetGroups: the "
          "polling loop has a strict ascending guard whose tracker is updated "
          "on every iteration from below the domain (bounds the loop at 254 "
          "iterations for every answer stream); no answer is used as data "
          "without dominating None and framing-error checks; group word is "
          "high+low with bit i = group i; SetGroups issues exactly the set "
          "differences (or all 16).  The final membership as a set value is "
          "not decided.",
  "note": ASSUME + "8-bit backward frames; Frame.__add__ concatenates left "
          "operand high (C05)."},
 "C06": {
  "technique": "abstract interpretation of response classes over "
               "{None, Clean, Err} x byte subsets; exception-escape analysis "
               "with evaluated except clauses; partial evaluation of the "
               "bit-dictionary metaclass",
  "text": "For all 34 response classes reachable from a command and each "
          "of the three bus outcomes, raw_value/value/status/__getattr__/"
          "__str__ are abstractly interpreted through the MRO with class "
          "constants folded; a path carries the subset of the 256 byte "
          "values it covers, so each verdict (family contract of value, "
          "raw_value identity, no MissingResponse/ResponseError out of "
          "__str__, named bit k reads frame bit k) holds for every answer.  "
          "The numeric identity of Frame.as_integer is C05's, not decided "
          "here.",
  "note": ASSUME + "A BackwardFrame is truthy (Frame.__len__ == 8); "
          "IntEnum(value) raises ValueError for undefined codes; `except A "
          "or B` is evaluated as Python does (catches A)."},
 "C13": {
  "technique": "generator-CFG dataflow (guard symmetry after copy "
               "propagation, byte-lane provenance, response discipline, "
               "path enumeration with condition pruning), constant folding "
               "of the scan-range normalisation",
  "text": "Proves on the CFGs of the control-device sequences: DTRk load "
          "guard == read-back guard == (width > 8k) with little-endian "
          "lanes both ways; no .value read without check_bad_rsp; resolved "
          "command order on every feasible path and validation before the "
          "first yield; discovery scan bracketed by quiescent mode with "
          "skip-on-bad and add_type only for the current address/instance; "
          "the default scan range folds to all 64 addresses.  The "
          "shift/accumulate arithmetic of query_input_value is a value "
          "property and is not decided.",
  "note": ASSUME + "check_bad_rsp's own classification is checked "
          "structurally (R-BADRSP)."},
 "C14": {
  "technique": "generator-CFG path enumeration, byte-lane provenance "
               "evaluator, must-dataflow of isinstance guards",
  "text": "Proves for the three DT8 sequences, on every path: exact order "
          "of resolved commands (DTR0, DTR1[, DTR2] before the device-type-8 "
          "command, Activate after; query order), low byte -> DTR0 and high "
          "byte -> DTR1 (idiom-normalised), reassembly msb*256+lsb from the "
          "right answers, the range-limiting operation / selector type "
          "check before the first yield, None on every unclean path.  For "
          "these straight-line generators this covers the statement of C14 "
          "up to the unit's own behaviour.",
  "note": ASSUME + "int.to_bytes(2, order) raises outside 0..65535; "
          "NumericResponse.value is an int exactly for a clean frame (C06)."},
 "C09": {
  "technique": "path-sensitive typestate on generator CFGs (write-enable, "
               "latch pairing), command whitelist, response discipline, "
               "sibling agreement",
  "text": "Proves on the CFGs of read_raw/read/from_list/read_all, for every "
          "path: only DTR0/DTR1/ReadMemoryLocation are issued (plus the "
          "latch bracket's EnableWriteMemory and writes of 0xAA/0xFF to "
          "location 2); DTR1(bank) and the DTR0 selection dominate every "
          "read and the tracker follows the auto-increment; the latch is "
          "paired with an un-latch on every normal and raising exit; every "
          "write happens in write-enabled state (IEC 62386-102 9.10 "
          "typestate); None -> not implemented, framing error -> "
          "ResponseError; whole-bank and single-value reads share one "
          "interpretation; list index == location address.  Agreement of "
          "the DTR0 tracker with arbitrary unit layouts is not decided.",
  "note": ASSUME + "A conforming unit clears writeEnableState on any "
          "command outside DTRx / WriteMemoryLocation* / QueryContentDTRx; "
          "generator-close edges are out of scope."},
 "C10": {
  "technique": "path-sensitive typestate on the generator CFG: pending "
               "answer checks, lock pairing, write-enable, guard provenance",
  "text": "Proves on the CFG of write_raw/write, for every path: refusals "
          "(length, writability of all locations) and value_to_raw precede "
          "the first command; after each checked write the None / framing "
          "error / echo tests are completed before the next command, with "
          "the documented exception classes, and the DTR0 post-check follows "
          "- bypassed only under ignore_feedback; unlock (0x55) is paired "
          "with re-lock (0xFF) on every normal exit; all writes in "
          "write-enabled state after DTR1(bank).  Unit-side effects are not "
          "decided.",
  "note": ASSUME + "Same write-enable typestate as C09."},
 "C11": {
  "technique": "partial evaluation of the declared memory map + table "
               "comparison with a hand-transcribed layout; interpreted "
               "metaclass; abstract interpretation of decoders over a "
               "byte-subset x symbolic-tail domain",
  "text": "All 81 declared values and 9 banks are extracted by folding the "
          "class bodies and compared both ways with spec/memory_map.json "
          "(IEC 62386-102 Table 9, DiiA 251-253): bank, locations, access "
          "type, kind, MASK/TMASK support, limits; overlap/lockability/"
          "contiguity on the extracted map; mask/tmask patterns from the "
          "interpreted metaclass; `check_raw(raw) or raw_to_value(raw)` "
          "abstractly interpreted per value: no exception escapes, flags on "
          "exactly the expected first-byte sets (1-byte values, scale "
          "bytes), MASK before TMASK before validity; writable values have "
          "an encoder at least as derived as their decoder.  Numeric decode "
          "identities of wide values are not decided.",
  "note": ASSUME + "The transcription in spec/memory_map.json; "
          "bytes.decode('ascii') raises for bytes >= 0x80."},
 "C15": {
  "technique": "lockset analysis over the resolved call graph; acquire/"
               "release pairing on CFGs with cancellation edges; adjacency "
               "dataflow for EnableDeviceType",
  "text": "For every asyncio schedule (asyncio.Lock excludes other holders "
          "whatever the interleaving): each of the 10 wire-write sites of "
          "hid.py/serial.py runs under transaction_lock - held in the "
          "function, in all callers, or under in_transaction=True passed "
          "only by lock holders - and inside the gateway serialiser; the "
          "lock acquired by a function is released on every normal, "
          "exception and cancellation exit and never released unheld; "
          "sequences are closed; each transmission of a caller's command is "
          "immediately preceded by EnableDeviceType when it needs one.  "
          "Liveness ('every caller completes') is not decided.",
  "note": ASSUME + "asyncio.Lock/Semaphore semantics; exceptions and "
          "cancellation surface only at awaits and raise statements; "
          "name-based method resolution within the driver class family."},
 "C16": {
  "technique": "call-site rule over resolved attributes, status-table "
               "extraction with constant folding vs transcribed protocol "
               "tables, reaching definitions, lock-region containment, "
               "contradiction rule for flushes",
  "text": "For the six send paths: every returned value is None or the "
          "command's own response(...) on None/BackwardFrame/"
          "BackwardFrameError; gateway status chains equal the protocol "
          "tables and test the fields unpacked from the report; the answer "
          "is awaited in the write's serialiser region or routed by the "
          "sequence byte the write used; stale-answer flushes drain the "
          "queue they test, completely.  Races between late answers are not "
          "decided.",
  "note": ASSUME + "spec/wire/*.json transcriptions."},
 "C17": {
  "technique": "pairing with exceptional (cancellation) edges, literal "
               "exhaustiveness, wake-up coverage, sibling agreement of "
               "write-failure handlers, bounded-await rule",
  "text": "Proves: the Tridonic in-flight slot is released on every exit "
          "incl. cancellation at any await; each documented status literal "
          "is reported and the reconnect-limit branch reports 'failed'; "
          "disconnect always wakes every waiter kind with 'fail' which "
          "becomes CommunicationError; every send-path wire write maps "
          "OSError to disconnect(reconnect)+CommunicationError; the only "
          "swallowed exception is CommunicationError under not-exceptions "
          "in the retry loop; every queue await under a lock in serial.py "
          "is bounded by a class timeout.  Timing and liveness are not "
          "decided.",
  "note": ASSUME + "Faults surface at awaits / raises only."},
 "C19": {
  "technique": "interval analysis of buffer indices, enum exhaustiveness, "
               "must-pass-through on the CFG with call-exception edges, "
               "transmitter/receiver sibling agreement",
  "text": "For every byte stream and chunking: each write into the fixed "
          "receive buffers has max(index) < size given the accepted length "
          "interval and the counter invariant; one dispatch branch per "
          "ReadState member; every path of the terminal state (bad "
          "checksum, unknown/handled/unexpected type) resets the receiver; "
          "data_received is a plain per-byte loop with all state in self; "
          "checksum span and start byte equal the transmitter's; enum "
          "conversions are guarded.  Equality with a reference deframer is "
          "not decided.",
  "note": ASSUME + "bytes iteration yields ints 0..255; per-type handlers "
          "may raise deliberately."},
 "C20": {
  "technique": "type flow via reaching definitions, must-assign on all "
               "paths incl. exceptional, path-sensitive report/clear "
               "pairing, registry who-may-write",
  "text": "Every in-repo call of the top-level decoder passes a "
          "ForwardFrame on all reaching definitions; in each observer the "
          "device-type memory is re-assigned (EnableDeviceType.param or 0) "
          "on every path out of the frame handler; in the Tridonic watcher a "
          "pending command is reported exactly once before being cleared, a "
          "fresh command is stashed xor reported, the failure flag matches "
          "the branch and queries carry their own response object; serial "
          "receivers distribute a decoded frame exactly once; subscriber "
          "registries are touched only through their own handle.  Timer "
          "semantics and report order over histories are not decided.",
  "note": ASSUME + "EnableDeviceType applies to the next forward frame "
          "only."},
 "C01": {
  "technique": "abstract interpretation of the whole decoder chain "
               "(Command.from_frame down to every from_frame override) over "
               "a known-bits / bit-provenance lane domain with cube "
               "partitioning; who-may-write effect analysis; attribute "
               "definedness",
  "text": "The decoders are interpreted on a fully symbolic 16-bit and "
          "24-bit frame (with no instance map, an empty map and a typed "
          "map) and on every other width 1..64; each of the ~8400 leaf "
          "cases carries the cube of input bits it covers, so together "
          "they cover all 2^16 + 2^24 frames x device types 0..255.  Per "
          "leaf: no exception, a Command object is returned, and each lane "
          "of its stored frame is the input lane at the same position "
          "(decode then .frame is the identity).  Separately: decode paths "
          "write no module/class state, registries, input frame or "
          "instance map; no Command/Address/Instance defines "
          "__bool__/__len__; __str__ of each decoded class reads only "
          "attributes the decoder defined.",
  "note": ASSUME + "The codec interpreter (dalint/codec.py) models the "
          "subset of Python the codec modules use and stops with "
          "ANALYSIS-ERROR on anything else; Frame slice/int semantics are "
          "those proved for C05."},
 "C02": {
  "technique": "abstract interpretation of every constructor on symbolic, "
               "unvalidated parameters followed by the decoder chain; "
               "interval/raising-guard analysis; registry-key injectivity "
               "by constant folding",
  "text": "For each of the ~330 concrete command classes and each legal "
          "argument shape (address kind x instance kind x parameter), the "
          "constructor is interpreted with every integer argument an "
          "unbounded symbolic value; the resulting frame lanes are decoded "
          "again and the result must be the same class with structurally "
          "equal fields, for all values that pass validation (2200+ "
          "shapes).  Every parameter must be bounded by a raising guard "
          "(or a fitting slice store) before it reaches frame bits "
          "(UNVALIDATED/TRUNCATED markers), and no two commands share a "
          "decode-registry key.",
  "note": ASSUME + "Shapes are those the class hierarchy admits; device "
          "type context for application-extended commands is the class's "
          "own devicetype."},
 "C03": {
  "technique": "table comparison: command table extracted by constant "
               "folding and interpretation of the registration code vs "
               "hand-transcribed IEC 62386 tables, both directions; "
               "lane-by-lane layout comparison of abstractly constructed "
               "frames",
  "text": "Every concrete command class's (family, opcode/selector, "
          "device type or instance type, send-twice, response, DTR flags, "
          "parameter kind) is extracted from the source and compared with "
          "322 transcribed rows of Parts 102/103/202/205/206/207/209/301/"
          "303/304, and every transcribed row must have a class (two-way). "
          " The frame each constructor builds for each address/instance "
          "shape is computed symbolically and compared lane by lane with "
          "the layout the standard assigns (address byte, selector bit, "
          "opcode, parameter position, special-command bytes, instance "
          "byte): 1586 frames.  Encode/decode mistakes that cancel out are "
          "therefore visible here.",
  "note": ASSUME + "The transcription in spec/iec62386_tables.txt is the "
          "oracle (one row, StartAutoCalibration's send-twice flag, is "
          "left unarmed because the editions disagree; see DESIGN.md)."},
 "C04": {
  "technique": "abstract interpretation of add_to_frame/from_frame over "
               "bit lanes; exhaustive partition check of address prefixes "
               "and instance bytes against the standard's table; "
               "structural analysis of __eq__",
  "text": "For each of the 18 address/instance kinds with a symbolic "
          "number: add_to_frame writes only the kind's own field lanes "
          "(other lanes keep their input provenance); from_frame of the "
          "result is the same kind with the same number; a frame of the "
          "wrong size raises IncompatibleFrame before any store.  The "
          "decode-side partition of the 7 address bits / 8 instance bits "
          "is enumerated and equals the standard's (every value exactly "
          "one kind or reserved).  __eq__ is true exactly for same kind "
          "and same number (reflexive on every kind; gear and device kinds "
          "never equal).",
  "note": ASSUME + "Numbers are validated by the constructors (checked as "
          "part of R-ADDR-RT shapes)."},
 "C05": {
  "technique": "symbolic-width bit-lane algebra over Frame's methods "
               "(linear index arithmetic with facts), ownership "
               "(who-may-write) rule, validate-before-mutate dominance, "
               "exception-table comparison",
  "text": "Frame.__getitem__/__setitem__/__add__/as_integer/as_byte_"
          "sequence/pack/pack_len/__eq__ are evaluated over a symbolic "
          "width n and symbolic indices: each is shown to read or write "
          "exactly the lanes the documentation states (slice hi:lo in "
          "either order, single bit as bool, concat left-high, big-endian "
          "byte views of the same number, zero-length pack for n == 0); "
          "_data/_bits/_error are assigned only by the owner methods; "
          "every raise precedes every store and stores are dominated by "
          "all guards; the set of (condition -> exception type) pairs "
          "equals spec/frame_exceptions.json.",
  "note": ASSUME + "Python int shift/mask semantics (axioms of the lane "
          "algebra listed in dalint/lanes.py)."},
 "C12": {
  "technique": "decode-leaf comparison: the abstractly interpreted event "
               "decoder's leaf cases vs IEC 62386-103 Table 3 and the "
               "Part 301/303/304 event tables; registry folding; who-may-"
               "write on the instance map",
  "text": "Every decode leaf of a 24-bit frame whose bit 16 is 0 (all "
          "scheme prefixes x instance types 0..31 x map states) is "
          "compared with Table 3: the scheme chosen, which of short "
          "address / group / instance number / instance type / instance "
          "group are set and from which lanes, all others None, the 10 "
          "data lanes carried unchanged, and the event class chosen from "
          "instance type and data (unknown type or out-of-range data -> "
          "generic event; ambiguous scheme without map entry -> "
          "AmbiguousInstanceType).  The type registry is 1/3/4; "
          "retry_decode is one decode of the stored frame with the given "
          "map; add_type/get_type normalise keys identically and _mapping "
          "has no other writer.",
  "note": ASSUME + "Table 3 as transcribed in dalint/props/C12.py."},
 "C18": {
  "technique": "symbolic evaluation of each driver's frame-to-wire "
               "encoder into a byte template (constants, frame byte lanes, "
               "flags) compared with transcribed wire formats; interval "
               "fixpoint + two-step composition for sequence counters",
  "text": "For hasseb, Tridonic, daliserver, ATX, Luba/Lunatone serial, "
          "SCI and the legacy drivers the bytes handed to the transport "
          "are computed as a template over (frame width, frame bytes, "
          "sendtwice) and compared field by field with spec/wire/*.json: "
          "length, constant bytes, mode code per frame size, send-twice "
          "flag, byte order, padding, checksum span, refusal of "
          "unsupported widths.  Sequence counters are shown to stay in "
          "range and never repeat consecutively by interval analysis.  "
          "What the adapter does with the bytes is not decided.",
  "note": ASSUME + "The wire formats in spec/wire are transcribed from "
          "the vendors' protocol descriptions quoted in the drivers' own "
          "comments."},
}
NA = {}
