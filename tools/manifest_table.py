"""Per-property MANIFEST entries (consumed by tools/gen_manifest.py)."""
NOTES = ("Static analysis only: every check parses /repo's current working "
         "tree with ast and decides from syntax tree, class table, CFG and "
         "dataflow; /repo is never imported or executed.  Exit 0 ok, exit 1 "
         "+ VIOLATION line, exit 2 + ANALYSIS-ERROR when an anchor vanished "
         "or a construct is outside the supported subset.  Each check "
         "decides the structural clauses named in its level text, not the "
         "run-time behaviour as a whole (DESIGN.md section 3 lists what is "
         "not decided).")
ASSUME = ("Trusted: CPython's ast module, the dalint analysers, the "
          "hand-transcribed reference data under /verif/spec, CPython "
          "attribute lookup/MRO semantics; classes are not monkey-patched at "
          "run time. ")
CHECKS = {
 "C07": {
  "technique": "path-sensitive dataflow (typestate, must-pass-through, "
               "pairing) on the generator CFG",
  "text": "Proves, for every path of the Commissioning/_find_next generator "
          "CFGs (hence every answer stream): Terminate before every normal "
          "exit, address-changing commands only under a false dry_run, "
          "Program->Verify->raise pairing, linear use of the address pool "
          "with in-use discovery, clash marker iff framing error, no "
          "re-randomisation while programmed+withdrawn units are still "
          "initialised.  Structural necessary conditions of C07; termination "
          "and the command bound under all random-address histories are not "
          "decided.",
  "note": ASSUME + "Generators are driven by send(None|Response); IEC "
          "62386-102 semantics of RANDOMISE/PROGRAM SHORT ADDRESS on "
          "withdrawn units."},
 "C08": {
  "technique": "CFG dataflow: ranking-guard (monotone tracker) rule, "
               "response-discipline must-analysis, structural set-difference "
               "match",
  "text": "Proves on the CFGs of QueryDeviceTypes/QueryGroups/SetGroups: the "
          "polling loop has a strict ascending guard whose tracker is updated "
          "on every iteration from below the domain (bounds the loop at 254 "
          "iterations for every answer stream); no answer is used as data "
          "without dominating None and framing-error checks; group word is "
          "high+low with bit i = group i; SetGroups issues exactly the set "
          "differences (or all 16).  The final membership as a set value is "
          "not decided.",
  "note": ASSUME + "8-bit backward frames; Frame.__add__ concatenates left "
          "operand high (C05)."},
}
NA = {}
