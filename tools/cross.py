#!/venv/bin/python
"""Cross matrix: every check against every behaviour-preserving twin.
usage: cross.py [glob of twin patches]   (default: seeded/*-t*/patch.diff)
Prints only the pairs that are not silent."""
import glob
import os
import sys
sys.path.insert(0, os.path.dirname(os.path.dirname(os.path.abspath(__file__))))
from concurrent.futures import ProcessPoolExecutor
from dalint.selftest import run_variant

pats = sys.argv[1:] or ["/verif/seeded/*-t[0-9]*/patch.diff"]
jobs = []
for pat in pats:
    for f in sorted(glob.glob(pat)):
        tag = "/".join(f.split("/")[-2:])
        for i in range(1, 21):
            pid = "C%02d" % i
            jobs.append((pid, "/repo", {"name": tag + "/" + pid,
                                        "kind": "twin", "patch": f}))
bad = 0
with ProcessPoolExecutor(max_workers=16) as ex:
    for (name, kind, verdict, rules, msg) in ex.map(run_variant, jobs,
                                                    chunksize=4):
        if verdict != "silent":
            bad += 1
            print(name, verdict, rules, msg[-200:].replace("\n", " | "))
print("cross: %d pairs, %d not silent" % (len(jobs), bad))
