#!/venv/bin/python
"""Debug aid: print the normalised form of a function.
usage: shownorm.py <repo-root> <module> <qualname> [aliases]"""
import sys, ast
sys.path.insert(0, '/verif')
from dalint.core import Repo
from dalint.front import World
from dalint.normal import normalise
root, mod, name = sys.argv[1:4]
repo = Repo(root); world = World(repo)
m, fn, cls = world.func(mod + "." + name)
al = True
if len(sys.argv) > 4:
    al = {"params": "params", "0": False}.get(sys.argv[4], True)
fn = normalise(fn, world, mod, cls, aliases=al)
print(ast.unparse(fn))
