#!/venv/bin/python
"""All stored variants (selftest/, selftest/reverts, seeded/) against their own
check; prints the ones whose verdict is not the expected one."""
import os
import sys
sys.path.insert(0, os.path.dirname(os.path.dirname(os.path.abspath(__file__))))
from concurrent.futures import ProcessPoolExecutor
from dalint.selftest import load_variants, run_variant

TRACE = os.environ.get("REGRESS_TRACE")


def traced(job):
    """run_variant, with start / end lines (seconds, peak MB of the worker)
    appended to $REGRESS_TRACE: what a worker was doing when it died."""
    if not TRACE:
        return run_variant(job)
    import resource
    import time
    name = "%s/%s" % (job[0], job[2].get("name"))
    with open(TRACE, "a") as f:
        f.write("start %s pid=%d\n" % (name, os.getpid()))
    t0 = time.time()
    try:
        return run_variant(job)
    finally:
        with open(TRACE, "a") as f:
            f.write("end   %s %.1fs %dMB\n" % (
                name, time.time() - t0, resource.getrusage(
                    resource.RUSAGE_SELF).ru_maxrss // 1024))


pids = sys.argv[1:] or ["C%02d" % i for i in range(1, 21)]
jobs = []
for pid in pids:
    for v in load_variants(pid):
        jobs.append((pid, "/repo", v))
n = bad = 0
with ProcessPoolExecutor(max_workers=16) as ex:
    for (name, kind, verdict, rules, msg) in ex.map(traced, jobs,
                                                    chunksize=2):
        n += 1
        good = (kind == "mutant" and verdict == "fired") or (
            kind == "twin" and verdict == "silent")
        if not good:
            bad += 1
            print("MISS %-7s %-28s %-15s %s %s" % (
                kind, name, verdict, rules,
                msg[-200:].replace("\n", " | ")))
print("regress: %d variants, %d unexpected" % (n, bad))
