#!/venv/bin/python
"""Rewrite the per-property obligation list of DESIGN.md section 10.2 from the
evidence files of the last quick run."""
import json, os, re
V = os.path.dirname(os.path.dirname(os.path.abspath(__file__)))
p = os.path.join(V, "DESIGN.md")
s = open(p).read()
a = s.index("### 10.2 Rules as implemented")
b = s.index("Notable differences from section 3:")
lines = ["### 10.2 Rules as implemented (obligations on the repaired tree)", "",
         "From the evidence of the last quick run (rule name, number of "
         "obligations = rule instantiated on one construct found in /repo):", ""]
for i in range(1, 21):
    pid = "C%02d" % i
    ev = json.load(open(os.path.join(V, "evidence", pid + ".json")))
    cov = ev["coverage"]
    lines.append("* **%s** - %d obligations, %d discharged, %d known "
                 "finding(s), %d new violation(s), %.2fs" % (
                     pid, cov["obligations"], cov["discharged"] - len(
                         cov["known_findings_reported"]),
                     len(cov["known_findings_reported"]), ev["violations"],
                     ev["wall_s"]))
    lines.append("  rules: " + ", ".join(
        "%s (%d)" % (r, v["sites"]) for r, v in sorted(cov["rules"].items())))
s = s[:a] + "\n".join(lines) + "\n\n" + s[b:]
open(p, "w").write(s)
print("DESIGN.md 10.2 updated")
