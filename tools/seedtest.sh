#!/bin/bash
# usage: tools/seedtest.sh <patch.diff> <Cxx> [more Cyy...]
# Applies a seeded change to a scratch worktree of /repo's HEAD (never to
# /repo itself), runs the named checks against it, removes the worktree.
set -u
patch=$1; shift
wt=$(mktemp -d /tmp/st.XXXXXX)
git -C /repo worktree add -q --detach "$wt" HEAD || exit 3
if ! git -C "$wt" apply --3way "$patch" 2>/dev/null; then
  if ! (cd "$wt" && patch -p1 -s -F3 < "$patch"); then
    echo "PATCH-DOES-NOT-APPLY $patch"; git -C /repo worktree remove --force "$wt"; exit 4
  fi
fi
rc=0
for pid in "$@"; do
  (cd /verif && /venv/bin/python -m dalint check "$pid" --no-evidence --repo "$wt") | grep -E "violation:|ANALYSIS-ERROR|^== C[0-9]+:" | sed "s#$wt/##g"
done
git -C /repo worktree remove --force "$wt"
