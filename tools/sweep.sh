#!/bin/bash
# quick tier of all 20 checks on /repo (no evidence rewrite), summary lines only
cd /verif
for i in $(seq -w 1 20); do
  ( /venv/bin/python -m dalint check C$i --no-evidence 2>&1 | grep "^== \|VIOLATION\|ANALYSIS-ERROR\|violation:" | cut -c1-260 ) &
done
wait
