#!/venv/bin/python
"""usage: [ROUND=r3] store_round2.py <dir with m*.diff t*.diff demo_m*.py variants.json> <Cxx>
Validates every variant of a round-2 seeding directory on a scratch worktree
of /repo HEAD (suite passes with it; mutant demos fail with / pass without;
twins: all demos of the directory still pass) and stores it under
/verif/seeded/<Cxx>-r2-<name>/ with the checks' verdicts."""
import glob
import json
import os
import shutil
import subprocess
import sys
import tempfile

src, pid = sys.argv[1], sys.argv[2]
extra = sys.argv[3:]
HERE = os.path.dirname(os.path.dirname(os.path.abspath(__file__)))
PY = "/venv/bin/python"
ROUND = os.environ.get("ROUND", "r2")
variants = {}
vj = os.path.join(src, "variants.json")
if os.path.exists(vj):
    for v in json.load(open(vj)):
        variants[v.get("name")] = v
head = subprocess.check_output(["git", "-C", "/repo", "rev-parse", "--short",
                                "HEAD"], text=True).strip()


def sh(cmd, cwd):
    r = subprocess.run(cmd, cwd=cwd, capture_output=True, text=True)
    lines = [l for l in (r.stdout + r.stderr).splitlines()
             if "WARNING conda" not in l]
    return lines[-1] if lines else ""


for diff in sorted(glob.glob(os.path.join(src, "[mt][0-9]*.diff"))):
    name = os.path.basename(diff)[:-5]
    kind = "mutant" if name[0] == "m" else "twin"
    wt = tempfile.mkdtemp(prefix="seedstore-")
    subprocess.run(["git", "-C", "/repo", "worktree", "add", "-q", "--detach",
                    wt, "HEAD"], check=True)
    try:
        demos = sorted(glob.glob(os.path.join(src, "demo_m*.py")))
        own = os.path.join(src, "demo_%s.py" % name)
        clean = sh([PY, "-m", "pytest", "-q", "-p", "no:cacheprovider", own],
                   wt) if kind == "mutant" else ""
        ap = subprocess.run(["git", "apply", diff], cwd=wt,
                            capture_output=True, text=True)
        if ap.returncode != 0:
            print(pid, name, "PATCH-DOES-NOT-APPLY")
            continue
        comp = subprocess.run([PY, "-m", "compileall", "-q", "dali"], cwd=wt,
                              capture_output=True).returncode == 0
        suite = sh([PY, "-m", "pytest", "-ra", "-q", "-p", "no:cacheprovider",
                    "--timeout=900", "--continue-on-collection-errors"], wt)
        if kind == "mutant":
            seeded = sh([PY, "-m", "pytest", "-q", "-p", "no:cacheprovider",
                         own], wt)
        else:
            seeded = sh([PY, "-m", "pytest", "-q", "-p", "no:cacheprovider"]
                        + demos, wt) if demos else "(no demos)"
        verdicts = {}
        for c in [pid] + extra:
            r = subprocess.run([PY, "-m", "dalint", "check", c,
                                "--no-evidence", "--repo", wt], cwd=HERE,
                               capture_output=True, text=True)
            viol = sorted({l.split("]")[0].split("[")[-1]
                           for l in r.stdout.splitlines()
                           if "violation:" in l})
            err = [l.strip()[:300] for l in r.stdout.splitlines()
                   if "ANALYSIS-ERROR" in l]
            verdicts[c] = {"exit": r.returncode, "rules": viol,
                           "analysis_error": err[:1]}
        ok_suite = suite.startswith("110 passed")
        if kind == "mutant":
            valid = comp and ok_suite and "passed" in clean and \
                "failed" not in clean and "failed" in seeded
        else:
            valid = comp and ok_suite and "failed" not in seeded
        sid = "%s-%s-%s" % (pid, ROUND, name)
        dst = os.path.join(HERE, "seeded", sid)
        if valid:
            os.makedirs(dst, exist_ok=True)
            shutil.copy(diff, os.path.join(dst, "patch.diff"))
            if kind == "mutant":
                shutil.copy(own, os.path.join(dst, "demo_test.py"))
            v = variants.get(name, {})
            meta = {
                "property": pid, "kind": kind,
                "origin": "round %s: independent sub-agent given only the "
                          "property text and its own scratch worktree"
                          % ROUND[1:],
                "summary": v.get("summary"),
                "needs_to_manifest": v.get("needs_to_manifest"),
                "files_changed": v.get("files_changed"),
                "validated_on_repo_head": head,
                "what_i_ran": [
                    "tools/store_round2.py (scratch worktree of /repo HEAD, "
                    "git apply, compileall, pinned suite, demo, checks)",
                    "suite with the change: " + suite,
                    ("demo without the change: " + clean) if kind == "mutant"
                    else "twin: behaviour-preserving, no demo of its own",
                    ("demo with the change: " if kind == "mutant" else
                     "all mutant demos of this property with the twin "
                     "applied: ") + seeded],
                "verdicts": verdicts,
                "detected_by": sorted(c for c, d in verdicts.items()
                                      if d["exit"] == 1),
                "refused_by": sorted(c for c, d in verdicts.items()
                                     if d["exit"] == 2),
            }
            json.dump(meta, open(os.path.join(dst, "meta.json"), "w"),
                      indent=1)
        print(pid, name, kind, "VALID" if valid else "INVALID",
              "| suite:", suite, "| clean:", clean, "| seeded:", seeded,
              "|", {c: (d["exit"], d["rules"]) for c, d in verdicts.items()})
    finally:
        subprocess.run(["git", "-C", "/repo", "worktree", "remove", "--force",
                        wt])
