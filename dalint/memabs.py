"""Abstract interpretation of memory-value decoders (check_raw, is_valid,
raw_to_value) over symbolic raw bytes.

`raw` is a byte string of the value's declared length n.  Its first byte is
tracked exactly as a subset of 0..255 (split by the code's own comparisons,
through arbitrary arithmetic on that byte); the remaining bytes are symbolic:
equality with a constant byte string forks the path and records the fact,
numbers assembled from several bytes are opaque integers whose comparisons
fork.  Exceptions are tracked by class as in tri.py."""
import ast

from .core import AnalysisError, unparse
from .fold import EnumMember, Record, UNKNOWN
from .tri import (TriInterp, V, Path, Outcome, ALL_BYTES, NONE, STR, INT,
                  BOOLV, UNK, SELF, LISTV, _bf)


def RAW(lo, hi):
    return V("raw", (lo, hi))


class MemInterp(TriInterp):
    def __init__(self, world, cls, n, folder, dyn_attrs=None):
        super().__init__(world, cls, "clean", folder, dyn_attrs=dyn_attrs)
        self.n = n

    def frame_value(self):
        return UNK

    def lift(self, v):
        if isinstance(v, EnumMember):
            return V("flag", v.name) if v.cls.name == "FlagValue" else \
                V("const", v.value) if isinstance(v.value, (int, str)) \
                else UNK
        if isinstance(v, bytes):
            return V("const", v)
        if isinstance(v, (tuple, list)) and v and all(
                isinstance(x, Record) for x in v):
            return V("constseq", tuple(v))
        if isinstance(v, Record):
            return V("record", v)
        return super().lift(v)

    def start_path(self):
        return Path(ALL_BYTES, {})

    def run_classmethod(self, name, args, path=None):
        r = self.cls.lookup(name)
        if r is None or r[1] in ("attr", "class"):
            raise AnalysisError("%s has no method %s" % (self.cls.qname,
                                                         name))
        owner, kind, fn = r
        return self.call_function(owner, fn, path or self.start_path(),
                                  list(args))

    def run_expr(self, src, env):
        """Interpret an expression (source text) with env; owner = cls."""
        e = ast.parse(src, mode="eval").body
        outs = []
        p = self.start_path()
        p.env.update(env)
        for (q, v) in self.ev(e, p, self.cls, outs):
            outs.append(Outcome("return", v, q.bytes,
                                q.env.get("__trail__", ())))
        return outs

    # -- facts about the symbolic tail ------------------------------------------
    def _fact(self, p, key, val):
        facts = dict(p.env.get("__facts__", ()))
        if key in facts:
            return p if facts[key] == val else None
        # two different constants cannot both equal the same slice
        if val is True and key[0] == "eq":
            for k, v in facts.items():
                if k[0] == "eq" and k[1] == key[1] and v is True and \
                        k[2] != key[2]:
                    return None
        q = p.fork()
        facts[key] = val
        q.env["__facts__"] = tuple(sorted(facts.items(), key=repr))
        q.env["__trail__"] = q.env.get("__trail__", ()) + ((
            "%s[%d:%d] == %s" % ("raw", key[1][0], key[1][1], key[2].hex()),
            val),) if key[0] == "eq" else q.env.get("__trail__", ())
        return q

    # -- hooks --------------------------------------------------------------------
    def subscript_hook(self, p, base, e, owner, outs):
        if base.kind != "raw":
            return None
        lo, hi = base.val
        if isinstance(e.slice, ast.Slice):
            a = self.folder.eval(e.slice.lower, {}, owner.mod) \
                if e.slice.lower else 0
            b = self.folder.eval(e.slice.upper, {}, owner.mod) \
                if e.slice.upper else (hi - lo)
            if not isinstance(a, int) or not isinstance(b, int) or \
                    e.slice.step is not None:
                return [(p, UNK)]
            ln = hi - lo
            if a < 0:
                a += ln
            if b < 0:
                b += ln
            a, b = max(0, min(a, ln)), max(0, min(b, ln))
            return [(p, RAW(lo + a, lo + max(a, b)))]
        res = []
        for (q, idx) in self._ev(e.slice, p, owner, outs):
            if idx.kind == "const" and isinstance(idx.val, int):
                i = idx.val if idx.val >= 0 else (hi - lo) + idx.val
                if not (0 <= i < hi - lo):
                    outs.append(Outcome("raise", "IndexError", q.bytes))
                    continue
                if lo + i == 0:
                    res.append((q, V("byte")))
                else:
                    res.append((q, V("obyte", lo + i)))
            else:
                res.append((q, V("obyte", None)))
        return res

    def cmp_hook(self, p, l, op, r):
        # raw slice == constant bytes
        if isinstance(op, (ast.Eq, ast.NotEq)):
            a, b = (l, r) if l.kind == "raw" else (r, l)
            if a.kind == "raw" and b.kind == "const" and isinstance(
                    b.val, (bytes, type(None))):
                pos = isinstance(op, ast.Eq)
                if b.val is None:
                    return [(p, not pos)]
                lo, hi = a.val
                if len(b.val) != hi - lo:
                    return [(p, not pos)]
                if (lo, hi) == (0, 1):
                    c = b.val[0]
                    out = []
                    yes = p.bytes & {c}
                    no = p.bytes - {c}
                    if yes:
                        out.append((p.fork(yes), pos))
                    if no:
                        out.append((p.fork(no), not pos))
                    return out
                out = []
                if lo == 0:
                    # first byte is tracked: refine it on the equal branch
                    yes = p.bytes & {b.val[0]}
                    if yes:
                        q = self._fact(p.fork(yes), ("eq", (lo, hi), b.val),
                                       True)
                        if q is not None:
                            out.append((q, pos))
                    q = self._fact(p, ("eq", (lo, hi), b.val), False)
                    if q is not None:
                        out.append((q, not pos))
                    return out
                for val in (True, False):
                    q = self._fact(p, ("eq", (lo, hi), b.val), val)
                    if q is not None:
                        out.append((q, pos if val else not pos))
                return out
        # opaque integers: comparisons are unknown (fork) - except of a
        # number with itself
        if l.kind in ("oint", "obyte") or r.kind in ("oint", "obyte"):
            if l is r and isinstance(op, (ast.Lt, ast.LtE, ast.Gt, ast.GtE,
                                          ast.Eq, ast.NotEq)):
                return [(p, isinstance(op, (ast.LtE, ast.GtE, ast.Eq)))]
            return [(p, None)]
        if isinstance(op, (ast.In, ast.NotIn)) and l.kind == "obyte":
            return [(p, None)]
        return None

    def attr_hook(self, p, base, name, owner, outs):
        if base.kind == "raw":
            return [(p, V("boundmethod", (base, name)))]
        if base.kind == "record":
            v = getattr(base.val, name, None)
            return [(p, self.lift(v))]
        if base.kind == "flag":
            return [(p, STR)]
        return None

    def value_truth(self, p, v):
        if v.kind == "flag":
            return [(p, True)]
        if v.kind == "raw":
            lo, hi = v.val
            return [(p, hi > lo)]
        if v.kind in ("oint", "obyte"):
            return [(p, None)]
        if v.kind == "const" and isinstance(v.val, bytes):
            return [(p, bool(v.val))]
        return super().value_truth(p, v)

    def call_hook(self, e, f, p, args, owner, outs):
        fname = unparse(f)
        if fname == "int.from_bytes" and args:
            a = args[0]
            signed = False
            order = args[1] if len(args) > 1 else None
            for k in e.keywords:
                if k.arg == "signed":
                    sv = [v for (_, v) in self._ev(k.value, p, owner, outs)]
                    if sv and sv[0].kind == "const":
                        signed = bool(sv[0].val)
                    else:
                        signed = None
                if k.arg == "byteorder":
                    ov = [v for (_, v) in self._ev(k.value, p, owner, outs)]
                    order = ov[0] if ov else None
            if a.kind == "raw":
                lo, hi = a.val
                if (lo, hi) == (0, 1) and signed is not None:
                    if signed:
                        return [(p, V("bfun", lambda b: b - 256 if b > 127
                                      else b))]
                    return [(p, V("byte"))]
                if hi - lo == 0:
                    return [(p, V("const", 0))]
                return [(p, V("oint", (lo, hi, signed)))]
            return [(p, V("oint", None))]
        if fname == "len" and len(args) == 1:
            a = args[0]
            if a.kind == "raw":
                return [(p, V("const", a.val[1] - a.val[0]))]
            if a.kind == "constseq":
                return [(p, V("const", len(a.val)))]
            if a.kind == "const" and isinstance(a.val, (bytes, str)):
                return [(p, V("const", len(a.val)))]
        if fname in ("bytes",) and len(args) == 1 and args[0].kind == "raw":
            return [(p, args[0])]
        if fname == "float" and len(args) == 1 and args[0].kind == "const" \
                and isinstance(args[0].val, (str, int, float)):
            try:
                return [(p, V("const", float(args[0].val)))]
            except ValueError:
                pass
        if fname in ("pow", "Decimal", "float", "round", "abs", "min",
                     "max"):
            return [(p, V("oint", None))]
        # methods on raw: split / decode chains
        if isinstance(f, ast.Attribute):
            res = []
            for (q, fv) in self._ev(f, p, owner, outs):
                if fv.kind == "boundmethod":
                    base, name = fv.val
                    if getattr(base, "kind", None) in ("raw", "rawlist",
                                                       "rawpiece"):
                        if name in ("split", "partition", "rpartition",
                                    "rsplit"):
                            res.append((q, V("rawlist")))
                        elif name == "isascii":
                            # both answers are possible; the one given is
                            # remembered on the path (it decides whether a
                            # later decode('ascii') can raise)
                            q1, q2 = q.fork(), q.fork()
                            q1.env["__ascii__"] = True
                            q2.env["__ascii__"] = False
                            res.append((q1, V("const", True)))
                            res.append((q2, V("const", False)))
                        elif name == "decode":
                            # bytes outside the codec raise - unless the
                            # path has asked isascii() and was told yes
                            if q.env.get("__ascii__") is not True:
                                outs.append(Outcome("raise",
                                                    "UnicodeDecodeError",
                                                    q.bytes))
                            res.append((q, STR))
                        elif name in ("hex",):
                            res.append((q, STR))
                        elif name in ("startswith", "endswith"):
                            res.append((q, BOOLV))
                        else:
                            res.append((q, UNK))
                        continue
                    if name == "join":
                        res.append((q, STR))
                        continue
                    return None
                else:
                    return None
            return res
        return None

    def _ev(self, e, path, owner, outs):
        # generator expressions / comprehensions over raw: opaque
        if isinstance(e, (ast.GeneratorExp, ast.ListComp)):
            return [(path, LISTV)]
        if isinstance(e, ast.Subscript):
            # rawlist[0] -> rawpiece
            res = []
            handled = False
            for (p, base) in super()._ev(e.value, path, owner, outs):
                if base.kind == "rawlist":
                    res.append((p, V("rawpiece")))
                    handled = True
                else:
                    handled = False
                    break
            if handled:
                return res
        if isinstance(e, ast.BinOp):
            res = []
            ok = False
            for (p, l) in super()._ev(e.left, path, owner, outs):
                for (q, r) in super()._ev(e.right, p, owner, outs):
                    if l.kind in ("oint", "obyte") or r.kind in (
                            "oint", "obyte"):
                        res.append((q, V("oint", None)))
                        ok = True
                    else:
                        ok = False
                        break
            if ok:
                return res
        return super()._ev(e, path, owner, outs)

    def attr(self, p, base, name, owner, outs, node):
        if base.kind == "rawpiece" or base.kind == "rawlist":
            return [(p, V("boundmethod", (base, name)))]
        return super().attr(p, base, name, owner, outs, node)
