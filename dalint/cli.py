"""python -m dalint check Cxx [--tier quick|thorough] [--repo PATH]"""
import argparse
import importlib
import os
import sys
import traceback

from .core import AnalysisError, Repo, Run, finish
from .front import World

PROPS = ["C%02d" % i for i in range(1, 21)]


def run_check(pid, tier, repo_root, write_evidence=True):
    try:
        mod = importlib.import_module("dalint.props.%s" % pid)
    except ModuleNotFoundError:
        print("ANALYSIS-ERROR property=%s no checker module" % pid)
        return 2
    run = Run(pid, tier, repo_root)
    try:
        repo = Repo(repo_root)
        world = World(repo)
        try:
            mod.check(run, repo, world)
        except AnalysisError as e:
            # violations already established stay established: report them
            # (exit 1) and say that the rest of the analysis did not finish
            if not _new_findings(run):
                raise
            run.deferred.append(str(e))
        if run.deferred:
            if not _new_findings(run):
                raise AnalysisError(run.deferred[0])
            for d in run.deferred:
                print("   ANALYSIS-INCOMPLETE property=%s %s" % (pid, d))
        if tier == "thorough" and not os.environ.get("DALINT_NO_SELFTEST"):
            from .core import load_known
            from .selftest import selftest
            kset = {(k["property"], k["key"])
                    for k in load_known().get("known", [])}
            if all((pid, f.key) in kset for f in run.findings):
                # the tree itself is clean: try the rules both ways on
                # scratch copies of it (evidence about the checker)
                run.selftest = selftest(pid, repo_root)
        return finish(run, write_evidence=write_evidence)
    except AnalysisError as e:
        print("ANALYSIS-ERROR property=%s %s" % (pid, e))
        return 2
    except Exception:
        traceback.print_exc()
        print("ANALYSIS-ERROR property=%s internal error in the analyser "
              "(traceback above)" % pid)
        return 2


def _new_findings(run):
    from .core import load_known
    kset = {(k["property"], k["key"]) for k in load_known().get("known", [])}
    return [f for f in run.findings if (run.pid, f.key) not in kset]


def main(argv=None):
    ap = argparse.ArgumentParser(prog="dalint")
    sub = ap.add_subparsers(dest="cmd", required=True)
    c = sub.add_parser("check")
    c.add_argument("pid")
    c.add_argument("--tier", default=os.environ.get("VERIF_TIER") or "quick",
                   choices=["quick", "thorough"])
    c.add_argument("--repo", default=os.environ.get("DALINT_REPO", "/repo"))
    c.add_argument("--no-evidence", action="store_true")
    a = sub.add_parser("all")
    a.add_argument("--tier", default="quick")
    a.add_argument("--repo", default=os.environ.get("DALINT_REPO", "/repo"))
    a.add_argument("--no-evidence", action="store_true")
    args = ap.parse_args(argv)
    if args.cmd == "check":
        return run_check(args.pid, args.tier, args.repo,
                         write_evidence=not args.no_evidence)
    rc = 0
    for pid in PROPS:
        r = run_check(pid, args.tier, args.repo,
                      write_evidence=not args.no_evidence)
        rc = max(rc, r)
    return rc


if __name__ == "__main__":
    sys.exit(main())
