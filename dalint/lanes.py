"""Symbolic bit-lane algebra for fixed-width bit vectors of *symbolic* width.

Used to prove the slice/bit arithmetic of dali.frame.Frame for every width at
once: an integer expression is abstracted to a list of segments
(destination lane interval, source, source offset) whose interval end points
are linear forms over the symbols lo, hi, bits, key (and constants).  Order
between end points is decided exactly from the chain of facts established by
the validation code:  0 <= lo <= hi <= bits-1  and  0 <= key <= bits-1.

No values are enumerated; the result is a proof about lanes."""
import ast

from .core import AnalysisError, unparse

INF = "inf"


class Lin:
    """Linear form over symbols with integer coefficients."""
    __slots__ = ("c", "k")

    def __init__(self, c=None, k=0):
        self.c = {s: v for s, v in (c or {}).items() if v}
        self.k = k

    @staticmethod
    def const(k):
        return Lin({}, k)

    @staticmethod
    def sym(s):
        return Lin({s: 1}, 0)

    def __add__(self, o):
        o = _lin(o)
        c = dict(self.c)
        for s, v in o.c.items():
            c[s] = c.get(s, 0) + v
        return Lin(c, self.k + o.k)

    def __sub__(self, o):
        o = _lin(o)
        c = dict(self.c)
        for s, v in o.c.items():
            c[s] = c.get(s, 0) - v
        return Lin(c, self.k - o.k)

    def __eq__(self, o):
        if not isinstance(o, (Lin, int)):
            return False
        o = _lin(o)
        return self.c == o.c and self.k == o.k

    def __ne__(self, o):
        return not self.__eq__(o)

    def __hash__(self):
        return hash((tuple(sorted(self.c.items())), self.k))

    def is_const(self):
        return not self.c

    def __repr__(self):
        parts = []
        for s, v in sorted(self.c.items()):
            parts.append(("%s" % s) if v == 1 else ("-%s" % s) if v == -1
                         else "%d*%s" % (v, s))
        if self.k or not parts:
            parts.append(str(self.k))
        return "+".join(parts).replace("+-", "-")


def _lin(x):
    if isinstance(x, Lin):
        return x
    if isinstance(x, int):
        return Lin.const(x)
    raise TypeError(x)


class Facts:
    """0 <= lo <= hi <= bits-1 (slice) or 0 <= key <= bits-1 (bit), plus
    optional extra symbols with 0 <= s."""

    def __init__(self, mode):
        self.mode = mode

    def nonneg(self, f):
        """Is the linear form f >= 0 under the facts?  Exact for the chain."""
        f = _lin(f)
        c = dict(f.c)
        k = f.k
        if self.mode == "slice":
            # lo = f1; hi = f1+f2; bits = f1+f2+f3+1 ; all fi >= 0
            a, b, g = c.pop("lo", 0), c.pop("hi", 0), c.pop("bits", 0)
            if c:
                return False
            coef = [a + b + g, b + g, g]
            return all(x >= 0 for x in coef) and k + g >= 0
        if self.mode == "bit":
            a, g = c.pop("key", 0), c.pop("bits", 0)
            if c:
                return False
            # key = f1 ; bits = f1 + f2 + 1
            return a + g >= 0 and g >= 0 and k + g >= 0
        if self.mode == "add":
            # a >= 1, b >= 1 (widths of two frames)
            a, b = c.pop("a", 0), c.pop("b", 0)
            if c:
                return False
            return a >= 0 and b >= 0 and k + a + b >= 0
        if self.mode == "width":
            g = c.pop("bits", 0)
            if c:
                return False
            return g >= 0 and k + g >= 0     # bits >= 1
        return False

    def le(self, a, b):
        if isinstance(b, str) and b == INF:
            return True
        if isinstance(a, str) and a == INF:
            return False
        return self.nonneg(_lin(b) - _lin(a))

    def lt(self, a, b):
        if isinstance(a, str) and a == INF:
            return False
        if isinstance(b, str) and b == INF:
            return True
        return self.nonneg(_lin(b) - _lin(a) - 1)


class Seg:
    """Lanes [a, b) of the destination hold source[off + (lane - a)];
    source in {'ones', 'data', 'value', 'other'}."""
    __slots__ = ("a", "b", "src", "off")

    def __init__(self, a, b, src, off=0):
        self.a, self.b, self.src, self.off = a, b, src, off

    def __repr__(self):
        if self.src == "ones":
            return "1[%r,%r)" % (self.a, self.b)
        return "%s[%r..]@[%r,%r)" % (self.src, self.off, self.a, self.b)

    def key(self):
        return (repr(self.a), repr(self.b), self.src, repr(self.off))


class BV:
    """Abstract non-negative integer: list of segments (all other lanes are
    zero)."""

    def __init__(self, segs):
        self.segs = [s for s in segs]

    def __repr__(self):
        return "BV(%s)" % ", ".join(map(repr, self.segs)) if self.segs \
            else "BV(0)"


def ones(a, b):
    return BV([Seg(_e(a), _e(b), "ones")])


def _isinf(x):
    return isinstance(x, str) and x == INF


def _e(x):
    return x if _isinf(x) else _lin(x)


def _sub_end(x, k):
    return x if _isinf(x) else x - k


def _add_end(x, k):
    return x if _isinf(x) else x + k


class LaneAlg:
    def __init__(self, facts):
        self.f = facts

    def _order(self, a, b):
        """-1 if a<=b provably, 1 if b<=a provably (and not equal), None."""
        if self.f.le(a, b):
            return -1
        if self.f.le(b, a):
            return 1
        return None

    def shl(self, x, k):
        return BV([Seg(_add_end(s.a, k), _add_end(s.b, k), s.src, s.off)
                   for s in x.segs])

    def shr(self, x, k):
        out = []
        for s in x.segs:
            # lanes below k are dropped
            if self.f.le(s.b, k):
                continue
            if self.f.le(k, s.a):
                out.append(Seg(s.a - k, _sub_end(s.b, k), s.src, s.off))
            elif self.f.le(s.a, k):
                cut = _lin(k) - s.a
                out.append(Seg(Lin.const(0), _sub_end(s.b, k), s.src,
                               _lin(s.off) + cut if s.src != "ones" else 0))
            else:
                raise AnalysisError("lanes: cannot order %r and %r" % (s.a,
                                                                        k))
        return BV(out)

    def _clip(self, s, a, b):
        """segment s restricted to [a, b) (ends must be orderable)."""
        lo = s.a if self.f.le(a, s.a) else a if self.f.le(s.a, a) else None
        hi = s.b if self.f.le(s.b, b) else b if self.f.le(b, s.b) else None
        if lo is None or hi is None:
            raise AnalysisError("lanes: cannot order interval ends")
        if self.f.le(hi, lo):
            return None
        off = s.off
        if s.src != "ones" and not (lo == s.a):
            off = _lin(s.off) + (_lin(lo) - s.a)
        return Seg(lo, hi, s.src, off)

    def and_mask(self, x, mask):
        """x & mask where mask is a BV of 'ones' segments."""
        if not all(m.src == "ones" for m in mask.segs):
            if all(m.src == "ones" for m in x.segs):
                return self.and_mask(mask, x)
            raise AnalysisError("lanes: & of two non-mask values")
        out = []
        for s in x.segs:
            for m in mask.segs:
                c = self._clip(s, m.a, m.b)
                if c is not None:
                    out.append(c)
        return BV(out)

    def disjoint(self, x, y):
        for s in x.segs:
            for t in y.segs:
                if not (self.f.le(s.b, t.a) or self.f.le(t.b, s.a)):
                    return False
        return True

    def minus(self, x, mask):
        """x with the lanes of mask removed."""
        out = []
        for s in x.segs:
            pieces = [s]
            for m in mask.segs:
                np = []
                for p in pieces:
                    if self.f.le(p.b, m.a) or self.f.le(m.b, p.a):
                        np.append(p)
                        continue
                    # possibly-empty pieces are harmless
                    left = right = None
                    if self.f.le(m.a, p.a):
                        pass
                    elif self.f.le(p.a, m.a):
                        left = self._clip(p, p.a, m.a)
                    else:
                        raise AnalysisError("lanes: cannot split %r at %r"
                                            % (p, m.a))
                    if self.f.le(p.b, m.b):
                        pass
                    elif self.f.le(m.b, p.b):
                        right = self._clip(p, m.b, p.b)
                    else:
                        raise AnalysisError("lanes: cannot split %r at %r"
                                            % (p, m.b))
                    if left is not None:
                        np.append(left)
                    if right is not None:
                        np.append(right)
                pieces = np
            out += pieces
        return BV(out)

    def or_(self, x, y):
        # OR with a pure ones-mask forces those lanes to 1
        if y.segs and all(s.src == "ones" for s in y.segs) and \
                not self.disjoint(x, y):
            return BV(self.minus(x, y).segs + y.segs)
        if x.segs and all(s.src == "ones" for s in x.segs) and \
                not self.disjoint(x, y):
            return BV(self.minus(y, x).segs + x.segs)
        if not self.disjoint(x, y):
            raise AnalysisError("lanes: | of overlapping values %r %r"
                                % (x, y))
        return BV(x.segs + y.segs)

    def xor_masks(self, x, y):
        """x ^ y for 'ones' masks with y contained in one segment of x."""
        if not all(s.src == "ones" for s in y.segs):
            if all(s.src == "ones" for s in x.segs):
                return self.xor_masks(y, x)
            raise AnalysisError("lanes: ^ of two non-mask values")
        if not all(s.src == "ones" for s in x.segs):
            # value ^ mask: the masked lanes are complemented
            out = list(self.minus(x, y).segs)
            for t in y.segs:
                covered = BV([])
                for s in x.segs:
                    c = self._clip(s, t.a, t.b) if not (
                        self.f.le(s.b, t.a) or self.f.le(t.b, s.a)) else None
                    if c is not None:
                        out.append(Seg(c.a, c.b, "~" + c.src
                                       if not c.src.startswith("~")
                                       else c.src[1:], c.off))
                        covered.segs.append(Seg(c.a, c.b, "ones"))
                out += self.minus(BV([t]), covered).segs
            return BV(out)
        out = []
        rest = list(y.segs)
        for s in x.segs:
            pieces = [s]
            for t in y.segs:
                np = []
                for p in pieces:
                    if self.f.le(p.b, t.a) or self.f.le(t.b, p.a):
                        np.append(p)
                        continue
                    if not (self.f.le(p.a, t.a) and self.f.le(t.b, p.b)):
                        raise AnalysisError("lanes: ^ with partial overlap")
                    if not (p.a == t.a):
                        np.append(Seg(p.a, t.a, "ones"))
                    if not (p.b == t.b):
                        np.append(Seg(t.b, p.b, "ones"))
                    if t in rest:
                        rest.remove(t)
                pieces = np
            out += pieces
        # parts of y outside x become ones too
        out += rest
        return BV(out)

    def norm(self, x):
        """Merge adjacent segments with matching source/offset; sort."""
        segs = list(x.segs)
        changed = True
        while changed:
            changed = False
            for i, s in enumerate(segs):
                for j, t in enumerate(segs):
                    if i == j or s.src != t.src:
                        continue
                    if s.b == t.a and (s.src == "ones" or _lin(t.off) == (
                            _lin(s.off) + (_lin(s.b) - s.a)
                            if not _isinf(s.b) else None)):
                        segs[i] = Seg(s.a, t.b, s.src, s.off)
                        del segs[j]
                        changed = True
                        break
                if changed:
                    break

        def k(s):
            # order by provable <=
            return 0
        # selection sort with symbolic order
        out = []
        rem = list(segs)
        while rem:
            best = None
            for s in rem:
                if all(s is t or self.f.le(s.a, t.a) for t in rem):
                    best = s
                    break
            if best is None:
                raise AnalysisError("lanes: cannot sort segments %r" % rem)
            out.append(best)
            rem.remove(best)
        return BV(out)

    def equal(self, x, want):
        a = [s.key() for s in self.norm(x).segs]
        b = [s.key() for s in self.norm(want).segs]
        return a == b


# ---------------------------------------------------------------------------
class LaneInterp:
    """Evaluates an integer expression AST to a BV given an environment of
    named BVs and symbolic ints."""

    def __init__(self, facts, env, syms):
        self.alg = LaneAlg(facts)
        self.env = env          # name/text -> BV
        self.syms = syms        # name/text -> Lin

    def lin(self, e):
        t = unparse(e)
        if t in self.syms:
            return self.syms[t]
        if isinstance(e, ast.Constant) and isinstance(e.value, int):
            return Lin.const(e.value)
        if isinstance(e, ast.BinOp) and isinstance(e.op, (ast.Add, ast.Sub)):
            l, r = self.lin(e.left), self.lin(e.right)
            if l is None or r is None:
                return None
            return l + r if isinstance(e.op, ast.Add) else l - r
        return None

    def bv(self, e):
        t = unparse(e)
        if t in self.env:
            return self.env[t]
        if isinstance(e, ast.Constant) and isinstance(e.value, int):
            if e.value == 0:
                return BV([])
            if e.value == 1:
                return ones(0, 1)
        if isinstance(e, ast.BinOp):
            op = e.op
            if isinstance(op, ast.LShift):
                k = self.lin(e.right)
                if k is None:
                    raise AnalysisError("lanes: shift by %s" % unparse(
                        e.right))
                return self.alg.shl(self.bv(e.left), k)
            if isinstance(op, ast.RShift):
                k = self.lin(e.right)
                if k is None:
                    raise AnalysisError("lanes: shift by %s" % unparse(
                        e.right))
                return self.alg.shr(self.bv(e.left), k)
            if isinstance(op, ast.Sub) and isinstance(
                    e.right, ast.Constant) and e.right.value == 1:
                # (1 << n) - 1  -> ones [0, n)
                l = e.left
                if isinstance(l, ast.BinOp) and isinstance(
                        l.op, ast.LShift) and isinstance(
                            l.left, ast.Constant) and l.left.value == 1:
                    n = self.lin(l.right)
                    if n is not None:
                        return ones(0, n)
                if isinstance(l, ast.Call) and unparse(l.func) == "pow" and \
                        len(l.args) == 2 and unparse(l.args[0]) == "2":
                    n = self.lin(l.args[1])
                    if n is not None:
                        return ones(0, n)
            if isinstance(op, ast.Sub):
                # (1 << a) - (1 << b) with b <= a under the facts: the ones
                # in [b, a)
                def pow2(x):
                    if isinstance(x, ast.BinOp) and isinstance(
                            x.op, ast.LShift) and isinstance(
                                x.left, ast.Constant) and x.left.value == 1:
                        return self.lin(x.right)
                    return None
                a_, b_ = pow2(e.left), pow2(e.right)
                if a_ is not None and b_ is not None and self.alg.f.le(
                        b_, a_):
                    return ones(b_, a_)
            if isinstance(op, ast.BitAnd):
                return self.alg.and_mask(self.bv(e.left), self.bv(e.right))
            if isinstance(op, ast.BitOr):
                return self.alg.or_(self.bv(e.left), self.bv(e.right))
            if isinstance(op, ast.BitXor):
                return self.alg.xor_masks(self.bv(e.left), self.bv(e.right))
        if isinstance(e, ast.UnaryOp) and isinstance(e.op, ast.Invert):
            x = self.bv(e.operand)
            return self.alg.xor_masks(ones(0, INF), x)
        raise AnalysisError("lanes: unsupported expression %s" % t)
