"""Partial evaluation of class-creation-time code ("registration code").

The repository builds its decode registries while classes are being created:
metaclass __init__ methods (_CommandTracker, AddressTracker,
BitmapResponseBitDict, _RegisterMemoryValue) and _register_subclass
classmethods run once per class on *source constants* (class names, _cmdval,
devicetype, bits, locations ...).  This module interprets exactly that code,
in definition order, over the class table - so the registries the decoders
later read are derived from the code that builds them, not mirrored.  Nothing
that depends on a run-time input is evaluated; an unsupported construct or an
unknown value raises AnalysisError (exit 2)."""
import ast

from .core import AnalysisError, unparse
from .fold import Folder, UNKNOWN, ClassRef, EnumMember, Record
from .front import ClassInfo


class ClsObj:
    """Run-time image of a repository class during registration."""

    def __init__(self, rx, info):
        self.rx = rx
        self.info = info
        self.ns = {}       # attributes set dynamically on this class

    def __repr__(self):
        return "<cls %s>" % self.info.name

    @property
    def name(self):
        return self.info.name


class _Return(Exception):
    def __init__(self, v):
        self.v = v


class _Continue(Exception):
    pass


class _Break(Exception):
    pass


class _AttrMissing(AnalysisError):
    """A class attribute that does not exist (AttributeError at run time)."""


class RaisedInReg(Exception):
    def __init__(self, what):
        self.what = what


_MISSING = object()


class RegExec:
    def __init__(self, world, folder=None, record_models=None,
                 record_methods=None):
        self.record_methods = record_methods or {}
        self.world = world
        self.folder = folder or Folder(world)
        self.objs = {}            # ClassInfo -> ClsObj
        self.steps = 0
        self.record_models = record_models or {}
        self.log = []
        self.collisions = []      # (registry text, key, old, new)
        self.raised = []          # (class qname, exception text)

    def obj(self, info):
        o = self.objs.get(info)
        if o is None:
            o = ClsObj(self, info)
            self.objs[info] = o
        return o

    # -- driving ----------------------------------------------------------------
    def create_all(self, classes):
        """Run the metaclass __init__ of each class in definition order."""
        for c in classes:
            self.create(c)

    def create(self, c):
        meta = c.metaclass
        o = self.obj(c)
        if meta is None:
            return o
        r = meta.lookup("__init__")
        if r is None or r[1] in ("attr", "class"):
            return o
        owner, kind, fn = r
        bases = tuple(self.obj(b) if isinstance(b, ClassInfo) else
                      ("ext", b) for b in c.bases)
        attrs = {"__static__": c}
        try:
            self.call(owner, fn, [o, c.name, bases, attrs], {})
        except RaisedInReg as e:
            self.raised.append((c.qname, e.what))
        return o

    # -- attribute model ----------------------------------------------------------
    def getattr_cls(self, o, name, default=_MISSING):
        if name == "__name__":
            return o.info.name
        if name == "__qualname__":
            return o.info.name
        for k in o.info.mro:
            if not isinstance(k, ClassInfo):
                continue
            ko = self.objs.get(k)
            if ko is not None and name in ko.ns:
                return ko.ns[name]
            if name in k.methods:
                kind, fn = k.methods[name]
                return ("boundfn", k, kind, fn, o)
            if name in k.attrs:
                v = self.static_attr(k, name)
                return v
            if name in k.nested:
                return self.obj(k.nested[name])
        if default is not _MISSING:
            return default
        raise _AttrMissing("registration code reads unknown attribute "
                           "%s.%s" % (o.info.qname, name))

    def static_attr(self, k, name):
        """Folded static class attribute; mutable containers become a
        dynamic per-class object on first read (so `_opcodes = {}` in a class
        body is one shared dict, as at run time)."""
        ko = self.obj(k)
        if name in ko.ns:
            return ko.ns[name]
        expr = k.attrs[name]
        if isinstance(expr, (ast.Dict, ast.List, ast.Set)) or (
                isinstance(expr, ast.Call) and isinstance(
                    expr.func, ast.Name) and expr.func.id in (
                        "dict", "list", "set")):
            v = self.folder.eval(expr, {}, k.mod, cls=k)
            if v is UNKNOWN:
                raise AnalysisError("cannot fold %s.%s" % (k.qname, name))
            v = self.wrap(v)
            ko.ns[name] = v
            return v
        v = self.folder.class_attr(k, name)
        if v is UNKNOWN:
            v2 = self.model_static(k, name, expr)
            if v2 is not _MISSING:
                return v2
            return UnknownStatic(k, name)
        return self.wrap(v)

    def model_static(self, k, name, expr):
        return _MISSING

    def hasattr_cls(self, o, name):
        return self.getattr_cls(o, name, default=None) is not None or any(
            isinstance(k, ClassInfo) and (name in k.attrs or name in
                                          k.methods or (self.objs.get(k)
                                                        and name in
                                                        self.objs[k].ns))
            for k in o.info.mro)

    def wrap(self, v):
        if isinstance(v, ClassRef):
            return self.obj(v.cls)
        if isinstance(v, list):
            return [self.wrap(x) for x in v]
        if isinstance(v, tuple):
            return tuple(self.wrap(x) for x in v)
        if isinstance(v, dict):
            return {self.wrap(a): self.wrap(b) for a, b in v.items()}
        return v

    # -- calls ---------------------------------------------------------------------
    def call(self, owner, fn, args, kwargs):
        env = {}
        params = [a.arg for a in fn.args.args]
        defaults = fn.args.defaults
        for i, pn in enumerate(params):
            if i < len(args):
                env[pn] = args[i]
            elif pn in kwargs:
                env[pn] = kwargs[pn]
            else:
                di = i - (len(params) - len(defaults))
                if di >= 0:
                    env[pn] = self.ev(defaults[di], {}, owner)
                else:
                    raise AnalysisError("registration: missing argument %s "
                                        "of %s" % (pn, fn.name))
        try:
            self.block(fn.body, env, owner)
        except _Return as r:
            return r.v
        return None

    def call_bound(self, b, args, kwargs):
        _, k, kind, fn, recv = b
        if kind == "classmethod":
            return self.call(k, fn, [recv] + list(args), kwargs)
        if kind == "staticmethod":
            return self.call(k, fn, list(args), kwargs)
        return self.call(k, fn, list(args), kwargs)

    # -- statements -----------------------------------------------------------------
    def block(self, stmts, env, owner):
        for s in stmts:
            self.stmt(s, env, owner)

    def stmt(self, s, env, owner):
        self.steps += 1
        if self.steps > 2000000:
            raise AnalysisError("registration code: step limit")
        if isinstance(s, ast.Expr):
            if isinstance(s.value, ast.Constant):
                return
            self.ev(s.value, env, owner)
            return
        if isinstance(s, ast.Assign):
            v = self.ev(s.value, env, owner)
            for t in s.targets:
                self.assign(t, v, env, owner)
            return
        if isinstance(s, ast.AugAssign):
            cur = self.ev(s.target, env, owner)
            r = self.ev(s.value, env, owner)
            v = self.binop(s.op, cur, r)
            self.assign(s.target, v, env, owner)
            return
        if isinstance(s, ast.If):
            t = self.truth(self.ev(s.test, env, owner), s.test)
            self.block(s.body if t else s.orelse, env, owner)
            return
        if isinstance(s, ast.For):
            it = self.ev(s.iter, env, owner)
            try:
                items = list(it)
            except TypeError:
                raise AnalysisError("registration: cannot iterate %s"
                                    % unparse(s.iter))
            broke = False
            for item in items:
                self.assign(s.target, item, env, owner)
                try:
                    self.block(s.body, env, owner)
                except _Continue:
                    continue
                except _Break:
                    broke = True
                    break
            if not broke:
                self.block(s.orelse, env, owner)
            return
        if isinstance(s, ast.Return):
            raise _Return(self.ev(s.value, env, owner) if s.value else None)
        if isinstance(s, ast.Continue):
            raise _Continue()
        if isinstance(s, ast.Break):
            raise _Break()
        if isinstance(s, ast.Pass):
            return
        if isinstance(s, ast.Raise):
            raise RaisedInReg(unparse(s.exc) if s.exc else "re-raise")
        if isinstance(s, ast.Assert):
            t = self.truth(self.ev(s.test, env, owner), s.test)
            if not t:
                raise RaisedInReg("AssertionError: " + unparse(s.test))
            return
        if isinstance(s, ast.AnnAssign):
            if s.value is not None:
                self.assign(s.target, self.ev(s.value, env, owner), env,
                            owner)
            return
        if isinstance(s, ast.Try):
            def catches(h, excname):
                if h.type is None:
                    return True
                names = [unparse(e_).split(".")[-1] for e_ in (
                    h.type.elts if isinstance(h.type, ast.Tuple)
                    else [h.type])]
                return excname in names or "Exception" in names or \
                    "BaseException" in names
            try:
                try:
                    self.block(s.body, env, owner)
                except _AttrMissing:
                    hs = [h for h in s.handlers if catches(h,
                                                           "AttributeError")]
                    if not hs:
                        raise
                    self.block(hs[0].body, env, owner)
                except RaisedInReg as ex:
                    nm = ex.what.split("(")[0].split(":")[0].strip()
                    hs = [h for h in s.handlers if catches(h, nm)]
                    if not hs:
                        raise
                    if hs[0].name:
                        env[hs[0].name] = ex.what
                    self.block(hs[0].body, env, owner)
                else:
                    self.block(s.orelse, env, owner)
            finally:
                if s.finalbody:
                    self.block(s.finalbody, env, owner)
            return
        raise AnalysisError("registration code: unsupported statement %s at "
                            "line %s in %s" % (type(s).__name__, s.lineno,
                                               owner.qname))

    def assign(self, t, v, env, owner):
        if isinstance(t, ast.Name):
            env[t.id] = v
        elif isinstance(t, (ast.Tuple, ast.List)):
            vs = list(v)
            if len(vs) != len(t.elts):
                raise AnalysisError("registration: unpack mismatch")
            for e, x in zip(t.elts, vs):
                self.assign(e, x, env, owner)
        elif isinstance(t, ast.Attribute):
            base = self.ev(t.value, env, owner)
            if isinstance(base, ClsObj):
                base.ns[t.attr] = v
            else:
                raise AnalysisError("registration: attribute store on %r"
                                    % (base,))
        elif isinstance(t, ast.Subscript):
            base = self.ev(t.value, env, owner)
            k = self.ev(t.slice, env, owner)
            if isinstance(base, (dict, list)):
                if isinstance(base, dict) and k in base and \
                        base[k] is not v and k is not None:
                    self.collisions.append((unparse(t.value), k, base[k], v))
                base[k] = v
            else:
                raise AnalysisError("registration: item store on %r"
                                    % (base,))
        else:
            raise AnalysisError("registration: unsupported target")

    def truth(self, v, node=None):
        if isinstance(v, UnknownStatic):
            raise AnalysisError("registration code branches on non-constant "
                                "%s.%s" % (v.cls.qname, v.name))
        if isinstance(v, ClsObj):
            return True
        if isinstance(v, tuple) and v and v[0] == "boundfn":
            return True
        return bool(v)

    # -- expressions -----------------------------------------------------------------
    def ev(self, e, env, owner):
        if isinstance(e, ast.Constant):
            return e.value
        if isinstance(e, ast.Name):
            if e.id in env:
                return env[e.id]
            if e.id in ("True", "False", "None"):
                return {"True": True, "False": False, "None": None}[e.id]
            b = self.world.lookup(owner.mod, e.id)
            if b is not None and b.kind == "class":
                return self.obj(b.value)
            if b is not None and b.kind == "expr":
                v = self.folder.eval(b.value, {}, b.mod)
                if v is not UNKNOWN:
                    return self.wrap(v)
            if b is not None and b.kind == "func":
                return ("modfn", b.mod, b.value)
            if b is not None and b.kind == "module":
                return ("module", b.value)
            if e.id in _BUILTINS:
                return ("builtin", e.id)
            raise AnalysisError("registration code: unknown name %s in %s"
                                % (e.id, owner.qname))
        if isinstance(e, ast.Attribute):
            base = self.ev(e.value, env, owner)
            return self.getattr(base, e.attr)
        if isinstance(e, ast.Tuple):
            return tuple(self.ev(x, env, owner) for x in e.elts)
        if isinstance(e, ast.List):
            return [self.ev(x, env, owner) for x in e.elts]
        if isinstance(e, ast.Set):
            return set(self.ev(x, env, owner) for x in e.elts)
        if isinstance(e, ast.Dict):
            return {self.ev(k, env, owner): self.ev(v, env, owner)
                    for k, v in zip(e.keys, e.values)}
        if isinstance(e, ast.BinOp):
            return self.binop(e.op, self.ev(e.left, env, owner),
                              self.ev(e.right, env, owner))
        if isinstance(e, ast.UnaryOp):
            v = self.ev(e.operand, env, owner)
            if isinstance(e.op, ast.Not):
                return not self.truth(v)
            if isinstance(e.op, ast.USub):
                return -v
            if isinstance(e.op, ast.Invert):
                return ~v
        if isinstance(e, ast.BoolOp):
            res = None
            for x in e.values:
                res = self.ev(x, env, owner)
                t = self.truth(res)
                if isinstance(e.op, ast.And) and not t:
                    return res
                if isinstance(e.op, ast.Or) and t:
                    return res
            return res
        if isinstance(e, ast.Compare):
            l = self.ev(e.left, env, owner)
            for op, c in zip(e.ops, e.comparators):
                r = self.ev(c, env, owner)
                if not self.cmp(op, l, r):
                    return False
                l = r
            return True
        if isinstance(e, ast.IfExp):
            return self.ev(e.body if self.truth(self.ev(
                e.test, env, owner)) else e.orelse, env, owner)
        if isinstance(e, ast.Subscript):
            base = self.ev(e.value, env, owner)
            if isinstance(e.slice, ast.Slice):
                lo = self.ev(e.slice.lower, env, owner) if e.slice.lower \
                    else None
                hi = self.ev(e.slice.upper, env, owner) if e.slice.upper \
                    else None
                return base[lo:hi]
            k = self.ev(e.slice, env, owner)
            try:
                return base[k]
            except (KeyError, IndexError, TypeError) as ex:
                raise RaisedInReg("%s: %s" % (type(ex).__name__, ex))
        if isinstance(e, ast.Call):
            return self.callexpr(e, env, owner)
        if isinstance(e, ast.JoinedStr):
            out = []
            for v in e.values:
                if isinstance(v, ast.Constant):
                    out.append(str(v.value))
                else:
                    out.append(str(self.ev(v.value, env, owner)))
            return "".join(out)
        if isinstance(e, (ast.ListComp, ast.GeneratorExp, ast.SetComp)):
            out = []
            self._comp(e.generators, 0, env, owner,
                       lambda env2: out.append(self.ev(e.elt, env2, owner)))
            return set(out) if isinstance(e, ast.SetComp) else out
        if isinstance(e, ast.DictComp):
            out = {}

            def put(env2):
                out[self.ev(e.key, env2, owner)] = self.ev(e.value, env2,
                                                           owner)
            self._comp(e.generators, 0, env, owner, put)
            return out
        raise AnalysisError("registration code: unsupported expression %s "
                            "in %s" % (type(e).__name__, owner.qname))

    def _comp(self, gens, i, env, owner, emit):
        if i == len(gens):
            emit(env)
            return
        g = gens[i]
        for item in self.ev(g.iter, env, owner):
            env2 = dict(env)
            self.assign(g.target, item, env2, owner)
            if all(self.truth(self.ev(c, env2, owner)) for c in g.ifs):
                self._comp(gens, i + 1, env2, owner, emit)

    def getattr(self, base, name):
        if isinstance(base, ClsObj):
            return self.getattr_cls(base, name)
        if isinstance(base, tuple) and base and base[0] == "module":
            full = base[1] + "." + name
            if full in self.world.repo.modules:
                return ("module", full)
            b = self.world.lookup(base[1], name)
            if b is not None and b.kind == "class":
                return self.obj(b.value)
            if b is not None and b.kind == "expr":
                v = self.folder.eval(b.value, {}, b.mod)
                if v is not UNKNOWN:
                    return self.wrap(v)
            raise AnalysisError("registration: unknown module attr %s"
                                % full)
        if isinstance(base, EnumMember):
            if name == "value":
                return base.value
            if name == "name":
                return base.name
        if isinstance(base, Record):
            if (base.kind, name) in self.record_methods:
                return ("pyfunc", self.record_methods[(base.kind, name)],
                        base)
            if hasattr(base, name):
                return getattr(base, name)
            raise AnalysisError("registration: record %s has no %s"
                                % (base.kind, name))
        if isinstance(base, (str, int, list, dict, set, tuple, bytes)):
            return ("pymethod", base, name)
        raise AnalysisError("registration: attribute %s of %r" % (name,
                                                                   base))

    def binop(self, op, l, r):
        import operator
        table = {ast.Add: operator.add, ast.Sub: operator.sub,
                 ast.Mult: operator.mul, ast.FloorDiv: operator.floordiv,
                 ast.Mod: operator.mod, ast.LShift: operator.lshift,
                 ast.RShift: operator.rshift, ast.BitAnd: operator.and_,
                 ast.BitOr: operator.or_, ast.BitXor: operator.xor,
                 ast.Pow: operator.pow}
        if isinstance(l, EnumMember):
            l = l.value
        if isinstance(r, EnumMember):
            r = r.value
        if isinstance(l, UnknownStatic) or isinstance(r, UnknownStatic):
            raise AnalysisError("registration: arithmetic on non-constant")
        f = table.get(type(op))
        if f is None:
            raise AnalysisError("registration: operator %s"
                                % type(op).__name__)
        return f(l, r)

    def cmp(self, op, l, r):
        if isinstance(op, ast.Eq):
            return l == r
        if isinstance(op, ast.NotEq):
            return l != r
        if isinstance(op, ast.Is):
            return l is r or (l == r and isinstance(l, (
                bool, type(None), int, str)))
        if isinstance(op, ast.IsNot):
            return not (l is r or (l == r and isinstance(l, (
                bool, type(None), int, str))))
        if isinstance(op, ast.In):
            return l in r
        if isinstance(op, ast.NotIn):
            return l not in r
        if isinstance(l, EnumMember):
            l = l.value
        if isinstance(r, EnumMember):
            r = r.value
        if isinstance(op, ast.Lt):
            return l < r
        if isinstance(op, ast.LtE):
            return l <= r
        if isinstance(op, ast.Gt):
            return l > r
        if isinstance(op, ast.GtE):
            return l >= r
        raise AnalysisError("registration: comparison %s"
                            % type(op).__name__)

    def callexpr(self, e, env, owner):
        f = e.func
        args = [self.ev(a, env, owner) for a in e.args]
        kwargs = {k.arg: self.ev(k.value, env, owner) for k in e.keywords}
        if isinstance(f, ast.Name) and f.id not in env:
            n = f.id
            if n == "hasattr":
                o, name = args
                if isinstance(o, ClsObj):
                    return self._hasattr(o, name)
                if isinstance(o, Record):
                    return hasattr(o, name)
                return False
            if n == "getattr":
                o, name = args[0], args[1]
                if isinstance(o, ClsObj):
                    if len(args) > 2:
                        return self.getattr_cls(o, name, default=args[2])
                    return self.getattr_cls(o, name)
            if n == "setattr" and len(args) == 3:
                o, name, val = args
                if isinstance(o, ClsObj) and isinstance(name, str):
                    o.ns[name] = val
                    return None
                raise AnalysisError("registration: setattr on %r" % (o,))
            if n == "issubclass":
                a, b = args
                if isinstance(a, ClsObj) and isinstance(b, ClsObj):
                    return b.info in a.info.mro
                return False
            if n == "isinstance":
                a, b = args
                return self._isinstance(a, b)
            if n == "super":
                return ("super", owner, env.get("cls") or env.get("self"))
            if n in _BUILTINS and self.world.lookup(owner.mod, n) is None:
                a2 = [x.value if isinstance(x, EnumMember) else x
                      for x in args]
                try:
                    return _BUILTINS[n](*a2, **kwargs)
                except (TypeError, ValueError) as ex:
                    raise RaisedInReg("%s: %s" % (type(ex).__name__, ex))
        fv = self.ev(f, env, owner)
        if isinstance(fv, tuple) and fv:
            if fv[0] == "boundfn":
                return self.call_bound(fv, args, kwargs)
            if fv[0] == "pymethod":
                _, base, name = fv
                if name in ("append", "add", "setdefault", "get", "replace",
                            "extend", "update", "keys", "values", "items",
                            "startswith", "endswith", "join", "format",
                            "to_bytes", "bit_length", "index", "count",
                            "upper", "lower", "pop", "insert", "copy",
                            "union", "split", "strip", "translate"):
                    try:
                        return getattr(base, name)(*args, **kwargs)
                    except (TypeError, ValueError, KeyError) as ex:
                        raise RaisedInReg("%s: %s" % (type(ex).__name__, ex))
                raise AnalysisError("registration: method %s" % name)
            if fv[0] == "modfn":
                _, m, fn = fv
                oc = _ModOwner(m)
                return self.call(oc, fn, args, kwargs)
            if fv[0] == "builtin":
                return _BUILTINS[fv[1]](*args, **kwargs)
            if fv[0] == "pyfunc":
                return fv[1](fv[2], *args, **kwargs)
        if isinstance(fv, ClsObj):
            return self.instantiate(fv, args, kwargs, owner)
        raise AnalysisError("registration code: cannot call %s in %s"
                            % (unparse(f), owner.qname))

    def _hasattr(self, o, name):
        for k in o.info.mro:
            if not isinstance(k, ClassInfo):
                continue
            ko = self.objs.get(k)
            if ko is not None and name in ko.ns:
                return True
            if name in k.attrs or name in k.methods or name in k.nested:
                return True
        return False

    def _isinstance(self, a, b):
        bs = b if isinstance(b, tuple) and not (b and b[0] in (
            "builtin",)) else (b,)
        for t in bs:
            if isinstance(t, tuple) and t and t[0] == "builtin":
                ty = {"int": int, "str": str, "tuple": tuple, "list": list,
                      "dict": dict, "bool": bool, "bytes": bytes}.get(t[1])
                if ty is not None and isinstance(a, ty):
                    return True
            elif isinstance(t, ClsObj):
                if isinstance(a, Record) and getattr(a, "cls", None):
                    if t.info in a.cls.mro:
                        return True
                if isinstance(a, EnumMember) and t.info in a.cls.mro:
                    return True
        return False

    def instantiate(self, clsobj, args, kwargs, owner):
        """Instantiation of a repository class inside registration code:
        enums by value, otherwise a modelled Record if a model is registered."""
        info = clsobj.info
        if self.folder.is_enum(info) and len(args) == 1:
            mem = self.folder.enum_members(info)
            for n, v in mem.items():
                if v == args[0]:
                    return EnumMember(info, n, v)
            raise RaisedInReg("ValueError: %r is not a valid %s"
                              % (args[0], info.name))
        for k in info.mro:
            if isinstance(k, ClassInfo) and k.qname in self.record_models:
                return self.record_models[k.qname](self, info, args, kwargs)
        raise AnalysisError("registration code instantiates %s (no model)"
                            % info.qname)


class _ModOwner:
    """Pseudo-owner for module-level functions."""

    def __init__(self, mod):
        self.mod = mod
        self.qname = mod


class UnknownStatic:
    def __init__(self, cls, name):
        self.cls, self.name = cls, name

    def __repr__(self):
        return "<unknown static %s.%s>" % (self.cls.qname, self.name)


_BUILTINS = {
    "range": range, "len": len, "int": int, "str": str, "list": list,
    "dict": dict, "set": set, "tuple": tuple, "min": min, "max": max,
    "sorted": sorted, "bool": bool, "bytes": bytes, "sum": sum,
    "enumerate": enumerate, "zip": zip, "pow": pow, "abs": abs,
    "any": any, "all": all, "reversed": reversed, "frozenset": frozenset,
}
