"""Statement-level control-flow graph for Python functions (sync, async,
generators) with short-circuit condition splitting, exceptional edges and
inlined `finally` bodies, plus generic forward dataflow helpers.

Node kinds:
  entry, exit (normal return / fall off the end), raise_exit (exception leaves
  the function), stmt (simple statement), test (atomic branch condition),
  for (loop header: iterator advance), with_enter / with_exit, except
  (handler entry; .ast is the ExceptHandler), dispatch (exception dispatch of
  a try statement), join.

Edge labels: 'next', 'T', 'F', 'exc' (exception raised by the source node),
'loop' (for: next item), 'done' (for: exhausted), 'back'.
"""
import ast
import copy

from .core import AnalysisError
from .inline import InlineBlock, acopy


class Node:
    __slots__ = ("id", "kind", "ast", "succ", "pred", "info", "lineno")

    def __init__(self, id, kind, astnode=None, info=None):
        self.id = id
        self.kind = kind
        self.ast = astnode
        self.succ = []   # [(label, Node)]
        self.pred = []   # [(label, Node)]
        self.info = info or {}
        self.lineno = getattr(astnode, "lineno", None)

    def __repr__(self):
        s = ""
        if self.ast is not None:
            try:
                s = " ".join(ast.unparse(self.ast).split())[:60]
            except Exception:
                s = type(self.ast).__name__
        return "<%d %s %s>" % (self.id, self.kind, s)


def _contains(node, types):
    for n in ast.walk(node):
        if isinstance(n, types):
            return True
    return False


def default_may_raise(node):
    """Suspension points (cancellation / throw can surface there) and calls."""
    if node.kind in ("stmt", "test", "for", "with_enter"):
        a = node.ast
        if a is None:
            return False
        if isinstance(a, ast.Raise):
            return True
        for n in _walk_no_nested(a):
            if isinstance(n, (ast.Await, ast.Yield, ast.YieldFrom, ast.Call)):
                return True
            if isinstance(n, ast.Subscript):
                return True
    return False


def suspension_may_raise(node):
    """Only explicit raise and suspension points (await / yield / yield from,
    async for/with) - for rules about cancellation and generator close."""
    a = node.ast
    if a is None:
        return False
    if node.kind not in ("stmt", "test", "for", "with_enter"):
        return False
    if isinstance(a, ast.Raise):
        return True
    if node.kind == "for" and node.info.get("async"):
        return True
    if node.kind == "with_enter" and node.info.get("async"):
        return True
    for n in _walk_no_nested(a):
        if isinstance(n, (ast.Await, ast.Yield, ast.YieldFrom)):
            return True
    return False


def explicit_raise_only(node):
    return node.kind == "stmt" and isinstance(node.ast, ast.Raise)


def _walk_no_nested(a):
    stack = [a]
    while stack:
        n = stack.pop()
        yield n
        for ch in ast.iter_child_nodes(n):
            if isinstance(ch, (ast.FunctionDef, ast.AsyncFunctionDef,
                               ast.ClassDef, ast.Lambda)):
                continue
            stack.append(ch)


class _Ctx:
    """Where control goes for each kind of abrupt completion."""
    __slots__ = ("exc", "ret", "brk", "cont", "rett")

    def __init__(self, exc, ret, brk=None, cont=None, rett=None):
        self.exc, self.ret, self.brk, self.cont = exc, ret, brk, cont
        self.rett = rett     # inside an inlined call: (target,) of `return`

    def replace(self, **kw):
        c = _Ctx(self.exc, self.ret, self.brk, self.cont, self.rett)
        for k, v in kw.items():
            setattr(c, k, v)
        return c


class CFG:
    def __init__(self, fn, may_raise=default_may_raise, name=None,
                 split_conditions=True):
        self.fn = fn
        self.name = name or getattr(fn, "name", "?")
        self.nodes = []
        self.may_raise = may_raise
        self.split = split_conditions
        self.entry = self._new("entry")
        self.exit = self._new("exit")
        self.raise_exit = self._new("raise_exit")
        ctx = _Ctx(exc=lambda: self.raise_exit, ret=lambda: self.exit)
        ends = self._block(fn.body, [(self.entry, "next")], ctx)
        self._connect(ends, self.exit)
        self._prune()

    # -- construction helpers ---------------------------------------------
    def _new(self, kind, astnode=None, info=None):
        n = Node(len(self.nodes), kind, astnode, info)
        self.nodes.append(n)
        return n

    def _edge(self, a, label, b):
        if (label, b) not in a.succ:
            a.succ.append((label, b))
            b.pred.append((label, a))

    def _connect(self, ends, node):
        for (a, label) in ends:
            self._edge(a, label, node)

    def _raise_edge(self, node, ctx):
        if self.may_raise(node):
            self._edge(node, "exc", ctx.exc())

    # -- conditions ------------------------------------------------------------
    def _cond(self, expr, ins, ctx, owner):
        """Build test nodes for expr; return (true_ends, false_ends)."""
        if self.split and isinstance(expr, ast.BoolOp):
            if isinstance(expr.op, ast.And):
                cur = ins
                false_ends = []
                for v in expr.values:
                    t, f = self._cond(v, cur, ctx, owner)
                    false_ends += f
                    cur = t
                return cur, false_ends
            else:
                cur = ins
                true_ends = []
                for v in expr.values:
                    t, f = self._cond(v, cur, ctx, owner)
                    true_ends += t
                    cur = f
                return true_ends, cur
        if self.split and isinstance(expr, ast.UnaryOp) and isinstance(
                expr.op, ast.Not):
            t, f = self._cond(expr.operand, ins, ctx, owner)
            return f, t
        n = self._new("test", expr, {"owner": owner})
        n.lineno = getattr(expr, "lineno", None)
        self._connect(ins, n)
        self._raise_edge(n, ctx)
        if isinstance(expr, ast.Constant):
            if expr.value:
                return [(n, "T")], []
            return [], [(n, "F")]
        return [(n, "T")], [(n, "F")]

    # -- statements --------------------------------------------------------------
    def _block(self, stmts, ins, ctx):
        cur = ins
        for s in stmts:
            if not cur:
                break   # unreachable code
            cur = self._stmt(s, cur, ctx)
        return cur

    def _simple(self, s, ins, ctx):
        n = self._new("stmt", s)
        self._connect(ins, n)
        self._raise_edge(n, ctx)
        return n

    def _stmt(self, s, ins, ctx):
        if isinstance(s, ast.If):
            t, f = self._cond(s.test, ins, ctx, s)
            tend = self._block(s.body, t, ctx)
            fend = self._block(s.orelse, f, ctx) if s.orelse else f
            return tend + fend
        if isinstance(s, ast.While):
            head = self._new("join", None, {"loop": s})
            head.lineno = s.lineno
            self._connect(ins, head)
            t, f = self._cond(s.test, [(head, "next")], ctx, s)
            after = self._new("join", None, {"after": s})
            lctx = ctx.replace(brk=lambda: after, cont=lambda: head)
            bend = self._block(s.body, t, lctx)
            for (a, label) in bend:
                self._edge(a, label if label != "next" else "back", head)
            oend = self._block(s.orelse, f, ctx) if s.orelse else f
            self._connect(oend, after)
            return [(after, "next")] if after.pred else []
        if isinstance(s, (ast.For, ast.AsyncFor)):
            it = self._new("stmt", ast.Expr(value=s.iter), {"iter_of": s})
            it.lineno = s.lineno
            self._connect(ins, it)
            self._raise_edge(it, ctx)
            head = self._new("for", s, {"async": isinstance(s, ast.AsyncFor)})
            self._edge(it, "next", head)
            if head.info["async"]:
                self._raise_edge(head, ctx)
            after = self._new("join", None, {"after": s})
            lctx = ctx.replace(brk=lambda: after, cont=lambda: head)
            bend = self._block(s.body, [(head, "loop")], lctx)
            for (a, label) in bend:
                self._edge(a, label if label != "next" else "back", head)
            oend = (self._block(s.orelse, [(head, "done")], ctx)
                    if s.orelse else [(head, "done")])
            self._connect(oend, after)
            return [(after, "next")] if after.pred else []
        if isinstance(s, InlineBlock):
            after = self._new("join", None, {"inline_end": s})
            ictx = ctx.replace(ret=lambda: after, brk=None, cont=None,
                               rett=(s.target,))
            bend = self._block(s.body, ins, ictx)
            if bend and s.target is not None:
                # falling off the end of the callee returns None
                a = ast.copy_location(ast.Assign(
                    [acopy(s.target)], ast.Constant(None)), s)
                ast.fix_missing_locations(a)
                n = self._new("stmt", a, {"inline_return": s})
                self._connect(bend, n)
                bend = [(n, "next")]
            self._connect(bend, after)
            return [(after, "next")] if after.pred else []
        if isinstance(s, ast.Return):
            if ctx.rett is not None:
                tgt = ctx.rett[0]
                if tgt is not None:
                    a = ast.copy_location(ast.Assign(
                        [acopy(tgt)],
                        s.value if s.value is not None
                        else ast.Constant(None)), s)
                else:
                    a = ast.copy_location(ast.Expr(
                        s.value if s.value is not None
                        else ast.Constant(None)), s)
                ast.fix_missing_locations(a)
                n = self._new("stmt", a, {"inline_return": True})
                self._connect(ins, n)
                self._raise_edge(n, ctx)
                self._edge(n, "next", ctx.ret())
                return []
            n = self._simple(s, ins, ctx)
            self._edge(n, "next", ctx.ret())
            return []
        if isinstance(s, ast.Raise):
            n = self._new("stmt", s)
            self._connect(ins, n)
            self._edge(n, "exc", ctx.exc())
            return []
        if isinstance(s, ast.Break):
            n = self._simple(s, ins, ctx)
            if ctx.brk is None:
                raise AnalysisError("break outside loop")
            self._edge(n, "next", ctx.brk())
            return []
        if isinstance(s, ast.Continue):
            n = self._simple(s, ins, ctx)
            self._edge(n, "back", ctx.cont())
            return []
        if isinstance(s, (ast.With, ast.AsyncWith)):
            return self._with(s, ins, ctx)
        if isinstance(s, ast.Try):
            return self._try(s, ins, ctx)
        if isinstance(s, (ast.FunctionDef, ast.AsyncFunctionDef,
                          ast.ClassDef)):
            n = self._new("stmt", s, {"def": True})
            self._connect(ins, n)
            return [(n, "next")]
        if isinstance(s, ast.Assert):
            n = self._new("stmt", s)
            self._connect(ins, n)
            self._edge(n, "exc", ctx.exc())
            return [(n, "next")]
        if isinstance(s, (ast.Expr, ast.Assign, ast.AugAssign, ast.AnnAssign,
                          ast.Pass, ast.Delete, ast.Global, ast.Nonlocal,
                          ast.Import, ast.ImportFrom)):
            n = self._simple(s, ins, ctx)
            return [(n, "next")]
        raise AnalysisError("CFG: unsupported statement %s at line %s in %s"
                            % (type(s).__name__, getattr(s, "lineno", "?"),
                               self.name))

    def _with(self, s, ins, ctx):
        is_async = isinstance(s, ast.AsyncWith)
        enter = self._new("with_enter", s, {"async": is_async})
        self._connect(ins, enter)
        self._raise_edge(enter, ctx)

        # every way out of the body passes a with_exit node
        def mk_exit(target_fn, how):
            cache = {}

            def get():
                if "n" not in cache:
                    x = self._new("with_exit", s, {"async": is_async,
                                                   "how": how})
                    cache["n"] = x
                    self._edge(x, "exc" if how == "exc" else "next",
                               target_fn())
                return cache["n"]
            return get
        bctx = _Ctx(exc=mk_exit(ctx.exc, "exc"),
                    ret=mk_exit(ctx.ret, "ret"),
                    brk=mk_exit(ctx.brk, "brk") if ctx.brk else None,
                    cont=mk_exit(ctx.cont, "cont") if ctx.cont else None,
                    rett=ctx.rett)
        bend = self._block(s.body, [(enter, "next")], bctx)
        if bend:
            x = self._new("with_exit", s, {"async": is_async, "how": "normal"})
            self._connect(bend, x)
            return [(x, "next")]
        return []

    def _try(self, s, ins, ctx):
        has_finally = bool(s.finalbody)

        # Continuations after the finally body, one copy per exit kind.
        def fin(target_fn, how):
            if not has_finally:
                return target_fn
            cache = {}

            def get():
                if "n" not in cache:
                    start = self._new("join", None, {"finally": s,
                                                     "how": how})
                    cache["n"] = start
                    fend = self._block(s.finalbody, [(start, "next")], ctx)
                    tgt = target_fn()
                    if fend:
                        # keep the T/F labels of the finally body's last
                        # tests: go through a join node
                        j = self._new("join", None, {"finally_end": s,
                                                     "how": how})
                        self._connect(fend, j)
                        self._edge(j, "exc" if how == "exc" else "next", tgt)
                return cache["n"]
            return get

        outer = _Ctx(exc=fin(ctx.exc, "exc"), ret=fin(ctx.ret, "ret"),
                     brk=fin(ctx.brk, "brk") if ctx.brk else None,
                     cont=fin(ctx.cont, "cont") if ctx.cont else None,
                     rett=ctx.rett)

        if s.handlers:
            dcache = {}

            def dispatch():
                if "n" not in dcache:
                    d = self._new("dispatch", s)
                    dcache["n"] = d
                    catch_all = False
                    for h in s.handlers:
                        hn = self._new("except", h)
                        self._edge(d, "next", hn)
                        hend = self._block(h.body, [(hn, "next")], outer)
                        dcache.setdefault("hends", []).extend(hend)
                        if h.type is None or (
                                isinstance(h.type, ast.Name) and h.type.id in
                                ("BaseException",)):
                            catch_all = True
                    if not catch_all:
                        self._edge(d, "exc", outer.exc())
                return dcache["n"]
            body_ctx = outer.replace(exc=dispatch)
        else:
            dcache = {}
            body_ctx = outer
        bend = self._block(s.body, ins, body_ctx)
        if s.orelse:
            bend = self._block(s.orelse, bend, outer)
        ends = list(bend)
        if s.handlers and "n" in dcache:
            ends += dcache.get("hends", [])
        if has_finally:
            if ends:
                start = self._new("join", None, {"finally": s,
                                                 "how": "normal"})
                self._connect(ends, start)
                return self._block(s.finalbody, [(start, "next")], ctx)
            return []
        return ends

    def _prune(self):
        """Drop nodes unreachable from entry."""
        seen = set()
        stack = [self.entry]
        while stack:
            n = stack.pop()
            if n.id in seen:
                continue
            seen.add(n.id)
            for (_, m) in n.succ:
                stack.append(m)
        for n in self.nodes:
            if n.id not in seen:
                for (l, m) in n.succ:
                    m.pred = [(pl, p) for (pl, p) in m.pred if p is not n]
                n.succ = []
        self.reachable = [n for n in self.nodes if n.id in seen]

    # -- queries ------------------------------------------------------------------
    def stmts(self):
        return [n for n in self.reachable if n.ast is not None]

    def dump(self):
        out = []
        for n in self.reachable:
            out.append("%r -> %s" % (n, ", ".join(
                "%s:%d" % (l, m.id) for (l, m) in n.succ)))
        return "\n".join(out)


# ---------------------------------------------------------------------------
# generic forward dataflow over frozenset facts

def forward(cfg, transfer, init=frozenset(), must=True, edge_transfer=None,
            max_iter=100000):
    """Forward dataflow.  State = frozenset of facts.
    must=True  -> meet is intersection (facts true on ALL paths);
    must=False -> meet is union (facts true on SOME path).
    transfer(node, in_state) -> out_state
    edge_transfer(src, label, dst, state) -> state (optional)
    Returns {node.id: in_state}.  Unreached nodes are absent."""
    IN = {cfg.entry.id: init}
    work = [cfg.entry]
    it = 0
    while work:
        it += 1
        if it > max_iter:
            raise AnalysisError("dataflow did not converge in %s" % cfg.name)
        n = work.pop()
        out = transfer(n, IN[n.id])
        for (label, m) in n.succ:
            o = out
            if edge_transfer is not None:
                o = edge_transfer(n, label, m, out)
                if o is None:
                    continue   # infeasible edge
            if m.id not in IN:
                IN[m.id] = o
                work.append(m)
            else:
                new = (IN[m.id] & o) if must else (IN[m.id] | o)
                if new != IN[m.id]:
                    IN[m.id] = new
                    work.append(m)
    return IN


def reachable_from(node, avoid=lambda n: False, labels=None):
    """Nodes reachable from node (exclusive) without passing a node for
    which avoid(n) holds (avoid nodes themselves are not entered)."""
    seen = set()
    out = []
    stack = [m for (l, m) in node.succ if labels is None or l in labels]
    while stack:
        n = stack.pop()
        if n.id in seen or avoid(n):
            continue
        seen.add(n.id)
        out.append(n)
        for (l, m) in n.succ:
            if labels is None or l in labels:
                stack.append(m)
    return out


def find_path(cfg, src, dst_pred, avoid=lambda n: False):
    """A shortest path (list of nodes) from src to a node satisfying dst_pred,
    never entering nodes where avoid holds; None if there is none."""
    from collections import deque
    prev = {src.id: None}
    q = deque([src])
    while q:
        n = q.popleft()
        for (l, m) in n.succ:
            if m.id in prev or avoid(m):
                continue
            prev[m.id] = n
            if dst_pred(m):
                path = [m]
                while path[-1] is not None and prev[path[-1].id] is not None:
                    path.append(prev[path[-1].id])
                return list(reversed(path))
            q.append(m)
    return None


def dominators(cfg):
    """node.id -> set of node ids dominating it."""
    ids = [n.id for n in cfg.reachable]
    allset = set(ids)
    dom = {i: set(allset) for i in ids}
    dom[cfg.entry.id] = {cfg.entry.id}
    changed = True
    byid = {n.id: n for n in cfg.reachable}
    while changed:
        changed = False
        for i in ids:
            if i == cfg.entry.id:
                continue
            preds = [p.id for (_, p) in byid[i].pred if p.id in dom]
            if not preds:
                continue
            new = set.intersection(*(dom[p] for p in preds)) | {i}
            if new != dom[i]:
                dom[i] = new
                changed = True
    return dom


def path_str(path, limit=8):
    items = []
    for n in path:
        if n.ast is not None and n.kind in ("stmt", "test", "for",
                                            "with_enter", "except"):
            try:
                s = " ".join(ast.unparse(n.ast).split())
            except Exception:
                s = n.kind
            items.append("L%s:%s" % (n.lineno, s[:50]))
        elif n.kind in ("exit", "raise_exit"):
            items.append(n.kind)
    if len(items) > limit:
        items = items[:limit // 2] + ["..."] + items[-limit // 2:]
    return " -> ".join(items)


# ---------------------------------------------------------------------------
# disjunctive ("worlds") forward analysis: path-sensitive over a finite fact
# universe.  State at a node = set of worlds; a world = frozenset of facts.

class Worlds:
    def __init__(self, cfg, IN, origin):
        self.cfg, self.IN, self.origin = cfg, IN, origin

    def at(self, node):
        return self.IN.get(node.id, frozenset())

    def reached(self, node):
        return node.id in self.IN and bool(self.IN[node.id])

    def must(self, node, fact):
        ws = self.at(node)
        return bool(ws) and all(fact in w for w in ws)

    def may(self, node, fact):
        return any(fact in w for w in self.at(node))

    def worlds_with(self, node, pred):
        return [w for w in self.at(node) if pred(w)]

    def trace(self, node, world, limit=80):
        """One analysed path (list of nodes) ending at (node, world)."""
        path = [node]
        key = (node.id, world)
        seen = set()
        while key in self.origin and key not in seen and len(path) < limit:
            seen.add(key)
            pn, pw = self.origin[key]
            path.append(pn)
            key = (pn.id, pw)
        return list(reversed(path))


def forward_worlds(cfg, transfer, edge_transfer=None, init=frozenset(),
                   max_worlds=4096):
    IN = {cfg.entry.id: frozenset([init])}
    origin = {}
    work = [(cfg.entry, init)]
    steps = 0
    while work:
        steps += 1
        if steps > 2000000:
            raise AnalysisError("worlds analysis did not converge in %s"
                                % cfg.name)
        n, w = work.pop()
        out = transfer(n, w)
        for (label, m) in n.succ:
            o = out
            if edge_transfer is not None:
                o = edge_transfer(n, label, m, out)
                if o is None:
                    continue
            cur = IN.get(m.id, frozenset())
            if o in cur:
                continue
            if len(cur) >= max_worlds:
                raise AnalysisError("too many worlds at L%s in %s"
                                    % (m.lineno, cfg.name))
            IN[m.id] = cur | {o}
            origin[(m.id, o)] = (n, w)
            work.append((m, o))
    return Worlds(cfg, IN, origin)


# ---------------------------------------------------------------------------
def _stored_names(node):
    """Names (re)bound by a CFG node."""
    a = node.ast
    out = set()
    if a is None:
        return out
    if node.kind == "for":
        tgt = [a.target]
    elif node.kind == "with_enter":
        tgt = [it.optional_vars for it in a.items
               if it.optional_vars is not None]
    elif node.kind == "except":
        return {a.name} if a.name else set()
    elif node.kind == "stmt":
        tgt = [a]
    else:
        return out
    for t in tgt:
        for n in _walk_no_nested(t):
            if isinstance(n, ast.Name) and isinstance(n.ctx, (ast.Store,
                                                              ast.Del)):
                out.add(n.id)
    return out


def reaching_defs(cfg, params=()):
    """May reaching definitions: {node.id: frozenset((name, def node id))};
    parameters are defined at the entry node."""
    init = frozenset((p, cfg.entry.id) for p in params)

    def transfer(node, st):
        names = _stored_names(node)
        if not names:
            return st
        return frozenset(f for f in st if f[0] not in names) | frozenset(
            (n, node.id) for n in names)
    return forward(cfg, transfer, init=init, must=False)


def defs_reaching(rd, node, name):
    """ids of the definition nodes of `name` reaching the entry of node."""
    return {d for (n, d) in rd.get(node.id, ()) if n == name}
