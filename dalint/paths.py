"""Path summaries of small loop-free functions.

Every path through the function body is enumerated; local assignments are
substituted forward (so the summary is in terms of the parameters and of
`self`/`cls` attributes), branch tests are split at and/or/not, and each path
ends in a return expression, a raised exception or the end of the body.
Rules then compare the *set of paths* with what the property demands, e.g.
"raises ValueError exactly when L > N" via pred.py - independent of how the
ifs are nested, which way round a test is written or what the locals are
called.  Nothing is executed."""
import ast
import copy

from .core import AnalysisError, unparse
from .inline import InlineBlock, acopy


class Unsupported(AnalysisError):
    pass


class Path:
    __slots__ = ("conds", "kind", "expr", "env", "effects")

    def __init__(self, conds, kind, expr, env, effects):
        self.conds = conds        # [(ast expr, bool)]
        self.kind = kind          # 'return' | 'raise' | 'fall'
        self.expr = expr          # ast expr or None
        self.env = env
        self.effects = effects    # [(target text, value ast)] attribute stores

    def __repr__(self):
        return "<%s %s if %s>" % (
            self.kind, unparse(self.expr) if self.expr is not None else "",
            " and ".join(("" if b else "not ") + unparse(t)
                         for t, b in self.conds))


class _Sub(ast.NodeTransformer):
    def __init__(self, env):
        self.env = env

    def visit_Name(self, n):
        if isinstance(n.ctx, ast.Load) and n.id in self.env:
            return acopy(self.env[n.id])
        return n

    def visit_Attribute(self, n):
        if isinstance(n.ctx, ast.Load) and isinstance(n.value, ast.Name) \
                and n.value.id in ("self", "cls"):
            k = "%s.%s" % (n.value.id, n.attr)
            if k in self.env:
                return acopy(self.env[k])
        return self.generic_visit(n)

    def visit_Call(self, n):
        self.generic_visit(n)
        # max((a, b)) is max(a, b)
        if isinstance(n.func, ast.Name) and n.func.id in ("max", "min") \
                and len(n.args) == 1 and not n.keywords and isinstance(
                    n.args[0], (ast.Tuple, ast.List)) and len(
                        n.args[0].elts) >= 2 and not any(
                            isinstance(x, ast.Starred)
                            for x in n.args[0].elts):
            return ast.copy_location(ast.Call(n.func, list(n.args[0].elts),
                                              []), n)
        return n

    def visit_Subscript(self, n):
        self.generic_visit(n)
        # (a, b)[0] is a
        if isinstance(n.ctx, ast.Load) and isinstance(
                n.value, ast.Tuple) and isinstance(
                    n.slice, ast.Constant) and type(n.slice.value) is int \
                and 0 <= n.slice.value < len(n.value.elts) and not any(
                    isinstance(x, ast.Starred) for x in n.value.elts):
            return n.value.elts[n.slice.value]
        return n

    def visit_Lambda(self, n):
        return n

    def _comp(self, n):
        own = set()
        for g in n.generators:
            for t in ast.walk(g.target):
                if isinstance(t, ast.Name):
                    own.add(t.id)
        saved = self.env
        self.env = {k: v for k, v in self.env.items() if k not in own}
        try:
            self.generic_visit(n)
        finally:
            self.env = saved
        return n

    visit_ListComp = visit_SetComp = visit_DictComp = visit_GeneratorExp = \
        _comp


def subst(e, env):
    if e is None:
        return None
    return _Sub(env).visit(acopy(e))


def _split(test, env):
    """[(conds, truth)] for a test: short-circuit aware."""
    if isinstance(test, ast.BoolOp):
        first, rest = test.values[0], test.values[1:]
        out = []
        rest_test = rest[0] if len(rest) == 1 else ast.BoolOp(test.op, rest)
        for (c, b) in _split(first, env):
            if isinstance(test.op, ast.And):
                if not b:
                    out.append((c, False))
                else:
                    for (c2, b2) in _split(rest_test, env):
                        out.append((c + c2, b2))
            else:
                if b:
                    out.append((c, True))
                else:
                    for (c2, b2) in _split(rest_test, env):
                        out.append((c + c2, b2))
        return out
    if isinstance(test, ast.UnaryOp) and isinstance(test.op, ast.Not):
        return [(c, not b) for (c, b) in _split(test.operand, env)]
    if isinstance(test, ast.Constant):
        return [([], bool(test.value))]
    t = subst(test, env)
    return [([(t, True)], True), ([(t, False)], False)]


_LOOP_PURE = {"len", "int", "bool", "abs", "min", "max", "range", "ord",
              "enumerate", "zip", "xor", "reversed", "bytes", "tuple"}


def _loop_locals(s):
    out = set()
    tg = [s.target] if isinstance(s, ast.For) else []
    for n in tg + list(s.body):
        for x in ast.walk(n):
            if isinstance(x, ast.Name) and isinstance(x.ctx, ast.Store):
                out.add(x.id)
    return out


def _accumulator_loop(s):
    """Only assignments to plain local names, computed from expressions
    without effects; no way out of the loop but its end."""
    for st in s.body:
        for x in ast.walk(st):
            if isinstance(x, (ast.Return, ast.Raise, ast.Break, ast.Yield,
                              ast.YieldFrom, ast.Await, ast.Try, ast.With,
                              ast.Global, ast.Nonlocal, ast.Delete,
                              ast.NamedExpr, ast.FunctionDef, ast.Lambda)):
                return False
            if isinstance(x, (ast.Assign, ast.AugAssign, ast.AnnAssign)):
                tg = x.targets if isinstance(x, ast.Assign) else [x.target]
                if not all(isinstance(t, ast.Name) for t in tg):
                    return False
            if isinstance(x, ast.Expr) and not isinstance(
                    x.value, ast.Constant):
                return False
            if isinstance(x, ast.Call) and not (isinstance(
                    x.func, ast.Name) and x.func.id in _LOOP_PURE):
                return False
    hdr = s.iter if isinstance(s, ast.For) else s.test
    for x in ast.walk(hdr):
        if isinstance(x, ast.Call) and not (isinstance(
                x.func, ast.Name) and x.func.id in _LOOP_PURE):
            return False
        if isinstance(x, (ast.Yield, ast.YieldFrom, ast.Await,
                          ast.NamedExpr)):
            return False
    if isinstance(s, ast.For) and not isinstance(s.target, (ast.Name,
                                                            ast.Tuple)):
        return False
    return True


def summaries(fn, max_paths=2048, params_env=None, try_prefixes=False):
    out = []

    def run(stmts, conds, env, effects, k, retk=None):
        """k: continuation called with (conds, env, effects) when the block
        completes normally; retk: what `return` does (inside an inlined
        call it binds the call's target and continues after the block)."""
        if not stmts:
            k(conds, env, effects)
            return
        s, rest = stmts[0], stmts[1:]
        if isinstance(s, InlineBlock):
            def bind(c, e, f, v):
                e2 = dict(e)
                if isinstance(s.target, ast.Name):
                    e2[s.target.id] = v if v is not None else \
                        ast.Constant(None)
                elif isinstance(s.target, ast.Tuple) and isinstance(
                        v, ast.Tuple) and len(v.elts) == len(s.target.elts):
                    for x, y in zip(s.target.elts, v.elts):
                        if isinstance(x, ast.Name):
                            e2[x.id] = y
                elif isinstance(s.target, (ast.Attribute, ast.Subscript)):
                    # `self.x = helper(...)`: the store of the returned value
                    a = ast.copy_location(ast.Assign(
                        [s.target], v if v is not None
                        else ast.Constant(None)), s)
                    ast.fix_missing_locations(a)
                    run([a] + list(rest), c, e2, f, k, retk)
                    return
                run(rest, c, e2, f, k, retk)
            run(list(s.body), conds, env, effects,
                lambda c, e, f: bind(c, e, f, None), bind)
            return
        if len(out) > max_paths:
            raise Unsupported("too many paths in %s" % fn.name)
        if isinstance(s, ast.Expr):
            if isinstance(s.value, ast.Constant):
                return run(rest, conds, env, effects, k)
            if isinstance(s.value, ast.Yield):
                return run(rest, conds, env, effects + [
                    ("yield", subst(s.value.value, env), list(conds))], k,
                    retk)
            return run(rest, conds, env, effects + [
                ("expr", subst(s.value, env))], k, retk)
        if isinstance(s, ast.Pass):
            return run(rest, conds, env, effects, k, retk)
        if isinstance(s, (ast.Assign, ast.AnnAssign, ast.Return)) and \
                isinstance(getattr(s, "value", None), ast.IfExp):
            # x = a if t else b  ==  if t: x = a  else: x = b
            e = s.value
            alts = []
            for br in (e.body, e.orelse):
                c2 = acopy(s)
                c2.value = br
                alts.append(c2)
            iff = ast.copy_location(ast.If(e.test, [alts[0]], [alts[1]]), s)
            ast.fix_missing_locations(iff)
            return run([iff] + list(rest), conds, env, effects, k, retk)
        if isinstance(s, (ast.Assign, ast.AnnAssign)):
            if isinstance(s, ast.AnnAssign):
                if s.value is None:
                    return run(rest, conds, env, effects, k, retk)
                targets = [s.target]
            else:
                targets = s.targets
            v = subst(s.value, env)
            env2 = dict(env)
            eff = list(effects)
            if isinstance(s.value, ast.Yield):
                # a command sent here, under the conditions so far; the
                # answer is a fresh unknown named after the target
                eff.append(("yield", subst(s.value.value, env), list(conds)))
                v = ast.Name("<answer@%s:%s>" % (
                    getattr(s, "lineno", "?"), getattr(s, "col_offset", "?")),
                    ast.Load())
            for t in targets:
                if isinstance(t, ast.Name):
                    env2[t.id] = v
                elif isinstance(t, ast.Tuple) and isinstance(
                        v, ast.Tuple) and len(t.elts) == len(v.elts) and all(
                            isinstance(x, ast.Name) for x in t.elts):
                    for x, y in zip(t.elts, v.elts):
                        env2[x.id] = y
                elif isinstance(t, ast.Tuple) and all(
                        isinstance(x, ast.Name) for x in t.elts):
                    for i, x in enumerate(t.elts):
                        env2[x.id] = ast.Subscript(
                            acopy(v), ast.Constant(i), ast.Load())
                else:
                    tt = unparse(subst(t, env) if not isinstance(
                        t, ast.Attribute) else t, 200)
                    eff.append((tt, v))
                    if isinstance(t, ast.Attribute) and isinstance(
                            t.value, ast.Name) and t.value.id in ("self",
                                                                  "cls"):
                        env2[tt] = v
            return run(rest, conds, env2, eff, k, retk)
        if isinstance(s, ast.AugAssign):
            if isinstance(s.target, ast.Name):
                cur = subst(ast.Name(s.target.id, ast.Load()), env)
            else:
                # the current value of the target: read it as a load, so
                # that an earlier store on this path is seen
                rd = acopy(s.target)
                rd.ctx = ast.Load()
                cur = subst(rd, env)
            v = ast.BinOp(cur, s.op, subst(s.value, env))
            if isinstance(s.target, ast.Name):
                env2 = dict(env)
                env2[s.target.id] = v
                return run(rest, conds, env2, effects, k, retk)
            tt = unparse(s.target, 200)
            env2 = dict(env)
            if isinstance(s.target, ast.Attribute) and isinstance(
                    s.target.value, ast.Name) and s.target.value.id in (
                        "self", "cls"):
                env2[tt] = v
            return run(rest, conds, env2, effects + [(tt, v)], k, retk)
        if isinstance(s, ast.Return):
            if retk is not None:
                retk(conds, env, effects, subst(s.value, env))
                return
            out.append(Path(conds, "return", subst(s.value, env), env,
                            effects))
            return
        if isinstance(s, ast.Raise):
            out.append(Path(conds, "raise", subst(s.exc, env), env, effects))
            return
        if isinstance(s, ast.If):
            for (c, b) in _split(s.test, env):
                # contradictory paths (same test both ways) are dropped
                seen = {(ast.dump(t), v) for t, v in conds}
                if any((ast.dump(t), not v) in seen for t, v in c):
                    continue
                body = s.body if b else s.orelse
                run(list(body) + list(rest), conds + c, env, effects, k,
                    retk)
            return
        if isinstance(s, ast.Assert):
            return run(rest, conds, env, effects, k, retk)
        if isinstance(s, ast.Try) and try_prefixes and not s.finalbody:
            # normal completion of the body (then orelse), or an exception
            # after any prefix of the body's statements, caught by each
            # handler in turn (which exception is raised where is not
            # decided: every prefix x every handler is a path)
            run(list(s.body) + list(s.orelse) + list(rest), conds, env,
                effects, k, retk)
            for i in range(len(s.body)):
                for h in s.handlers:
                    mark = ast.Name("<%s raised in try@%s>" % (
                        unparse(h.type) if h.type is not None else
                        "exception", getattr(s, "lineno", "?")), ast.Load())
                    run(list(s.body[:i]) + list(h.body) + list(rest),
                        conds + [(mark, True)], env, effects, k, retk)
            return
        if isinstance(s, ast.For) and not s.orelse and \
                _accumulator_loop(s):
            # a loop that only computes locals (a checksum, a count): no
            # effect, no exit; what it leaves in its locals is not followed
            e2 = dict(env)
            for nm in _loop_locals(s):
                e2[nm] = ast.Name("<%s after the loop at line %s>" % (
                    nm, getattr(s, "lineno", "?")), ast.Load())
            return run(rest, conds, e2, effects, k, retk)
        raise Unsupported("%s: statement %s at line %s is outside the "
                          "loop-free subset" % (fn.name, type(s).__name__,
                                                getattr(s, "lineno", "?")))

    def done(conds, env, effects):
        out.append(Path(conds, "fall", None, env, effects))
    body = list(fn.body)
    run(body, [], dict(params_env or {}), [], done)
    return out


def exc_name(e):
    if e is None:
        return None
    if isinstance(e, ast.Call):
        e = e.func
    return unparse(e)
