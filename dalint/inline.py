"""AST-level inlining of same-class / same-module helper calls, so that the
intra-procedural CFG rules see through "extract helper" refactorings.

    x = yield from helper(a, b)        (helper is a generator function)
    x = await self._helper(a)          (async def)
    x = self._helper(a) / helper(a)    (plain function, not a generator)

A call of one of these three forms that is a whole statement, the whole
right-hand side of an assignment, a returned value or the whole test of an
`if` is replaced by an InlineBlock: parameter bindings followed by a renamed
copy of the callee's body; `return e` inside the block becomes an assignment
to the call's target and a jump to the end of the block (cfg.CFG implements
that).  Callee locals are renamed apart.  Functions on the caller's
`primitives` list, recursive calls, callees with *args/**kwargs, nested
functions or global/nonlocal are left as calls."""
import ast
import copy

from .front import ClassInfo


def acopy(node):
    """Deep copy of an AST subtree without following the `_parent` link out
    of it (which would copy the whole module)."""
    memo = {}
    nodes = node if isinstance(node, list) else [node]
    for n in nodes:
        par = getattr(n, "_parent", None)
        if par is not None:
            memo[id(par)] = par
    out = copy.deepcopy(node, memo)
    for root in (out if isinstance(out, list) else [out]):
        if isinstance(root, ast.AST):
            for n in ast.walk(root):
                n.__dict__.pop("_parent", None)
    return out


class InlineBlock(ast.stmt):
    _fields = ("body",)
    _attributes = ("lineno", "col_offset", "end_lineno", "end_col_offset")


def _unparse_inline_block(self, node):
    # an inlined call prints as the statements it stands for
    self.traverse(node.body)


ast._Unparser.visit_InlineBlock = _unparse_inline_block


class Inliner:
    def __init__(self, world, modname, cls=None, primitives=(), max_depth=3,
                 max_stmts=80):
        self.world = world
        self.modname = modname
        self.cls = cls if isinstance(cls, ClassInfo) else None
        self.primitives = set(primitives)
        self.max_depth = max_depth
        self.max_stmts = max_stmts
        self.n = 0
        self.inlined = []        # names of callees inlined (evidence)
        self.flatten = True
        self._subs = None

    # -- resolution ------------------------------------------------------------
    def _resolve(self, call):
        f = call.func
        if isinstance(f, ast.Attribute) and isinstance(f.value, ast.Name) \
                and f.value.id in ("self", "cls") and self.cls is not None:
            r = self.cls.lookup(f.attr)
            if r is None:
                return None
            node = r[2] if len(r) > 2 else r[1]
            if isinstance(node, (ast.FunctionDef, ast.AsyncFunctionDef)):
                decos = [ast.unparse(d) for d in node.decorator_list]
                if "property" in decos:
                    return None
                if "staticmethod" not in decos and any(
                        f.attr in getattr(k, "methods", {})
                        for k in self._subclasses()):
                    return None     # overridden below: dispatch is dynamic
                if "staticmethod" in decos:
                    return ("func", f.attr, node)
                first = node.args.args[0].arg if node.args.args else None
                if "classmethod" in decos:
                    if first != "cls":
                        return None
                    if f.value.id != "cls":
                        # called through an instance: `cls` is the
                        # instance's class, written here as the receiver
                        return ("method:" + f.value.id, f.attr, node)
                elif first != "self" or f.value.id != "self":
                    return None
                return ("method", f.attr, node)
            return None
        if isinstance(f, ast.Name):
            q = "%s.%s" % (self.modname, f.id)
            node = self.world.funcs.get(q)
            if isinstance(node, tuple):
                node = node[1]
            if isinstance(node, (ast.FunctionDef, ast.AsyncFunctionDef)):
                return ("func", f.id, node)
        return None

    def _subclasses(self):
        if self._subs is None:
            try:
                self._subs = self.cls.subclasses()
            except Exception:
                self._subs = []
        return self._subs

    @staticmethod
    def _is_gen(fn):
        for n in _walk_fn(fn):
            if isinstance(n, (ast.Yield, ast.YieldFrom)):
                return True
        return False

    def _inlinable(self, fn):
        a = fn.args
        if a.vararg or a.kwarg or a.posonlyargs:
            return False
        cnt = 0
        for n in ast.walk(fn):
            if n is not fn and isinstance(n, (
                    ast.FunctionDef, ast.AsyncFunctionDef, ast.Lambda,
                    ast.Global, ast.Nonlocal, ast.ClassDef)):
                return False
            if isinstance(n, ast.stmt):
                cnt += 1
        return cnt <= self.max_stmts

    # -- expansion -------------------------------------------------------------
    def expand(self, fn, _stack=()):
        fn2 = acopy(fn)
        fn2.body = self._block(fn2.body, (fn.name,) + tuple(_stack), 0)
        ast.fix_missing_locations(fn2)
        return fn2

    def _block(self, stmts, stack, depth):
        out = []
        for s in stmts:
            for s2 in self._hoist_arg_call(s, stack):
                out += self._stmt(s2, stack, depth)
        return out

    def _hoist_arg_call(self, s, stack):
        """`acc.append(self.helper(a, b))`: the helper call that is an
        argument of the statement's call gets a statement of its own
        (`__arg_k = self.helper(a, b)`) when everything evaluated before it
        is free of effects, so that a helper of several statements can be
        written out in place."""
        if not isinstance(s, (ast.Expr, ast.Assign, ast.Return)) or \
                not isinstance(getattr(s, "value", None), ast.Call):
            return [s]
        outer = s.value

        def pure(e):
            return not any(isinstance(n, (ast.Call, ast.Await, ast.Yield,
                                          ast.YieldFrom, ast.NamedExpr))
                           for n in ast.walk(e))
        if not pure(outer.func) or outer.keywords:
            return [s]
        for i, a in enumerate(outer.args):
            if isinstance(a, ast.Call):
                r = self._resolve(a)
                if r is None:
                    return [s]
                how, name, fn = r
                if name in self.primitives or name in stack or \
                        not self._inlinable(fn) or self._is_gen(fn) or \
                        isinstance(fn, ast.AsyncFunctionDef):
                    return [s]
                if self._single_return(fn) is not None:
                    return [s]        # written out as an expression anyway
                if not all(pure(x) for x in outer.args[i + 1:]):
                    return [s]
                self.n += 1
                tmp = "__arg_%d" % self.n
                pre = ast.copy_location(ast.Assign(
                    [ast.Name(tmp, ast.Store())], a), s)
                s2 = acopy(s)
                s2.value.args[i] = ast.Name(tmp, ast.Load())
                ast.fix_missing_locations(pre)
                ast.fix_missing_locations(s2)
                return [pre, s2]
            if not pure(a):
                return [s]
        return [s]

    def _unwrap(self, e):
        """(kind, call) for Call / Await(Call) / YieldFrom(Call)."""
        if isinstance(e, ast.Call):
            return "plain", e
        if isinstance(e, ast.Await) and isinstance(e.value, ast.Call):
            return "await", e.value
        if isinstance(e, ast.YieldFrom) and isinstance(e.value, ast.Call):
            return "yieldfrom", e.value
        return None, None

    def _try_inline(self, e, target, stack, depth, at):
        kind, call = self._unwrap(e)
        if call is None or depth >= self.max_depth:
            return None
        r = self._resolve(call)
        if r is None:
            return None
        how, name, fn = r
        recv_alias = None
        if how.startswith("method:"):
            recv_alias = how.split(":", 1)[1]
            how = "method"
        if name in self.primitives or name in stack:
            return None
        is_async = isinstance(fn, ast.AsyncFunctionDef)
        is_gen = self._is_gen(fn)
        if kind == "await" and not (is_async and not is_gen):
            return None
        if kind == "yieldfrom" and not (is_gen and not is_async):
            return None
        if kind == "plain" and (is_async or is_gen):
            return None
        if not self._inlinable(fn):
            return None
        params = [a.arg for a in fn.args.args] + [
            a.arg for a in fn.args.kwonlyargs]
        if how == "method":
            if not params or params[0] not in ("self", "cls"):
                return None
            params = params[1:]
        pos = list(call.args)
        if any(isinstance(a, ast.Starred) for a in pos) or any(
                k.arg is None for k in call.keywords):
            return None
        npos = len(fn.args.args) - (1 if how == "method" else 0)
        if len(pos) > npos:
            return None
        bind = {}
        for p, a in zip(params, pos):
            bind[p] = a
        for k in call.keywords:
            if k.arg not in params or k.arg in bind:
                return None
            bind[k.arg] = k.value
        defaults = {}
        pa = fn.args.args[1:] if how == "method" else fn.args.args
        for a, d in zip(reversed(pa), reversed(fn.args.defaults)):
            defaults[a.arg] = d
        for a, d in zip(fn.args.kwonlyargs, fn.args.kw_defaults):
            if d is not None:
                defaults[a.arg] = d
        for p in params:
            if p not in bind:
                if p not in defaults:
                    return None
                bind[p] = defaults[p]
        self.n += 1
        suffix = "__%s_%d" % (name.strip("_"), self.n)
        body = acopy(fn.body)
        if body and isinstance(body[0], ast.Expr) and isinstance(
                body[0].value, ast.Constant) and isinstance(
                    body[0].value.value, str):
            body = body[1:]
        locals_ = set(params)
        for s in body:
            for n in _walk_stmts(s):
                if isinstance(n, ast.Name) and isinstance(
                        n.ctx, (ast.Store, ast.Del)):
                    locals_.add(n.id)
                if isinstance(n, ast.ExceptHandler) and n.name:
                    locals_.add(n.name)
        ren = _Renamer(locals_, suffix)
        body = [ren.visit(s) for s in body]
        if recv_alias is not None:
            first = fn.args.args[0].arg
            body = [_Renamer2(first, recv_alias).visit(s) for s in body]
        pre = []
        for p in params:
            b = ast.copy_location(ast.Assign(
                [ast.Name(p + suffix, ast.Store())],
                acopy(bind[p])), at)
            b._inline_param = True
            pre.append(b)
        body = self._block(body, stack + (name,), depth + 1)
        # a body whose only `return` is its last top-level statement (or
        # that never returns a value) is straight-line code: splice it in,
        # so that the bound name is an ordinary local of the caller
        rets = [n for s in body for n in _walk_stmts(s)
                if isinstance(n, ast.Return)]
        if self.flatten and (not rets or (
                len(rets) == 1 and body and rets[0] is body[-1])) and not any(
                    isinstance(s, InlineBlock) for s in body):
            out = pre + (body[:-1] if rets else body)
            val = rets[0].value if rets else None
            if target is not None and isinstance(
                    target, (ast.Tuple, ast.List)) and isinstance(
                        val, ast.Tuple) and len(val.elts) == len(
                            target.elts) and all(
                        isinstance(t_, ast.Name) for t_ in target.elts) and \
                    not ({t_.id for t_ in target.elts} & {
                        n_.id for n_ in ast.walk(val)
                        if isinstance(n_, ast.Name)}):
                # `a, b = helper()` with `return x, y`: element by element
                # (no target occurs in the values, so the order is free)
                for t_, v_ in zip(target.elts, val.elts):
                    out.append(ast.copy_location(ast.Assign(
                        [acopy(t_)], v_), at))
            elif target is not None:
                out.append(ast.copy_location(ast.Assign(
                    [acopy(target)],
                    val if val is not None else ast.Constant(None)), at))
            elif val is not None and not isinstance(
                    val, (ast.Constant, ast.Name)):
                out.append(ast.copy_location(ast.Expr(val), at))
            for s in out:
                ast.fix_missing_locations(s)
            self.inlined.append(name)
            return out
        blk = InlineBlock(body=pre + body)
        ast.copy_location(blk, at)
        blk.target = target
        blk.callee = name
        blk.call = call
        self.inlined.append(name)
        return blk

    def _single_return(self, fn):
        body = list(fn.body)
        if body and isinstance(body[0], ast.Expr) and isinstance(
                body[0].value, ast.Constant) and isinstance(
                    body[0].value.value, str):
            body = body[1:]
        # simple local aliases before the return are substituted
        env = {}
        while len(body) > 1 and isinstance(body[0], ast.Assign) and len(
                body[0].targets) == 1 and isinstance(
                    body[0].targets[0], ast.Name):
            v0 = body[0].value
            if any(isinstance(n, (ast.Call, ast.Yield, ast.YieldFrom,
                                  ast.Await, ast.Lambda))
                   for n in ast.walk(v0)):
                return None
            env[body[0].targets[0].id] = v0
            body = body[1:]
        # `if c: return A` / `return B` (or the else form) is the
        # conditional expression `A if c else B`
        if len(body) in (1, 2) and isinstance(body[0], ast.If) and len(
                body[0].body) == 1 and isinstance(
                    body[0].body[0], ast.Return) and \
                body[0].body[0].value is not None and not any(
                    isinstance(n, (ast.Call, ast.Yield, ast.YieldFrom,
                                   ast.Await, ast.Lambda, ast.NamedExpr))
                    for n in ast.walk(body[0].test)):
            other = None
            if len(body) == 2 and not body[0].orelse and isinstance(
                    body[1], ast.Return) and body[1].value is not None:
                other = body[1].value
            elif len(body) == 1 and len(body[0].orelse) == 1 and isinstance(
                    body[0].orelse[0], ast.Return) and \
                    body[0].orelse[0].value is not None:
                other = body[0].orelse[0].value
            if other is not None:
                body = [ast.copy_location(ast.Return(ast.copy_location(
                    ast.IfExp(body[0].test, body[0].body[0].value, other),
                    body[0])), body[0])]
        if len(body) == 1 and isinstance(body[0], ast.Return) and \
                body[0].value is not None:
            v = body[0].value
            for n in ast.walk(v):
                if isinstance(n, (ast.Yield, ast.YieldFrom, ast.Await,
                                  ast.Lambda, ast.NamedExpr)):
                    return None
            if env:
                class S(ast.NodeTransformer):
                    def visit_Name(self, x):
                        if x.id in env and isinstance(x.ctx, ast.Load):
                            return acopy(env[x.id])
                        return x
                v = acopy(v)
                for _ in range(len(env)):
                    v = S().visit(v)
            return v
        return None

    def _expr_inline(self, s, stack, depth):
        """Calls of single-`return <expr>` helpers inside an expression are
        replaced by that expression (arguments substituted)."""
        inl = self

        class T(ast.NodeTransformer):
            def visit_Call(self, n):
                self.generic_visit(n)
                if depth >= inl.max_depth:
                    return n
                r = inl._resolve(n)
                if r is None:
                    return n
                how, name, fn = r
                if how.startswith("method:"):
                    return n
                if name in inl.primitives or name in stack or \
                        isinstance(fn, ast.AsyncFunctionDef) or \
                        inl._is_gen(fn) or not inl._inlinable(fn):
                    return n
                v = inl._single_return(fn)
                if v is None:
                    return n
                params = [a.arg for a in fn.args.args]
                if how == "method":
                    params = params[1:]
                if n.keywords or len(n.args) != len(params) or any(
                        isinstance(a, ast.Starred) for a in n.args):
                    return n
                # each parameter used at most once, or the argument is a
                # plain name / constant (no duplicated evaluation)
                bind = dict(zip(params, n.args))
                for p, a in bind.items():
                    uses = sum(1 for x in ast.walk(v) if isinstance(
                        x, ast.Name) and x.id == p)
                    if uses > 1 and not isinstance(a, (ast.Name,
                                                       ast.Constant)):
                        return n
                out = acopy(v)

                class S(ast.NodeTransformer):
                    def visit_Name(self, x):
                        if x.id in bind and isinstance(x.ctx, ast.Load):
                            return acopy(bind[x.id])
                        return x
                out = S().visit(out)
                inl.inlined.append(name)
                return ast.copy_location(out, n)

            def visit_FunctionDef(self, n):
                return n
            visit_AsyncFunctionDef = visit_Lambda = visit_ClassDef = \
                visit_FunctionDef
        if isinstance(s, (ast.Expr, ast.Assign, ast.AugAssign, ast.Return,
                          ast.AnnAssign)):
            if getattr(s, "value", None) is not None:
                s.value = T().visit(s.value)
        elif isinstance(s, (ast.If, ast.While)):
            s.test = T().visit(s.test)
        elif isinstance(s, ast.Raise) and s.exc is not None:
            s.exc = T().visit(s.exc)
        elif isinstance(s, (ast.With, ast.AsyncWith)):
            # `with self.guard(flag):` where guard() returns one of two
            # context managers
            for it in s.items:
                it.context_expr = T().visit(it.context_expr)
        return s

    def _inline_cm(self, s, stack, depth):
        """`[async] with self.cm(args) [as v]: BODY` where cm is a generator
        decorated with (async)contextmanager whose body is
        PRE; try: yield [X] finally: POST   (or PRE; yield [X]; POST)
        becomes  PRE; [v = X]; try: BODY finally: POST."""
        if len(s.items) != 1 or not isinstance(s.items[0].context_expr,
                                               ast.Call):
            return None
        call = s.items[0].context_expr
        if depth >= self.max_depth:
            return None
        r = self._resolve_any(call)
        if r is None:
            return None
        how, name, fn = r
        decos = [ast.unparse(d) for d in fn.decorator_list]
        if not any(d.split(".")[-1] in ("contextmanager",
                                        "asynccontextmanager")
                   for d in decos):
            return None
        if name in self.primitives or name in stack or \
                not self._inlinable(fn):
            return None
        params = [a.arg for a in fn.args.args]
        if how == "method":
            params = params[1:]
        if call.keywords or len(call.args) != len(params):
            return None
        self.n += 1
        suffix = "__%s_%d" % (name.strip("_"), self.n)
        body = acopy(fn.body)
        if body and isinstance(body[0], ast.Expr) and isinstance(
                body[0].value, ast.Constant):
            body = body[1:]
        locals_ = set(params)
        for st in body:
            for n in _walk_stmts(st):
                if isinstance(n, ast.Name) and isinstance(
                        n.ctx, (ast.Store, ast.Del)):
                    locals_.add(n.id)
        ren = _Renamer(locals_, suffix)
        body = [ren.visit(st) for st in body]
        pre = []
        for p_, a in zip(params, call.args):
            b = ast.copy_location(ast.Assign(
                [ast.Name(p_ + suffix, ast.Store())], acopy(a)), s)
            b._inline_param = True
            pre.append(b)
        # locate the yield
        idx = None
        for i, st in enumerate(body):
            if isinstance(st, ast.Expr) and isinstance(st.value, ast.Yield):
                idx, form = i, "plain"
            elif isinstance(st, ast.Try) and len(st.body) == 1 and \
                    isinstance(st.body[0], ast.Expr) and isinstance(
                        st.body[0].value, ast.Yield) and not st.handlers \
                    and not st.orelse:
                idx, form = i, "try"
        if idx is None:
            return None
        for j, st in enumerate(body):
            if j != idx and any(isinstance(n, (ast.Yield, ast.YieldFrom))
                                for n in ast.walk(st)):
                return None
        ystmt = body[idx] if form == "plain" else body[idx].body[0]
        bind = []
        if s.items[0].optional_vars is not None:
            val = ystmt.value.value or ast.Constant(None)
            ov = s.items[0].optional_vars
            if isinstance(ov, (ast.Tuple, ast.List)) and isinstance(
                    val, ast.Tuple) and len(ov.elts) == len(
                        val.elts) and all(isinstance(t_, ast.Name)
                                          for t_ in ov.elts) and not (
                    {t_.id for t_ in ov.elts} & {
                        n_.id for n_ in ast.walk(val)
                        if isinstance(n_, ast.Name)}):
                # `as (a, b)` with `yield x, y`: element by element
                bind = [ast.copy_location(ast.Assign(
                    [ast.Name(t_.id, ast.Store())], v_), s)
                    for t_, v_ in zip(ov.elts, val.elts)]
            else:
                bind = [ast.copy_location(ast.Assign([ov], val), s)]
        inner = self._block(list(s.body), stack, depth)
        if form == "try":
            mid = [ast.copy_location(ast.Try(
                body=bind + inner, handlers=[], orelse=[],
                finalbody=body[idx].finalbody), s)]
        else:
            mid = bind + inner
        out = pre + body[:idx] + mid + body[idx + 1:]
        self.inlined.append(name)
        for st in out:
            ast.fix_missing_locations(st)
        return self._block(out, stack + (name,), depth + 1) \
            if False else out

    def _resolve_any(self, call):
        """Like _resolve but also accepts decorated (context manager)
        methods."""
        f = call.func
        if isinstance(f, ast.Attribute) and isinstance(f.value, ast.Name) \
                and f.value.id in ("self", "cls") and self.cls is not None:
            r = self.cls.lookup(f.attr)
            if r is None:
                return None
            node = r[2] if len(r) > 2 else r[1]
            if isinstance(node, (ast.FunctionDef, ast.AsyncFunctionDef)):
                return ("method", f.attr, node)
            return None
        return self._resolve(call)

    def _unstar(self, s):
        """`f(*g(x))` as the whole value of a statement, f a helper with n
        positional parameters: `__star = g(x); f(__star[0], .., __star[n-1])`
        (the call raises TypeError unless g returns exactly n items, which
        the analysed code takes for granted as well)."""
        v = getattr(s, "value", None) if isinstance(
            s, (ast.Return, ast.Assign, ast.Expr)) else None
        if not isinstance(v, ast.Call) or v.keywords:
            return None
        stars = [a for a in v.args if isinstance(a, ast.Starred)]
        if len(stars) != 1 or not isinstance(stars[0].value, ast.Call):
            return None
        if any(not isinstance(a, (ast.Name, ast.Constant, ast.Starred))
               for a in v.args):
            return None
        r = self._resolve(v)
        if r is None:
            return None
        how, name, fn = r
        npar = len(fn.args.args) - (1 if how.startswith("method") else 0)
        if fn.args.vararg or fn.args.kwarg or fn.args.defaults:
            return None
        n = npar - (len(v.args) - 1)
        if n < 1 or n > 8:
            return None
        self.n += 1
        tmp = "__star_%d" % self.n
        pre = ast.copy_location(ast.Assign(
            [ast.Name(tmp, ast.Store())], stars[0].value), s)
        new_args = []
        for a in v.args:
            if a is stars[0]:
                new_args += [ast.Subscript(ast.Name(tmp, ast.Load()),
                                           ast.Constant(i), ast.Load())
                             for i in range(n)]
            else:
                new_args.append(a)
        s2 = acopy(s)
        s2.value = ast.copy_location(ast.Call(v.func, new_args, []), v)
        ast.fix_missing_locations(pre)
        ast.fix_missing_locations(s2)
        return [pre, s2]

    def _listgen(self, s, stack, depth):
        """`x = list(G(args))` / `return list(G(args))` with G a generator
        helper (plain yields only): the accumulation it abbreviates,
        `acc = []; <body of G with `yield v` -> acc.append(v)>; x = acc`."""
        v = getattr(s, "value", None) if isinstance(
            s, (ast.Return, ast.Assign)) else None
        if not (isinstance(v, ast.Call) and isinstance(v.func, ast.Name)
                and v.func.id in ("list", "tuple") and len(v.args) == 1 and
                not v.keywords and isinstance(v.args[0], ast.Call)):
            return None
        call = v.args[0]
        r = self._resolve(call)
        if r is None or depth >= self.max_depth:
            return None
        how, name, fn = r
        if name in self.primitives or name in stack or isinstance(
                fn, ast.AsyncFunctionDef) or not self._is_gen(fn) or \
                not self._inlinable(fn):
            return None
        for n in _walk_fn(fn):
            if isinstance(n, ast.YieldFrom):
                return None
            if isinstance(n, ast.Return) and n.value is not None:
                return None
        ys = [n for n in _walk_fn(fn) if isinstance(n, ast.Yield)]
        # every yield must be a whole expression statement
        stmts_y = [n for n in _walk_fn(fn) if isinstance(n, ast.Expr) and
                   isinstance(n.value, ast.Yield)]
        if len(ys) != len(stmts_y) or any(y.value is None for y in ys):
            return None
        params = [a.arg for a in fn.args.args]
        if how.startswith("method"):
            params = params[1:]
        if len(call.args) != len(params) or call.keywords or any(
                isinstance(a, ast.Starred) for a in call.args) or \
                fn.args.defaults or fn.args.vararg or fn.args.kwarg:
            return None
        self.n += 1
        suffix = "__%s_%d" % (name.strip("_"), self.n)
        acc = "__acc" + suffix
        body = acopy(fn.body)
        if body and isinstance(body[0], ast.Expr) and isinstance(
                body[0].value, ast.Constant) and isinstance(
                    body[0].value.value, str):
            body = body[1:]
        locals_ = set(params)
        for st in body:
            for n in _walk_stmts(st):
                if isinstance(n, ast.Name) and isinstance(
                        n.ctx, (ast.Store, ast.Del)):
                    locals_.add(n.id)
        ren = _Renamer(locals_, suffix)
        body = [ren.visit(st) for st in body]

        class Y(ast.NodeTransformer):
            def visit_Expr(self, n):
                if isinstance(n.value, ast.Yield):
                    return ast.copy_location(ast.Expr(ast.Call(
                        ast.Attribute(ast.Name(acc, ast.Load()), "append",
                                      ast.Load()), [n.value.value], [])), n)
                return n

            def visit_Return(self, n):
                return n
        body = [Y().visit(st) for st in body]
        if any(isinstance(n, ast.Return) for st in body
               for n in _walk_stmts(st)):
            return None           # early exit of the generator: not read
        pre = [ast.Assign([ast.Name(acc, ast.Store())], ast.List([],
                                                                 ast.Load()))]
        for p_, a in zip(params, call.args):
            b = ast.Assign([ast.Name(p_ + suffix, ast.Store())], acopy(a))
            b._inline_param = True
            pre.append(b)
        s2 = acopy(s)
        res = ast.Name(acc, ast.Load())
        s2.value = res if v.func.id == "list" else ast.Call(
            ast.Name("tuple", ast.Load()), [res], [])
        out = pre + self._block(body, stack + (name,), depth + 1) + [s2]
        for x in out:
            ast.copy_location(x, s)
            ast.fix_missing_locations(x)
        self.inlined.append(name)
        return out

    def _hoist_head_call(self, s):
        """`return H(a).m(v)` with H an inlinable helper: the helper call is
        the first thing evaluated, so it can be given its own statement
        `__head = H(a); return __head.m(v)`."""
        v = getattr(s, "value", None) if isinstance(
            s, (ast.Return, ast.Assign, ast.Expr)) else None
        if not isinstance(v, ast.Call):
            return None
        # walk down the receiver chain: call -> attribute -> call ...
        node, parent_attr = v, None
        while True:
            f = node.func if isinstance(node, ast.Call) else None
            if isinstance(f, ast.Attribute) and isinstance(f.value, ast.Call):
                inner = f.value
                r = self._resolve(inner)
                if r is not None and r[1] not in self.primitives and not \
                        self._is_gen(r[2]) and not isinstance(
                            r[2], ast.AsyncFunctionDef) and self._single_return(
                                r[2]) is None:
                    self.n += 1
                    tmp = "__head_%d" % self.n
                    pre = ast.copy_location(ast.Assign(
                        [ast.Name(tmp, ast.Store())], inner), s)
                    f.value = ast.copy_location(ast.Name(tmp, ast.Load()),
                                                inner)
                    ast.fix_missing_locations(pre)
                    return [pre, s]
                node = inner
                continue
            return None

    def _stmt(self, s, stack, depth):
        hh = self._hoist_head_call(s)
        if hh is not None:
            return self._stmt(hh[0], stack, depth) + self._stmt(
                hh[1], stack, depth)
        lg = self._listgen(s, stack, depth)
        if lg is not None:
            return lg
        us = self._unstar(s)
        if us is not None:
            return self._stmt(us[0], stack, depth) + self._stmt(
                us[1], stack, depth)
        if isinstance(s, (ast.With, ast.AsyncWith)):
            out = self._inline_cm(s, stack, depth)
            if out is not None:
                return out
        s = self._expr_inline(s, stack, depth)
        # recurse into compound statements first
        for fld in ("body", "orelse", "finalbody"):
            if hasattr(s, fld) and isinstance(getattr(s, fld), list) and \
                    not isinstance(s, (ast.FunctionDef, ast.AsyncFunctionDef,
                                       ast.ClassDef)):
                setattr(s, fld, self._block(getattr(s, fld), stack, depth))
        if isinstance(s, ast.Try):
            for h in s.handlers:
                h.body = self._block(h.body, stack, depth)
        if isinstance(s, ast.Expr):
            b = self._try_inline(s.value, None, stack, depth, s)
            if b is not None:
                return _aslist(b)
        if isinstance(s, ast.Assign) and len(s.targets) == 1:
            b = self._try_inline(s.value, s.targets[0], stack, depth, s)
            if b is not None:
                return _aslist(b)
        if isinstance(s, ast.Return) and s.value is not None:
            tmp = "__ret_%d" % (self.n + 1)
            b = self._try_inline(s.value, ast.Name(tmp, ast.Store()), stack,
                                 depth, s)
            if b is not None:
                r = ast.copy_location(ast.Return(ast.Name(tmp, ast.Load())),
                                      s)
                return _aslist(b) + [r]
        if isinstance(s, ast.If):
            tmp = "__test_%d" % (self.n + 1)
            t = s.test
            neg = False
            if isinstance(t, ast.UnaryOp) and isinstance(t.op, ast.Not):
                t, neg = t.operand, True
            b = self._try_inline(t, ast.Name(tmp, ast.Store()), stack, depth,
                                 s)
            if b is not None:
                nm = ast.Name(tmp, ast.Load())
                s.test = ast.copy_location(
                    ast.UnaryOp(ast.Not(), nm) if neg else nm, s.test)
                return _aslist(b) + [s]
        return [s]


def _aslist(b):
    return b if isinstance(b, list) else [b]


class _Renamer2(ast.NodeTransformer):
    """Rename one name (the `cls` of a classmethod called on an instance)."""

    def __init__(self, old, new):
        self.old, self.new = old, new

    def visit_Name(self, n):
        if n.id == self.old:
            return ast.copy_location(ast.Name(self.new, n.ctx), n)
        return n


class _Renamer(ast.NodeTransformer):
    def __init__(self, names, suffix):
        self.names, self.suffix = names, suffix

    def visit_Name(self, n):
        if n.id in self.names:
            return ast.copy_location(ast.Name(n.id + self.suffix, n.ctx), n)
        return n

    def visit_ExceptHandler(self, n):
        self.generic_visit(n)
        if n.name and n.name in self.names:
            n.name = n.name + self.suffix
        return n

    def visit_ListComp(self, n):
        return self._comp(n)

    visit_SetComp = visit_DictComp = visit_GeneratorExp = visit_ListComp

    def _comp(self, n):
        # comprehension targets are their own scope: do not rename them, but
        # rename references to callee locals
        own = set()
        for g in n.generators:
            for t in ast.walk(g.target):
                if isinstance(t, ast.Name):
                    own.add(t.id)
        saved = self.names
        self.names = self.names - own
        try:
            self.generic_visit(n)
        finally:
            self.names = saved
        return n


def _walk_fn(fn):
    stack = list(fn.body)
    while stack:
        n = stack.pop()
        yield n
        for ch in ast.iter_child_nodes(n):
            if isinstance(ch, (ast.FunctionDef, ast.AsyncFunctionDef,
                               ast.Lambda, ast.ClassDef)):
                continue
            stack.append(ch)


def _walk_stmts(s):
    stack = [s]
    while stack:
        n = stack.pop()
        yield n
        for ch in ast.iter_child_nodes(n):
            if isinstance(ch, (ast.FunctionDef, ast.AsyncFunctionDef,
                               ast.Lambda, ast.ClassDef, ast.ListComp,
                               ast.SetComp, ast.DictComp,
                               ast.GeneratorExp)):
                continue
            stack.append(ch)
