"""Evaluation of a driver's frame-to-wire encoder into a byte template.

The encoder method is evaluated by a small interpreter on a *case*: the
frame length in bytes, the send-twice flag, the class tests the encoder makes
on the command (DAPC / standard command / expects an answer) and the gateway
settings bits are concrete; the frame's data bytes are symbols b0..b(n-1)
(most significant first).  Integers are computed, symbols are carried, XOR of
symbols is kept as a set (checksums), lists are real lists - so an if-chain,
a lookup table, list arithmetic, a star-unpacked payload, reduce(xor, ...)
or an explicit loop all evaluate to the same template.  Evaluation stops at
the first wire write and yields its argument.  Anything the interpreter does
not model raises AnalysisError (exit 2), never a guess.  This is the
analyser's own interpreter on the source text; the repository code is not
imported or run."""
import ast
import struct

from .core import AnalysisError, unparse
from .front import ClassInfo
from .fold import UNKNOWN, EnumMember


class Sym:
    __slots__ = ("name",)

    def __init__(self, name):
        self.name = name

    def __repr__(self):
        return self.name

    def __eq__(self, o):
        return isinstance(o, Sym) and o.name == self.name

    def __hash__(self):
        return hash(("Sym", self.name))


class Xor:
    """XOR of a set of symbols and a constant."""
    __slots__ = ("syms", "const")

    def __init__(self, syms, const=0):
        self.syms, self.const = frozenset(syms), const

    def __eq__(self, o):
        return isinstance(o, Xor) and (o.syms, o.const) == (self.syms,
                                                            self.const)

    def __hash__(self):
        return hash((self.syms, self.const))

    def __repr__(self):
        return "xor(%s%s)" % (",".join(sorted(s.name for s in self.syms)),
                              ",0x%02x" % self.const if self.const else "")


def xor(a, b):
    def parts(v):
        if isinstance(v, bool):
            return frozenset(), int(v)
        if isinstance(v, int):
            return frozenset(), v
        if isinstance(v, Sym):
            return frozenset([v]), 0
        if isinstance(v, Xor):
            return v.syms, v.const
        raise AnalysisError("wireval: xor of %r" % (v,))
    sa, ca = parts(a)
    sb, cb = parts(b)
    s = sa ^ sb
    c = ca ^ cb
    if not s:
        return c
    if len(s) == 1 and c == 0:
        return next(iter(s))
    return Xor(s, c)


class Word:
    """An integer assembled from bytes: {byte position: int | Sym}; the
    value is the sum of byte << (8 * position).  Built by `b << 8k`,
    `w | w`, `w + w` (disjoint positions) and `b * 256`."""
    __slots__ = ("bytes",)

    def __init__(self, bytes_):
        self.bytes = {k: v for k, v in bytes_.items() if v != 0}

    @staticmethod
    def of(v):
        if isinstance(v, Word):
            return v
        if isinstance(v, Sym):
            return Word({0: v})
        if type(v) is int and v >= 0:
            out, k = {}, 0
            while v:
                out[k] = v & 0xFF
                v >>= 8
                k += 1
            return Word(out)
        return None

    def shifted(self, nbytes):
        return Word({k + nbytes: v for k, v in self.bytes.items()})

    def merged(self, o):
        if set(self.bytes) & set(o.bytes):
            return None
        d = dict(self.bytes)
        d.update(o.bytes)
        return Word(d)

    def __eq__(self, o):
        return isinstance(o, Word) and o.bytes == self.bytes

    def __hash__(self):
        return hash(tuple(sorted((k, repr(v)) for k, v in self.bytes.items())))

    def __repr__(self):
        return "Word(%s)" % ", ".join("%d:%r" % kv for kv in sorted(
            self.bytes.items(), reverse=True))


class Unknown:
    def __init__(self, why=""):
        self.why = why

    def __repr__(self):
        return "?(%s)" % self.why


class FrameObj:
    def __init__(self, nbytes, nbits=None):
        self.nbytes = nbytes
        self.nbits = nbits if nbits is not None else 8 * nbytes
        self.bytes = [Sym("b%d" % i) for i in range(nbytes)]


class CmdObj:
    def __init__(self, case):
        self.case = case
        self.frame = FrameObj(case["nbytes"], case.get("nbits"))


class SelfObj:
    def __init__(self, cls):
        self.cls = cls


class ClassV:
    def __init__(self, cls):
        self.cls = cls


class Bound:
    def __init__(self, cls, fn, self_):
        self.cls, self.fn, self.self_ = cls, fn, self_


class StructV:
    def __init__(self, fmt):
        self.fmt = fmt


def require_known(template, what, allow=()):
    """A template position the evaluator could not compute is an analysis
    limit, not a finding."""
    for i, x in enumerate(template):
        if isinstance(x, Unknown) and i not in allow:
            raise AnalysisError("wireval: %s: byte %d of the written data "
                                "could not be evaluated (%r)" % (what, i, x))


class _Write(Exception):
    def __init__(self, template, how):
        self.template, self.how = template, how


class _Raise(Exception):
    def __init__(self, name):
        self.name = name


class _Return(Exception):
    def __init__(self, value):
        self.value = value


WRITE_ATTRS = {"write", "send", "sendall"}


class WireEval:
    def __init__(self, world, folder, cls, case, stop_at_write=True):
        self.world, self.folder, self.cls = world, folder, cls
        self.case = case
        self.depth = 0
        self.stop = stop_at_write
        self.writes = []

    # -- entry -----------------------------------------------------------------
    def run(self, fn, args, cls=None):
        """('write', template) | ('raise', name) | ('return', value)"""
        try:
            v = self.call_fn(fn, args, cls or self.cls)
            if self.writes:
                return ("write", self.writes)
            return ("return", v)
        except _Write as w:
            return ("write", [w.template])
        except _Raise as r:
            return ("raise", r.name)

    def call_fn(self, fn, args, cls):
        self.depth += 1
        if self.depth > 12:
            raise AnalysisError("wireval: recursion too deep")
        try:
            env = dict(args)
            saved = self.cls
            self.cls = cls
            try:
                self.block(fn.body, env)
            except _Return as r:
                return r.value
            finally:
                self.cls = saved
            return None
        finally:
            self.depth -= 1

    # -- statements ------------------------------------------------------------
    def block(self, stmts, env):
        for s in stmts:
            self.stmt(s, env)

    def stmt(self, s, env):
        if isinstance(s, ast.Expr):
            if isinstance(s.value, ast.Constant):
                return
            self.ev(s.value, env)
            return
        if isinstance(s, (ast.Assign, ast.AnnAssign)):
            if isinstance(s, ast.AnnAssign) and s.value is None:
                return
            v = self.ev(s.value, env)
            for t in (s.targets if isinstance(s, ast.Assign) else [s.target]):
                self.assign(t, v, env)
            return
        if isinstance(s, ast.AugAssign):
            cur = self.ev(_load(s.target), env)
            v = self.binop(s.op, cur, self.ev(s.value, env))
            self.assign(s.target, v, env)
            return
        if isinstance(s, ast.If):
            t = self.truth(self.ev(s.test, env), s.test)
            self.block(s.body if t else s.orelse, env)
            return
        if isinstance(s, (ast.For, ast.AsyncFor)):
            it = self.ev(s.iter, env)
            if not isinstance(it, (list, tuple, range)):
                raise AnalysisError("wireval: loop over %r" % (it,))
            for x in list(it):
                self.assign(s.target, x, env)
                self.block(s.body, env)
            return
        if isinstance(s, ast.While):
            n = 0
            while self.truth(self.ev(s.test, env), s.test):
                self.block(s.body, env)
                n += 1
                if n > 64:
                    raise AnalysisError("wireval: unbounded loop")
            return
        if isinstance(s, (ast.With, ast.AsyncWith)):
            self.block(s.body, env)
            return
        if isinstance(s, ast.Try):
            self.block(s.body, env)
            self.block(s.finalbody, env)
            return
        if isinstance(s, ast.Return):
            raise _Return(self.ev(s.value, env) if s.value is not None
                          else None)
        if isinstance(s, ast.Raise):
            e = s.exc
            raise _Raise(unparse(e.func if isinstance(e, ast.Call) else e)
                         if e is not None else "re-raise")
        if isinstance(s, (ast.Pass, ast.Assert, ast.Global, ast.Nonlocal,
                          ast.Import, ast.ImportFrom)):
            return
        raise AnalysisError("wireval: statement %s" % type(s).__name__)

    def assign(self, t, v, env):
        if isinstance(t, ast.Name):
            env[t.id] = v
        elif isinstance(t, (ast.Tuple, ast.List)):
            vs = list(v)
            if len(vs) != len(t.elts):
                raise AnalysisError("wireval: unpack length")
            for x, y in zip(t.elts, vs):
                self.assign(x, y, env)
        elif isinstance(t, ast.Subscript):
            base = self.ev(t.value, env)
            if isinstance(base, Unknown):
                return        # driver bookkeeping, not part of the template
            if not isinstance(base, (list, dict)):
                raise AnalysisError("wireval: item store on %r" % (base,))
            k = self.ev(t.slice, env)
            base[k] = v
        elif isinstance(t, ast.Attribute):
            pass      # object state is not needed for the template
        else:
            raise AnalysisError("wireval: assignment target")

    def truth(self, v, node):
        if isinstance(v, (Unknown, Sym, Xor)):
            raise AnalysisError("wireval: branch on %r in `%s`" % (
                v, unparse(node)))
        if isinstance(v, (FrameObj, CmdObj, SelfObj, ClassV, Bound)):
            return True
        return bool(v)

    # -- expressions -----------------------------------------------------------
    def ev(self, e, env):
        if isinstance(e, ast.Constant):
            return e.value
        if isinstance(e, ast.Name):
            if e.id in env:
                return env[e.id]
            if e.id in ("len", "list", "tuple", "bytes", "bytearray", "range",
                        "int", "bool", "isinstance", "reduce", "xor",
                        "hasattr", "sum", "min", "max", "enumerate", "zip",
                        "reversed", "sorted", "str", "print", "hex", "any",
                        "all", "divmod"):
                return ("builtin", e.id)
            b = self.world.lookup(self.cls.mod, e.id)
            if b is not None and b.kind == "class":
                return ClassV(b.value)
            if b is not None and b.kind == "expr":
                v = self.folder.eval(b.value, {}, b.mod)
                if v is not UNKNOWN:
                    return self.conv(v)
                # a module-level struct template
                nd = b.value
                if isinstance(nd, ast.Call) and unparse(nd.func) in (
                        "struct.Struct", "Struct") and nd.args:
                    fv = self.folder.eval(nd.args[0], {}, b.mod)
                    if isinstance(fv, str):
                        return StructV(fv)
            if b is not None and b.kind in ("module", "ext", "func"):
                return ("mod", e.id)
            return Unknown(e.id)
        if isinstance(e, ast.Attribute):
            return self.attr(self.ev(e.value, env), e.attr, e)
        if isinstance(e, (ast.List, ast.Tuple)):
            out = []
            for x in e.elts:
                if isinstance(x, ast.Starred):
                    out += list(self.ev(x.value, env))
                else:
                    out.append(self.ev(x, env))
            return out if isinstance(e, ast.List) else tuple(out)
        if isinstance(e, ast.BinOp):
            return self.binop(e.op, self.ev(e.left, env),
                              self.ev(e.right, env))
        if isinstance(e, ast.UnaryOp):
            v = self.ev(e.operand, env)
            if isinstance(e.op, ast.Not):
                return not self.truth(v, e)
            if isinstance(v, int):
                return {ast.USub: -v, ast.Invert: ~v, ast.UAdd: v}[
                    type(e.op)]
            return Unknown("unary")
        if isinstance(e, ast.BoolOp):
            res = None
            for x in e.values:
                res = self.ev(x, env)
                t = self.truth(res, x)
                if isinstance(e.op, ast.And) and not t:
                    return res
                if isinstance(e.op, ast.Or) and t:
                    return res
            return res
        if isinstance(e, ast.Compare):
            l = self.ev(e.left, env)
            for op, c in zip(e.ops, e.comparators):
                r = self.ev(c, env)
                if not self.cmp(op, l, r, e):
                    return False
                l = r
            return True
        if isinstance(e, ast.IfExp):
            return self.ev(e.body if self.truth(self.ev(e.test, env), e.test)
                           else e.orelse, env)
        if isinstance(e, ast.Subscript):
            base = self.ev(e.value, env)
            if isinstance(e.slice, ast.Slice):
                lo = self.ev(e.slice.lower, env) if e.slice.lower else None
                hi = self.ev(e.slice.upper, env) if e.slice.upper else None
                st = self.ev(e.slice.step, env) if e.slice.step else None
                if isinstance(base, FrameObj):
                    return Unknown("frame slice")
                return base[lo:hi:st]
            k = self.ev(e.slice, env)
            if isinstance(base, dict):
                if k not in base:
                    raise _Raise("KeyError")
                return base[k]
            if isinstance(base, (list, tuple, bytes, str)):
                try:
                    return base[k]
                except IndexError:
                    raise _Raise("IndexError")
            return Unknown("subscript")
        if isinstance(e, ast.Call):
            return self.call(e, env)
        if isinstance(e, ast.Await):
            return self.ev(e.value, env)
        if isinstance(e, ast.JoinedStr):
            return Unknown("fstring")
        if isinstance(e, (ast.ListComp, ast.GeneratorExp)):
            if len(e.generators) != 1:
                return Unknown("comprehension")
            g = e.generators[0]
            it = self.ev(g.iter, env)
            if isinstance(it, Unknown):
                return Unknown("comprehension")
            out = []
            for x in list(it):
                e2 = dict(env)
                self.assign(g.target, x, e2)
                if all(self.truth(self.ev(c, e2), c) for c in g.ifs):
                    out.append(self.ev(e.elt, e2))
            return out
        if isinstance(e, ast.Dict):
            return {self.ev(k, env): self.ev(v, env)
                    for k, v in zip(e.keys, e.values)}
        return Unknown(type(e).__name__)

    def conv(self, v):
        if isinstance(v, EnumMember):
            return v.value
        if isinstance(v, dict):
            return {self.conv(a): self.conv(b) for a, b in v.items()}
        if isinstance(v, (list, tuple)):
            return type(v)(self.conv(x) for x in v)
        return v

    def class_const(self, cls, name):
        r = cls.lookup(name)
        if r is None:
            return None
        owner, kind, node = r
        if kind == "attr":
            v = self.folder.class_attr(cls, name)
            if v is UNKNOWN:
                # struct templates: struct.Struct("...")
                if isinstance(node, ast.Call) and unparse(node.func) in (
                        "struct.Struct", "Struct") and node.args and \
                        isinstance(node.args[0], ast.Constant):
                    return StructV(node.args[0].value)
                return Unknown("%s.%s" % (cls.name, name))
            return self.conv(v)
        if kind == "class":
            return ClassV(node)
        return Bound(owner, node, None)

    def attr(self, o, name, node):
        if isinstance(o, CmdObj):
            if name == "frame":
                return o.frame
            if name in o.case:
                return o.case[name]
            if name == "response":
                return o.case.get("response")
            if name == "is_query":
                # Command.is_query: the command class has a response type
                return o.case.get("response") is not None
            return Unknown("command." + name)
        if isinstance(o, FrameObj):
            if name in ("as_byte_sequence",):
                return list(o.bytes)
            if name == "pack":
                return list(o.bytes)
            if name == "pack_len":
                return ("pack_len", o)
            if name == "as_integer":
                return ("frameint", o)
            return Unknown("frame." + name)
        if isinstance(o, SelfObj):
            if name == "_device_settings":
                return ("settings",)
            v = self.class_const(o.cls, name)
            if isinstance(v, Bound):
                return Bound(v.cls, v.fn, o)
            if v is None:
                return Unknown("self." + name)
            return v
        if isinstance(o, ClassV):
            v = self.class_const(o.cls, name)
            if v is None:
                if name == "value":
                    return Unknown("value")
                return Unknown("%s.%s" % (o.cls.name, name))
            return v
        if isinstance(o, tuple) and o and o[0] == "settings":
            return self.case.get("settings", {}).get(name, Unknown(name))
        if isinstance(o, StructV) and name == "pack":
            return ("structpack", o)
        if isinstance(o, int) and name == "value":
            return o
        if isinstance(o, int) and name == "to_bytes":
            return ("to_bytes", o)
        if isinstance(o, Unknown):
            return Unknown("%s.%s" % (o.why, name))
        if isinstance(o, tuple) and o and o[0] == "mod":
            return ("mod", o[1] + "." + name)
        if isinstance(o, list) and name in ("append", "extend"):
            return ("listm", o, name)
        if isinstance(o, dict) and name == "get":
            return ("dictget", o)
        return Unknown(name)

    def binop(self, op, l, r):
        if isinstance(l, bool):
            l = int(l)
        if isinstance(r, bool):
            r = int(r)
        if isinstance(op, ast.BitXor):
            if isinstance(l, Unknown) or isinstance(r, Unknown):
                return Unknown("xor")
            return xor(l, r)
        if isinstance(l, int) and isinstance(r, int):
            f = {ast.Add: lambda: l + r, ast.Sub: lambda: l - r,
                 ast.Mult: lambda: l * r, ast.FloorDiv: lambda: l // r,
                 ast.Mod: lambda: l % r, ast.LShift: lambda: l << r,
                 ast.RShift: lambda: l >> r, ast.BitOr: lambda: l | r,
                 ast.BitAnd: lambda: l & r, ast.Pow: lambda: l ** r}
            if type(op) in f:
                return f[type(op)]()
        if isinstance(l, str) and isinstance(r, str) and isinstance(
                op, ast.Add):
            return l + r
        if isinstance(op, ast.Mult) and (
                (isinstance(l, str) and type(r) is int) or
                (isinstance(r, str) and type(l) is int)):
            return l * r          # a struct format: 56 * 'x'
        if isinstance(l, (list, tuple, bytes)) and isinstance(
                r, (list, tuple, bytes)) and isinstance(op, ast.Add):
            return list(l) + list(r)
        if isinstance(l, (list, tuple)) and isinstance(r, int) and \
                isinstance(op, ast.Mult):
            return list(l) * r
        if isinstance(r, (list, tuple)) and isinstance(l, int) and \
                isinstance(op, ast.Mult):
            return list(r) * l
        # integers assembled from frame bytes
        if isinstance(l, (Sym, Word)) or isinstance(r, (Sym, Word)):
            if isinstance(op, ast.LShift) and type(r) is int and \
                    r % 8 == 0 and Word.of(l) is not None:
                return Word.of(l).shifted(r // 8)
            if isinstance(op, ast.Mult) and type(r) is int and r in (
                    256, 65536) and Word.of(l) is not None:
                return Word.of(l).shifted(1 if r == 256 else 2)
            if isinstance(op, (ast.BitOr, ast.Add)):
                a_, b_ = Word.of(l), Word.of(r)
                if a_ is not None and b_ is not None:
                    m_ = a_.merged(b_)
                    if m_ is not None:
                        return m_
        if isinstance(l, str) and isinstance(op, ast.Mod):
            return Unknown("fmt")
        if isinstance(l, str) and isinstance(r, str) and isinstance(
                op, ast.Add):
            return l + r
        return Unknown("%s %s %s" % (l, type(op).__name__, r))

    def cmp(self, op, l, r, node):
        if getattr(self, "on_cmp", None) is not None:
            self.on_cmp(op, l, r, node)
        if isinstance(op, (ast.In, ast.NotIn)):
            if isinstance(r, Unknown):
                raise AnalysisError("wireval: membership in %r" % (r,))
            res = l in r
            return res if isinstance(op, ast.In) else not res
        if isinstance(op, (ast.Is, ast.IsNot)):
            res = (l is r) or (l is None and r is None)
            if isinstance(l, (int, str)) and isinstance(r, (int, str)):
                res = l == r
            return res if isinstance(op, ast.Is) else not res
        for v in (l, r):
            if isinstance(v, (Unknown, Sym, Xor)):
                raise AnalysisError("wireval: comparison on %r in `%s`" % (
                    v, unparse(node)))
        return {ast.Eq: lambda: l == r, ast.NotEq: lambda: l != r,
                ast.Lt: lambda: l < r, ast.LtE: lambda: l <= r,
                ast.Gt: lambda: l > r, ast.GtE: lambda: l >= r}[type(op)]()

    def call(self, e, env):
        # wire write?
        f = e.func
        if isinstance(f, ast.Attribute) and f.attr in WRITE_ATTRS and (
                unparse(f.value) in ("self.transport", "s", "self._s",
                                     "self.transport_", "transport")
                or unparse(f) == "os.write"):
            arg = e.args[-1]
            t = self.ev(arg, env)
            if self.stop:
                raise _Write(t, unparse(f))
            self.writes.append(t)
            return None
        if unparse(f) == "os.write":
            t = self.ev(e.args[-1], env)
            if self.stop:
                raise _Write(t, "os.write")
            self.writes.append(t)
            return None
        fv = self.ev(f, env)
        args = []
        for a in e.args:
            if isinstance(a, ast.Starred):
                # f(*fields): the tuple / list built just before the call
                sv = self.ev(a.value, env)
                if not isinstance(sv, (list, tuple)) or (
                        isinstance(sv, tuple) and sv and isinstance(
                            sv[0], str) and sv[0] in (
                            "builtin", "pack_len", "structpack", "dictget",
                            "listm", "mod")):
                    raise AnalysisError(
                        "wire evaluation: `*%s` does not evaluate to a "
                        "sequence of arguments" % unparse(a.value))
                args += list(sv)
            else:
                args.append(self.ev(a, env))
        kw = {k.arg: self.ev(k.value, env) for k in e.keywords
              if k.arg is not None}
        if isinstance(fv, tuple) and fv and fv[0] == "builtin":
            return self.builtin(fv[1], args, kw, e)
        if isinstance(fv, tuple) and fv and fv[0] == "pack_len":
            fr, n = fv[1], args[0]
            if not isinstance(n, int) or n < fr.nbytes:
                raise _Raise("OverflowError")
            return [0] * (n - fr.nbytes) + list(fr.bytes)
        if isinstance(fv, tuple) and fv and fv[0] == "structpack":
            return pack_template(fv[1].fmt, args)
        if isinstance(fv, tuple) and fv and fv[0] == "dictget":
            return fv[1].get(args[0], args[1] if len(args) > 1 else None)
        if isinstance(fv, tuple) and fv and fv[0] == "listm":
            if fv[2] == "append":
                fv[1].append(args[0])
            else:
                fv[1].extend(list(args[0]))
            return None
        if isinstance(fv, tuple) and fv and fv[0] == "mod":
            name = fv[1]
            if name in ("struct.pack",):
                return pack_template(args[0], args[1:])
            if name.endswith("reduce") and len(args) >= 2:
                return self.builtin("reduce", args, kw, e)
            return Unknown(name)
        if isinstance(fv, Bound):
            fn = fv.fn
            decos = [unparse(d) for d in fn.decorator_list]
            params = [a.arg for a in fn.args.args]
            bind = {}
            pos = list(args)
            if "staticmethod" not in decos:
                first = params[0]
                params = params[1:]
                bind[first] = fv.self_ if fv.self_ is not None and \
                    "classmethod" not in decos else ClassV(fv.cls)
            defaults = fn.args.defaults
            dvals = [None] * (len(params) - len(defaults)) + list(defaults)
            for i, p in enumerate(params):
                if i < len(pos):
                    bind[p] = pos[i]
                elif p in kw:
                    bind[p] = kw[p]
                elif dvals[i] is not None:
                    bind[p] = self.ev(dvals[i], {})
                else:
                    raise AnalysisError("wireval: missing argument %s of %s"
                                        % (p, fn.name))
            for a, d in zip(fn.args.kwonlyargs, fn.args.kw_defaults):
                if a.arg in kw:
                    bind[a.arg] = kw[a.arg]
                elif d is not None:
                    bind[a.arg] = self.ev(d, {})
            return self.call_fn(fn, bind, fv.cls)
        return Unknown("call %s" % unparse(f))

    def builtin(self, name, args, kw, node):
        if name == "len":
            v = args[0]
            if isinstance(v, FrameObj):
                return v.nbits
            if isinstance(v, Unknown):
                raise AnalysisError("wireval: len(%r)" % (v,))
            return len(v)
        if name in ("list", "tuple", "bytes", "bytearray", "reversed",
                    "sorted"):
            if not args:
                return []
            v = args[0]
            if isinstance(v, int) and name in ("bytes", "bytearray"):
                return [0] * v
            if isinstance(v, Unknown):
                return Unknown(name)
            v = list(v)
            if name == "reversed":
                v.reverse()
            return v
        if name == "range":
            return range(*args)
        if name in ("int", "bool"):
            v = args[0]
            if isinstance(v, (int, bool)):
                return int(v) if name == "int" else bool(v)
            return v
        if name == "isinstance":
            o, t = args
            if isinstance(o, CmdObj):
                ts = t if isinstance(t, list) or (isinstance(
                    t, tuple) and t and t[0] != "mod") else [t]
                names = []
                for x in ts:
                    if isinstance(x, ClassV):
                        names.append(x.cls.name)
                    elif isinstance(x, tuple) and x and x[0] == "mod":
                        names.append(x[1].split(".")[-1])
                if not names:
                    raise AnalysisError("wireval: isinstance against %r"
                                        % (t,))
                res = False
                for n_ in names:
                    k = "is_" + n_
                    if k not in o.case:
                        raise AnalysisError("wireval: the case does not "
                                            "decide isinstance(cmd, %s)" % n_)
                    res = res or o.case[k]
                return res
            if isinstance(o, int) and isinstance(t, tuple) and t == (
                    "builtin", "int"):
                return True
            return Unknown("isinstance")
        if name == "reduce":
            fn_, seq = args[0], list(args[1])
            if fn_ == ("builtin", "xor") or (isinstance(
                    fn_, tuple) and "xor" in str(fn_)):
                acc = seq[0] if len(args) < 3 else args[2]
                for x in (seq[1:] if len(args) < 3 else seq):
                    acc = xor(acc, x)
                return acc
            return Unknown("reduce")
        if name == "xor":
            return xor(args[0], args[1])
        if name == "hasattr":
            return Unknown("hasattr")
        if name in ("min", "max", "sum"):
            vs = list(args[0]) if len(args) == 1 else list(args)
            if all(isinstance(x, int) for x in vs):
                return {"min": min, "max": max, "sum": sum}[name](vs)
            return Unknown(name)
        if name == "enumerate":
            return list(enumerate(list(args[0])))
        if name == "zip":
            return list(zip(*[list(a) for a in args]))
        if name == "divmod":
            return divmod(args[0], args[1])
        return Unknown(name)


def _load(t):
    import copy
    if isinstance(t, ast.Name):
        return ast.Name(t.id, ast.Load())
    if isinstance(t, ast.Subscript):
        return ast.Subscript(t.value, t.slice, ast.Load())
    if isinstance(t, ast.Attribute):
        return ast.Attribute(t.value, t.attr, ast.Load())
    raise AnalysisError("wireval: augmented target")


def pack_template(fmt, args):
    """Byte template of struct.pack(fmt, *args) for the field codes the
    drivers use (B, H, x, Ns) with symbolic one-byte values allowed."""
    order = ">"
    if fmt and fmt[0] in "<>!=@":
        order = fmt[0]
        fmt = fmt[1:]
    out = []
    args = list(args)
    i = 0
    num = ""
    for ch in fmt:
        if ch.isdigit():
            num += ch
            continue
        n = int(num) if num else 1
        num = ""
        if ch == "x":
            out += [0] * n
        elif ch == "s":
            v = args.pop(0)
            v = list(v) if not isinstance(v, int) else [v]
            v = (v + [0] * n)[:n]
            out += v
        elif ch in "Bb":
            for _ in range(n):
                out.append(args.pop(0))
        elif ch in "Hh":
            for _ in range(n):
                v = args.pop(0)
                if isinstance(v, int):
                    bs = list(struct.pack(order + "H", v & 0xffff))
                    out += bs
                else:
                    out += [("hi", v), ("lo", v)] if order in ">!" else [
                        ("lo", v), ("hi", v)]
        else:
            raise AnalysisError("wireval: struct code %s" % ch)
    return out
