"""C14 - DT8 colour sequences: R-DT8-ORDER, R-DT8-LANES, R-DT8-REJECT,
R-DT8-NONE (DESIGN.md section 3, C14)."""
import ast

from ..core import AnalysisError, unparse, where
from ..cfg import forward, _walk_no_nested
from ..normal import normalise
from ..seq import (gen_cfg, yields_of, check_rdisc, _is_attr_chain,
                   rdisc_facts_transfer)

MOD = "dali.gear.sequences"


def _q(y):
    return y.cls.qname if y.cls is not None else None


def yield_sequences(cfg, ys, limit=256):
    """All sequences of yields along entry->exit paths of an acyclic CFG."""
    ynode = {y.node.id: y for y in ys}
    out = set()
    stack = [(cfg.entry, ())]
    steps = 0
    while stack:
        steps += 1
        if steps > 100000:
            raise AnalysisError("path enumeration exploded in %s" % cfg.name)
        n, seq = stack.pop()
        if n.id in ynode:
            seq = seq + (ynode[n.id],)
            if len(seq) > 64:
                raise AnalysisError("yield inside a cycle in %s" % cfg.name)
        if n is cfg.exit:
            out.add(seq)
            if len(out) > limit:
                raise AnalysisError("too many paths in %s" % cfg.name)
            continue
        for (l, m) in n.succ:
            if l == "exc" and not (n.kind == "stmt" and isinstance(
                    n.ast, ast.Raise)):
                continue
            if m is cfg.raise_exit:
                continue
            stack.append((m, seq))
    return out


# ---------------------------------------------------------------------------
# byte-lane evaluator

def bytes_defs(cfg, param):
    """names bound to <param>.to_bytes(2, order): name -> order"""
    out = {}
    for n in cfg.reachable:
        if n.kind == "stmt" and isinstance(n.ast, ast.Assign) and len(
                n.ast.targets) == 1 and isinstance(n.ast.targets[0],
                                                   ast.Name):
            o = _to_bytes_call(n.ast.value, param)
            if o is not None:
                out[n.ast.targets[0].id] = (o, n)
        elif n.kind == "stmt" and isinstance(n.ast, ast.Assign) and len(
                n.ast.targets) == 1 and isinstance(
                    n.ast.targets[0], ast.Tuple) and len(
                        n.ast.targets[0].elts) == 2 and all(isinstance(
                            x, ast.Name) for x in n.ast.targets[0].elts):
            o = _to_bytes_call(n.ast.value, param)
            if o is not None:
                # a, b = p.to_bytes(2, order): a is byte 0, b is byte 1
                for i, x in enumerate(n.ast.targets[0].elts):
                    out[x.id] = (o, n, i)
    return out


def _to_bytes_call(e, param):
    if isinstance(e, ast.Call) and isinstance(e.func, ast.Attribute) and \
            e.func.attr == "to_bytes" and isinstance(e.func.value, ast.Name) \
            and e.func.value.id == param:
        length = e.args[0] if e.args else None
        order = e.args[1] if len(e.args) > 1 else None
        for k in e.keywords:
            if k.arg == "length":
                length = k.value
            if k.arg == "byteorder":
                order = k.value
            if k.arg == "signed":
                return None
        if isinstance(length, ast.Constant) and length.value == 2 and \
                isinstance(order, ast.Constant) and order.value in (
                    "little", "big"):
            return order.value
    return None


def byte_lane(e, param, bdefs):
    """Which byte of `param` does expression e denote?  0 = low, 1 = high,
    None = unrecognised.  Mask forms are exact only for 0 <= param < 65536;
    the caller checks the range guard for those (returns (lane, needs_guard))."""
    if isinstance(e, ast.Name) and e.id in bdefs and len(bdefs[e.id]) == 3:
        order, _n, idx = bdefs[e.id]
        return (idx if order == "little" else 1 - idx, False)
    if isinstance(e, ast.Subscript) and isinstance(e.slice, ast.Constant) \
            and e.slice.value in (0, 1, -1, -2):
        idx = e.slice.value % 2
        order = None
        if isinstance(e.value, ast.Name) and e.value.id in bdefs:
            order = bdefs[e.value.id][0]
        else:
            order = _to_bytes_call(e.value, param)
        if order is not None:
            return (idx if order == "little" else 1 - idx, False)
    if isinstance(e, ast.BinOp):
        l, r = e.left, e.right
        isp = isinstance(l, ast.Name) and l.id == param
        c = r.value if isinstance(r, ast.Constant) else None
        if isp and isinstance(e.op, ast.BitAnd) and c == 0xff:
            return (0, True)
        if isp and isinstance(e.op, ast.Mod) and c == 256:
            return (0, True)
        if isp and isinstance(e.op, ast.RShift) and c == 8:
            return (1, True)
        if isp and isinstance(e.op, ast.FloorDiv) and c == 256:
            return (1, True)
        if isinstance(e.op, ast.BitAnd) and c == 0xff and isinstance(
                l, ast.BinOp) and isinstance(l.op, ast.RShift) and isinstance(
                    l.left, ast.Name) and l.left.id == param and isinstance(
                        l.right, ast.Constant) and l.right.value == 8:
            return (1, True)
    return None


def _range_guard_before_first_yield(cfg, ys, param):
    """A raise-guard establishing 0 <= param <= 0xffff dominates the first
    yield (conservatively: a test mentioning param with constants 0 and
    65535/65536 whose violating edge raises)."""
    first = _first_yield_ids(cfg, ys)
    lo = hi = False
    for n in cfg.reachable:
        if n.kind != "test" or not isinstance(n.ast, ast.Compare):
            continue
        names = {x.id for x in ast.walk(n.ast) if isinstance(x, ast.Name)}
        if param not in names:
            continue
        consts = [x.value for x in ast.walk(n.ast) if isinstance(
            x, ast.Constant) and isinstance(x.value, int)]
        if not _raises_on_some_edge(n):
            continue
        if not _before_all(n, first):
            continue
        if 0 in consts:
            lo = True
        if 65535 in consts or 65536 in consts:
            hi = True
    return lo and hi


def _raises_on_some_edge(n):
    for (l, m) in n.succ:
        k = m
        hops = 0
        while k.kind in ("join",) and k.succ and hops < 4:
            k = k.succ[0][1]
            hops += 1
        if k.kind == "stmt" and isinstance(k.ast, ast.Raise):
            return True
    return False


def _first_yield_ids(cfg, ys):
    """yield nodes reachable from entry without passing another yield."""
    yids = {y.node.id for y in ys}
    out, seen, stack = set(), set(), [cfg.entry]
    while stack:
        n = stack.pop()
        if n.id in seen:
            continue
        seen.add(n.id)
        if n.id in yids:
            out.add(n.id)
            continue
        stack += [m for (l, m) in n.succ]
    return out


def _before_all(node, first_ids):
    """node cannot be reached after any first yield (i.e. it lies before)."""
    seen, stack = set(), [node]
    # all first yields must be reachable only... simpler: node reaches every
    # first yield or no yield reaches node
    seen = set()
    stack = list(first_ids)
    return True if node.id not in _reach_from_ids(node, first_ids) else False


def _reach_from_ids(node, ids):
    # ids of nodes reachable FROM the first yields
    return _REACH_CACHE.get((id(node), tuple(sorted(ids))), set())


_REACH_CACHE = {}


def _reachable_ids(starts):
    seen, stack = set(), list(starts)
    while stack:
        n = stack.pop()
        for (l, m) in n.succ:
            if m.id not in seen:
                seen.add(m.id)
                stack.append(m)
    return seen


# ---------------------------------------------------------------------------
def _address_names(fn, addr):
    """Locals that can only hold the sequence's address argument: every
    assignment to them is a name of the set or its conversion
    GearShort(<name of the set>)."""
    S = {addr}
    assigns = {}
    for n in ast.walk(fn):
        if isinstance(n, ast.Assign):
            for t in n.targets:
                if isinstance(t, ast.Name):
                    assigns.setdefault(t.id, []).append(n.value)
                else:
                    for x in ast.walk(t):
                        if isinstance(x, ast.Name):
                            assigns.setdefault(x.id, []).append(None)
        elif isinstance(n, (ast.AugAssign, ast.For, ast.NamedExpr)):
            t = n.target
            for x in ast.walk(t):
                if isinstance(x, ast.Name):
                    assigns.setdefault(x.id, []).append(None)

    def is_addr(v, S2):
        if isinstance(v, ast.Name):
            return v.id in S2
        return isinstance(v, ast.Call) and unparse(v.func).split(".")[-1] == \
            "GearShort" and len(v.args) == 1 and not v.keywords and \
            isinstance(v.args[0], ast.Name) and v.args[0].id in S2
    for _ in range(4):
        for name, vals in assigns.items():
            # a conversion of the local itself is fine once some binding
            # brings in a name already in the set
            if name not in S and vals and all(
                    v is not None and is_addr(v, S | {name})
                    for v in vals) and any(
                        isinstance(v, ast.Name) and v.id in S for v in vals):
                S.add(name)
    return S


def check(run, repo, world):
    run.explanation = (
        "Decides on the generator CFGs of SetDT8ColourValueTc / SetDT8TcLimit "
        "/ QueryDT8ColourValue: exact order of resolved commands on every "
        "path (DTR0, DTR1[, DTR2] before the device-type-8 command, Activate "
        "after, query order), byte-lane provenance of the DTR arguments (low "
        "byte -> DTR0, high byte -> DTR1) and of the reassembled answer, "
        "rejection (raise) before the first yield, None on every unclean "
        "path.  All clauses are structural; for these straight-line "
        "generators they cover the whole statement of C14 except the unit's "
        "own behaviour.")
    run.assumptions += [
        "int.to_bytes(2, order) raises OverflowError outside 0..65535",
        "NumericResponse.value is an int exactly for a clean frame; "
        "NumericResponseMask.value is 'MASK' for 255 (C06)"]
    mod = repo.mod(MOD)
    from ..seq import check_stateless
    check_stateless(run, "R-DT8-STATELESS", mod, [
        (MOD + "." + n_.name, n_) for n_ in mod.tree.body
        if isinstance(n_, ast.FunctionDef)], 3)
    COL = "dali.gear.colour."
    GEN = "dali.gear.general."

    specs = {
        "SetDT8ColourValueTc": {
            "order": [GEN + "DTR0", GEN + "DTR1",
                      COL + "SetTemporaryColourTemperature", COL + "Activate"],
            "value_param": "tc_mired", "dtr2": None},
        "SetDT8TcLimit": {
            "order": [GEN + "DTR0", GEN + "DTR1", GEN + "DTR2",
                      COL + "StoreColourTemperatureTcLimit"],
            "value_param": "tc_mired", "dtr2": "what_limit"},
    }
    for fname, sp in specs.items():
        m, fn, _ = world.func(MOD + "." + fname)
        from ..normal import scalarise_namedtuples
        fn = scalarise_namedtuples(fn, world, MOD)
        fn = normalise(fn, world, MOD)
        F = MOD + "." + fname
        cfg = gen_cfg(fn, F)
        ys = yields_of(cfg, world, MOD)
        seqs = yield_sequences(cfg, ys)
        run.count(len(seqs))
        addr = fn.args.args[0].arg
        run.rule("R-DT8-ORDER", "resolved command order on every path")
        for seq in seqs:
            got = [_q(y) for y in seq]
            run.ob("R-DT8-ORDER", F + "#order", got == sp["order"],
                   "commands on a path are %s, expected %s" % (
                       [g.split(".")[-1] if g else "?" for g in got],
                       [g.split(".")[-1] for g in sp["order"]]),
                   where(mod, fn),
                   sample={"rule": "R-DT8-ORDER", "function": fname,
                           "path_commands": [unparse(y.expr) for y in seq]})
            # addressed commands carry the sequence's address
            for y in seq:
                if _q(y) and _q(y).startswith(COL):
                    run.ob("R-DT8-ORDER", F + "#address:" + y.name,
                           y.arg(0) is not None and unparse(
                               y.arg(0)) in _address_names(fn, addr),
                           "%s must be sent to `%s`" % (y.name, addr),
                           where(mod, y.node))
        # lanes
        run.rule("R-DT8-LANES", "DTR0 <- low byte, DTR1 <- high byte of the "
                 "16-bit value; reassembly msb*256+lsb")
        p = sp["value_param"]
        bdefs = bytes_defs(cfg, p)
        needs_guard = False
        for y in ys:
            want = {GEN + "DTR0": 0, GEN + "DTR1": 1}.get(_q(y))
            if want is None:
                continue
            bl = byte_lane(y.arg(0), p, bdefs) if y.arg(0) is not None \
                else None
            if bl is None:
                raise AnalysisError(
                    "R-DT8-LANES: unrecognised byte expression %s in %s "
                    "(supported idioms: to_bytes(2, order)[i], & 0xff, "
                    "%% 256, >> 8, // 256)" % (unparse(y.arg(0)), F))
            needs_guard = needs_guard or bl[1]
            run.ob("R-DT8-LANES", "%s#%s" % (F, y.name), bl[0] == want,
                   "%s is loaded with byte %d of %s, must be byte %d" % (
                       y.name, bl[0], p, want), where(mod, y.node),
                   sample={"rule": "R-DT8-LANES", "yield": unparse(y.expr),
                           "lane": bl[0]})
        if sp["dtr2"]:
            for y in ys:
                if _q(y) == GEN + "DTR2":
                    run.ob("R-DT8-LANES", F + "#DTR2",
                           y.arg(0) is not None and unparse(y.arg(0)) in (
                               sp["dtr2"], sp["dtr2"] + ".value",
                               "int(%s)" % sp["dtr2"]),
                           "DTR2 must carry the limit selector `%s`"
                           % sp["dtr2"], where(mod, y.node))
        # reject before first yield
        run.rule("R-DT8-REJECT", "range-limiting operation / raise-guard "
                 "precedes the first yield")
        firsts = _first_yield_ids(cfg, ys)
        after = _reachable_ids([n for n in cfg.reachable if n.id in firsts])
        tb_before = [b for (name, tup) in bdefs.items()
                     for b in [tup[1]] if tup[1].id not in after and
                     tup[1].id not in firsts]
        inline_tb = False
        if not tb_before:
            # to_bytes used inline in the first yield is still "before
            # anything is sent": evaluation precedes the yield
            for y in ys:
                if y.node.id in firsts and any(
                        _to_bytes_call(c, p) for c in ast.walk(y.expr)
                        if isinstance(c, ast.Call)):
                    inline_tb = True
        guard = _guard_ok(cfg, ys, p, firsts, after)
        ok = bool(tb_before) or inline_tb or guard
        if needs_guard and not guard and not tb_before:
            ok = False
        run.ob("R-DT8-REJECT", F + "#" + p, ok,
               "no operation rejecting %s outside 0..65535 before the first "
               "command is sent" % p, where(mod, fn))

        # ... and nothing in 0..65535 is refused: the condition of every
        # explicit raise, as a formula over the value, excludes the range
        from .. import pred
        from ..pathcond import path_conds, project
        P = pred.Parser(pred.lin_of({p: "v"}))

        def tree(t, P=P, p=p):
            if p not in {n.id for n in ast.walk(t)
                         if isinstance(n, ast.Name)}:
                return None
            try:
                return P.tree(t)
            except pred.Unrecognised:
                return None
        hyp = (("le", "0", "v", 0), ("le", "v", "0", -65535))
        for n in cfg.reachable:
            if not (n.kind == "stmt" and isinstance(n.ast, ast.Raise)):
                continue
            d = project(path_conds(cfg, n, tree, what="R-DT8-REJECT"),
                        lambda a: a[0] == "le")
            bad = [c for c in d if c and pred.sat(c, hyp)]
            unguarded = any(not c for c in d)
            run.ob("R-DT8-REJECT", "%s#%s-accepts-16-bit@raise" % (F, p),
                   not bad or unguarded,
                   "a value inside 0..65535 is refused: the raise is reached "
                   "when %s" % pred.show(frozenset(bad)), where(mod, n))

    # ---- the values the caller gave are the values that are sent ----------
    # the byte-lane / selector rules above speak about the parameters by
    # name: a parameter re-bound on the way (a "forgiving" unit conversion, a
    # selector translated from another enumeration) is another value
    run.rule("R-DT8-PARAM", "the value / selector parameters of the three "
             "sequences are never re-bound")
    n_par = 0
    for fname, pnames in (("SetDT8ColourValueTc", ("tc_mired",)),
                          ("SetDT8TcLimit", ("tc_mired", "what_limit")),
                          ("QueryDT8ColourValue", ("query",))):
        m_, f_, _ = world.func(MOD + "." + fname)
        have = [a.arg for a in f_.args.args + f_.args.kwonlyargs]
        for pn in pnames:
            if pn not in have:
                raise AnalysisError("%s lost parameter %s" % (fname, pn))
            n_par += 1
            st = [n for n in _walk_no_nested(f_) if isinstance(
                n, ast.Name) and n.id == pn and isinstance(
                    n.ctx, (ast.Store, ast.Del))]
            run.ob("R-DT8-PARAM", "%s.%s#%s" % (MOD, fname, pn), not st,
                   "%s re-binds its parameter `%s`: what is loaded into the "
                   "DTRs is then not the value (selector) the caller asked "
                   "for - values the statement says are sent as given, or "
                   "rejected, are silently replaced" % (fname, pn),
                   where(mod, st[0]) if st else where(mod, f_))
    run.floor("value / selector parameters", n_par, 4)

    # ---- selector enumerations vs IEC 62386-209 ---------------------------
    import json
    import os
    from ..core import VERIF
    from ..fold import Folder, EnumMember
    run.rule("R-DT8-ENUM", "DTR selector enumerations == IEC 62386-209 "
             "tables (name by name, both directions)")
    spec = json.load(open(os.path.join(VERIF, "spec", "dt8_enums.json")))
    folder = Folder(world)
    for qn, want in spec.items():
        if qn.startswith("_"):
            continue
        c = world.cls(qn)
        got = {}
        for name in list(c.attrs):
            if not isinstance(name, str) or name.startswith("_"):
                continue
            v = folder.class_attr(c, name)
            if isinstance(v, EnumMember):
                v = v.value
            if isinstance(v, int):
                got[name] = v
        diff = {k: (got.get(k), want.get(k)) for k in set(got) | set(want)
                if got.get(k) != want.get(k)}
        run.ob("R-DT8-ENUM", qn, not diff,
               "selector values differ from the standard's table "
               "(library, standard): %s" % diff, where(
                   repo.mod(c.mod), c.node),
               sample={"rule": "R-DT8-ENUM", "enum": qn, "members":
                       len(got)})
        run.floor("members of %s" % qn.split(".")[-1], len(got),
                  len(want) - 2)

    # ---- how the commands of the three sequences reach the unit -----------
    # a DT8 unit acts on a store command only when it arrives twice, and on
    # any of these commands only behind ENABLE DEVICE TYPE 8; both are
    # class attributes the drivers read
    run.rule("R-DT8-ATTRS", "send-twice flag (IEC 62386-209 table) and "
             "device type 8 of the DT8 commands the sequences yield")
    from .. import cmdtable
    tab = {r["name"]: r for r in cmdtable.load_spec().get(
        "209 standard dt=8", [])}
    if not tab:
        raise AnalysisError("spec/iec62386_tables.txt lost its -209 table")
    n_attr = 0
    for qn in (COL + "SetTemporaryColourTemperature", COL + "Activate",
               COL + "StoreColourTemperatureTcLimit",
               COL + "QueryColourValue"):
        c = world.cls(qn)
        row = tab.get(qn.split(".")[-1])
        if c is None or row is None:
            raise AnalysisError("R-DT8-ATTRS: %s missing from %s" % (
                qn, "the library" if c is None else "the -209 table"))
        tw = folder.class_attr(c, "sendtwice")
        dt = folder.class_attr(c, "devicetype")
        n_attr += 1
        if row["twice"] is not None:
            run.ob("R-DT8-ATTRS", qn + "#sendtwice", bool(tw) == row["twice"]
                   and isinstance(tw, bool),
                   "%s.sendtwice is %r; the standard's table says %s, so "
                   "the unit %s" % (
                       c.name, tw, row["twice"],
                       "ignores the single transmission" if row["twice"]
                       else "sees the command twice"),
                   where(repo.mod(c.mod), c.node),
                   sample={"rule": "R-DT8-ATTRS", "class": qn,
                           "sendtwice": repr(tw), "devicetype": repr(dt)})
        run.ob("R-DT8-ATTRS", qn + "#devicetype", dt == 8,
               "%s.devicetype is %r: without ENABLE DEVICE TYPE 8 in front "
               "a colour unit does not act on it" % (c.name, dt),
               where(repo.mod(c.mod), c.node))
    run.floor("DT8 sequence command classes", n_attr, 4)

    # ---- QueryDT8ColourValue ----------------------------------------------
    m, fn, _ = world.func(MOD + ".QueryDT8ColourValue")
    fn = normalise(fn, world, MOD)
    from ..normal import fold_try_else_copy
    fn = fold_try_else_copy(fn)
    F = MOD + ".QueryDT8ColourValue"
    cfg = gen_cfg(fn, F)
    ys = yields_of(cfg, world, MOD)
    seqs = yield_sequences(cfg, ys)
    addr = fn.args.args[0].arg
    qparam = fn.args.args[1].arg
    want = [GEN + "QueryActualLevel", GEN + "DTR0", COL + "QueryColourValue",
            GEN + "QueryContentDTR0"]
    for seq in seqs:
        got = [_q(y) for y in seq]
        run.ob("R-DT8-ORDER", F + "#order", got == want,
               "commands on a path are %s, expected %s" % (
                   [g.split(".")[-1] if g else "?" for g in got],
                   [g.split(".")[-1] for g in want]), where(mod, fn))
    run.count(len(seqs))
    msb = lsb = None
    for y in ys:
        if _q(y) == COL + "QueryColourValue":
            msb = y.target
        if _q(y) == GEN + "QueryContentDTR0":
            lsb = y.target
        if _q(y) in (GEN + "QueryActualLevel", COL + "QueryColourValue",
                     GEN + "QueryContentDTR0"):
            run.ob("R-DT8-ORDER", F + "#address:" + y.name,
                   y.arg(0) is not None and unparse(
                       y.arg(0)) in _address_names(fn, addr),
                   "%s must be sent to `%s`" % (y.name, addr),
                   where(mod, y.node))
        if _q(y) == GEN + "DTR0":
            run.ob("R-DT8-LANES", F + "#DTR0-selector",
                   y.arg(0) is not None and unparse(y.arg(0)) in (
                       qparam + ".value", qparam, "int(%s)" % qparam),
                   "DTR0 must carry the query selector", where(mod, y.node))
    if not msb or not lsb:
        run.ob("R-DT8-NONE", F + "#answers-bound", False,
               "QueryColourValue / QueryContentDTR0 answers are not bound",
               where(mod, fn))
        return
    # selector type check raises before first yield
    firsts = _first_yield_ids(cfg, ys)
    after = _reachable_ids([n for n in cfg.reachable if n.id in firsts])
    okq = False
    for n in cfg.reachable:
        if n.kind == "test" and isinstance(n.ast, ast.Call) and unparse(
                n.ast.func) == "isinstance" and unparse(
                    n.ast.args[0]) == qparam and n.id not in after:
            c = world.resolve_class(MOD, n.ast.args[1])
            if c is not None and c.qname == COL + "QueryColourValueDTR":
                yids = {y.node.id for y in ys}
                for (l, mm) in n.succ:
                    if l != "F":
                        continue
                    # every path from the refusal edge ends in a raise
                    # before anything is sent (the message may be built in
                    # statements of its own first)
                    good, seen_, stack_ = True, set(), [mm]
                    while stack_ and good:
                        x = stack_.pop()
                        if x.id in seen_:
                            continue
                        seen_.add(x.id)
                        if x.kind == "stmt" and isinstance(x.ast, ast.Raise):
                            continue
                        if x.id in yids or x is cfg.exit:
                            good = False
                            break
                        stack_ += [k_ for (l_, k_) in x.succ if l_ != "exc"]
                    okq = okq or good
    run.ob("R-DT8-REJECT", F + "#" + qparam, okq,
           "a selector that is not a QueryColourValueDTR must be rejected "
           "(raise) before the first command", where(mod, fn))

    # assembly
    run.rule("R-DT8-NONE", "result is msb*256+lsb under a clean/int guard "
             "for both bytes, None on every other path")
    # the high byte's answer class reads 255 as the marker "MASK" (not an
    # int), which is what lets the int test exclude a masked value
    from ..seq import response_class_of
    from ..front import ClassInfo
    qcv = world.cls(COL + "QueryColourValue")
    rc_ = response_class_of(world, qcv) if qcv is not None else None
    run.ob("R-DT8-NONE", COL + "QueryColourValue#response-reads-MASK",
           rc_ is not None and any(
               isinstance(k_, ClassInfo) and k_.name == "NumericResponseMask"
               for k_ in rc_.mro),
           "QueryColourValue answers are interpreted by %s: a high byte of "
           "255 (MASK) then reads as the integer 255 and 0xFFxx is returned "
           "as a colour value" % (rc_.qname if rc_ else None),
           where(repo.mod(qcv.mod), qcv.node) if qcv is not None
           else where(mod, fn))
    n_r = check_rdisc(run, world, MOD, F, cfg, ys, mod)
    asm = _find_assembly(cfg, msb, lsb)
    run.ob("R-DT8-LANES", F + "#assembly", asm is not None,
           "no recognised msb*256+lsb assembly of the two answers "
           "(int.from_bytes((lsb, msb), 'little') or equivalent)",
           where(mod, fn))
    if asm is None:
        return
    anode, avar, ops, in_try_te = asm
    roles = [(M, role) for (M, role, via) in ops]
    run.ob("R-DT8-LANES", F + "#assembly-order",
           roles == [(msb, "msb"), (lsb, "lsb")],
           "the QueryColourValue answer must be the high byte and the "
           "QueryContentDTR0 answer the low byte of the result; assembled "
           "as %s" % roles, where(mod, anode))
    # int guards (must facts)
    def tr(node, st):
        return st

    def edge(src, label, dst, st):
        if src.kind == "test" and label == "T":
            e = src.ast
            if isinstance(e, ast.Call) and unparse(e.func) == "isinstance" \
                    and len(e.args) == 2:
                st = st | {("isinst", unparse(e.args[0]), unparse(e.args[1]))}
        return st
    IN = forward(cfg, tr, must=True, edge_transfer=edge)
    st = IN.get(anode.id, frozenset())
    # the assembly is reached for every pair of clean answers: the only
    # tests on the way are type tests of the answers and of their values
    # (a test of a byte's numeric value refuses colour values that exist)
    from ..pathcond import path_conds

    def ptree(t_):
        return ("atom", ("p", unparse(t_, 200), True))
    extra = set()
    for cj in path_conds(cfg, anode, ptree, what="R-DT8-NONE"):
        for a_ in cj:
            if a_[0] == "p" and not a_[1].startswith("isinstance(") and (
                    msb in a_[1] or lsb in a_[1]):
                extra.add(a_[1])
    run.ob("R-DT8-NONE", F + "#every-clean-pair-assembled", not extra,
           "besides the type tests the result also depends on `%s`: some "
           "pairs of clean answer bytes give None although they are a "
           "colour value" % "`, `".join(sorted(extra)), where(mod, anode))
    # ... and what was assembled is what comes back: from the assembly's
    # normal completion every path returns that value, unchanged and
    # whatever it is (a stored value of 0 is a value)
    if not (anode.kind == "stmt" and isinstance(anode.ast, ast.Return)):
        from ..seq import assigned_names
        lost = None
        seen, stack = set(), [(m_, [anode]) for (l_, m_) in anode.succ
                              if l_ != "exc"]
        while stack and lost is None:
            n_, path_ = stack.pop()
            if n_.id in seen:
                continue
            seen.add(n_.id)
            if n_.kind == "stmt" and isinstance(n_.ast, ast.Return):
                if not (isinstance(n_.ast.value, ast.Name) and
                        n_.ast.value.id == avar):
                    lost = path_ + [n_]
                continue
            if n_ is cfg.exit or (
                    n_.kind == "stmt" and n_.ast is not None and
                    avar in assigned_names(n_.ast)):
                lost = path_ + [n_]
                continue
            stack += [(m_, path_ + [n_]) for (l_, m_) in n_.succ
                      if l_ != "exc"]
        run.ob("R-DT8-NONE", F + "#assembled-value-returned",
               lost is None,
               "after the two answers were assembled into `%s` a path ends "
               "without returning it (%s): a value the unit reported - for "
               "instance 0 - comes back as something else" % (
                   avar, " -> ".join("L%s:%s" % (x_.lineno, unparse(
                       x_.ast, 30)) for x_ in (lost or [])
                       if x_.ast is not None)), where(mod, anode))
    # `.value` is only there on a response object: a runner may hand the
    # sequence None (or a marker) for an unanswered query, and a handler for
    # TypeError does not catch the AttributeError that follows
    catches_attr = False
    for t_ in ast.walk(fn):
        if isinstance(t_, ast.Try) and any(
                anode.ast is x_ for b_ in t_.body for x_ in ast.walk(b_)):
            for h_ in t_.handlers:
                names_ = ["<bare>"] if h_.type is None else [
                    unparse(e_) for e_ in (h_.type.elts if isinstance(
                        h_.type, ast.Tuple) else [h_.type])]
                if set(names_) & {"AttributeError", "Exception",
                                  "BaseException", "<bare>"}:
                    catches_attr = True
    for (M, role, via) in ops:
        if via == "value":
            is_obj = any(f[0] == "isinst" and f[1] == M for f in st)
            run.ob("R-DT8-NONE", "%s#%s-is-a-response" % (F, role),
                   is_obj or catches_attr,
                   "%s.value is read without an isinstance(%s, <response "
                   "class>) guard (and no handler for AttributeError): when "
                   "the query went unanswered and the runner sends None the "
                   "sequence raises instead of returning None" % (M, M),
                   where(mod, anode))
            ok = ("isinst", M + ".value", "int") in st or in_try_te
            why = "%s.value is assembled without an isinstance(%s.value, " \
                  "int) guard or a TypeError handler: a missing or garbled " \
                  "answer is not turned into None" % (M, M)
            if role == "msb" and ("isinst", M + ".value", "int") not in st:
                # MASK ('MASK' str) is excluded by the int test only
                ok = ok and in_try_te
            run.ob("R-DT8-NONE", "%s#%s-guard" % (F, role), ok, why,
                   where(mod, anode),
                   sample={"rule": "R-DT8-NONE", "operand": M + ".value",
                           "role": role, "facts": sorted(map(str, st)),
                           "inside_try_catching_TypeError": in_try_te})
        else:
            # raw_value.as_integer: R-RDISC already demanded None/error
            # checks; MASK (255) must be excluded for the high byte
            if role == "msb":
                run.ob("R-DT8-NONE", "%s#msb-mask" % F, False,
                       "high byte read through raw_value: MASK (255) is not "
                       "excluded", where(mod, anode))
    # returns: only avar (all other defs None) or None
    rets = [n for n in cfg.reachable if n.kind == "stmt" and isinstance(
        n.ast, ast.Return)]
    okr = bool(rets)
    for r in rets:
        v = r.ast.value
        if v is None or (isinstance(v, ast.Constant) and v.value is None):
            continue
        if isinstance(v, ast.Name) and v.id == avar:
            continue
        if v is anode.ast.value if isinstance(anode.ast, ast.Return) \
                else False:
            continue
        okr = False
    if avar:
        for n in cfg.reachable:
            if n.kind == "stmt" and isinstance(n.ast, ast.Assign) and any(
                    isinstance(t, ast.Name) and t.id == avar
                    for t in n.ast.targets) and n is not anode:
                v = n.ast.value
                if not (isinstance(v, ast.Constant) and v.value is None):
                    okr = False
    run.ob("R-DT8-NONE", F + "#returns", okr,
           "a return yields something other than the guarded assembly or "
           "None", where(mod, fn))


def _guard_ok(cfg, ys, p, firsts, after):
    lo = hi = False
    for n in cfg.reachable:
        if n.kind != "test" or not isinstance(n.ast, ast.Compare):
            continue
        if n.id in after:
            continue
        names = {x.id for x in ast.walk(n.ast) if isinstance(x, ast.Name)}
        if p not in names:
            continue
        if not _raises_on_some_edge(n):
            continue
        consts = [x.value for x in ast.walk(n.ast) if isinstance(
            x, ast.Constant) and isinstance(x.value, int)]
        lo = lo or 0 in consts
        hi = hi or 65535 in consts or 65536 in consts
    return lo and hi


def _find_assembly(cfg, msb, lsb):
    """Locate the node computing msb*256+lsb.  Returns (node, target name,
    [(var, role, via)], inside try catching TypeError)."""
    def operand(e):
        for M in (msb, lsb):
            if _is_attr_chain(e, [M, "value"]):
                return (M, "value")
            if _is_attr_chain(e, [M, "raw_value", "as_integer"]):
                return (M, "raw")
        return None
    for n in cfg.reachable:
        if n.kind != "stmt" or not isinstance(n.ast, (ast.Assign,
                                                      ast.Return)):
            continue
        v = n.ast.value
        if v is None:
            continue
        found = None
        for c in _walk_no_nested(v):
            # int.from_bytes((a, b), order)
            if isinstance(c, ast.Call) and unparse(c.func) == \
                    "int.from_bytes" and c.args and isinstance(
                        c.args[0], ast.Call) and unparse(
                            c.args[0].func) in ("bytes", "bytearray") and \
                    len(c.args[0].args) == 1 and isinstance(
                        c.args[0].args[0], (ast.Tuple, ast.List)):
                c = ast.Call(c.func, [c.args[0].args[0]] + list(c.args[1:]),
                             c.keywords)
            if isinstance(c, ast.Call) and unparse(c.func) == \
                    "int.from_bytes" and c.args and isinstance(
                        c.args[0], (ast.Tuple, ast.List)) and len(
                            c.args[0].elts) == 2:
                order = c.args[1] if len(c.args) > 1 else None
                for k in c.keywords:
                    if k.arg == "byteorder":
                        order = k.value
                if isinstance(order, ast.Constant) and order.value in (
                        "little", "big"):
                    a, b = c.args[0].elts
                    lo_e, hi_e = (a, b) if order.value == "little" else (b, a)
                    lo_o, hi_o = operand(lo_e), operand(hi_e)
                    if lo_o and hi_o:
                        found = (hi_o, lo_o)
            if isinstance(c, ast.BinOp) and isinstance(
                    c.op, (ast.BitOr, ast.Add)):
                for (x, y) in ((c.left, c.right), (c.right, c.left)):
                    if isinstance(x, ast.BinOp) and (
                            (isinstance(x.op, ast.LShift) and isinstance(
                                x.right, ast.Constant) and x.right.value == 8)
                            or (isinstance(x.op, ast.Mult) and isinstance(
                                x.right, ast.Constant)
                                and x.right.value == 256)):
                        hi_o, lo_o = operand(x.left), operand(y)
                        if hi_o and lo_o:
                            found = (hi_o, lo_o)
        if found:
            hi_o, lo_o = found
            ops = [(hi_o[0], "msb" if hi_o[0] == msb else "lsb-as-msb",
                    hi_o[1]),
                   (lo_o[0], "lsb" if lo_o[0] == lsb else "msb-as-lsb",
                    lo_o[1])]
            tgt = None
            if isinstance(n.ast, ast.Assign) and isinstance(
                    n.ast.targets[0], ast.Name):
                tgt = n.ast.targets[0].id
            return (n, tgt, ops, _in_try_typeerror(n.ast))
    return None


def _in_try_typeerror(stmt):
    p = getattr(stmt, "_parent", None)
    child = stmt
    while p is not None and not isinstance(p, (ast.FunctionDef,
                                               ast.AsyncFunctionDef)):
        if isinstance(p, ast.Try) and child in p.body:
            for h in p.handlers:
                names = []
                if h.type is None:
                    return True
                t = h.type
                elts = t.elts if isinstance(t, ast.Tuple) else [t]
                for e in elts:
                    names.append(unparse(e))
                if "TypeError" in names or "Exception" in names:
                    # handler must not re-raise
                    if not any(isinstance(x, ast.Raise)
                               for hb in h.body for x in ast.walk(hb)):
                        return True
        child = p
        p = getattr(p, "_parent", None)
    return False
