"""C20 - observed bus traffic: R-FFRAME (forward-frame type flow into the
decoder), R-DTMEM (device-type memory assigned on every path), R-REPORT
(report-before-clear pairing in the Tridonic watcher), R-SUBS (subscriber
registries)."""
import ast

from ..core import AnalysisError, unparse, where
from ..cfg import (CFG, default_may_raise, suspension_may_raise,
                   forward_worlds, reaching_defs, defs_reaching, path_str,
                   _walk_no_nested)
from ..seq import cond_edge_transfer, kill_conds_on_assign
from ..drv import HID, SER, methods_of, call_sites

FF = "dali.frame.ForwardFrame"


def check(run, repo, world):
    run.explanation = (
        "(R-FFRAME) type flow at every in-repo call of the top-level "
        "decoder: the frame argument's reaching definitions are all "
        "ForwardFrame(...) constructions, a command's .frame, or dominated by "
        "an isinstance(x, ForwardFrame) test - the decoder's fallbacks raise "
        "TypeError for anything else, which would drop the observed frame; "
        "(R-DTMEM) in each observer the device-type memory passed to the "
        "decoder is re-assigned on every path that leaves the handling of a "
        "forward frame (exceptional edges included): to the parameter of an "
        "EnableDeviceType command, else to 0; (R-REPORT) on the CFG of the "
        "Tridonic watcher a pending command is reported exactly once before "
        "it is cleared, a freshly decoded command is either stashed or "
        "reported (never both, never neither), and the failure flag of each "
        "report matches the branch (timeout / mismatch / backward frame / "
        "'no' while awaiting a repeat); in the serial receivers a decoded "
        "frame reaches exactly one distribute(); (R-SUBS) subscriber "
        "registries are touched only through their own handle and every "
        "subscriber is iterated.  NOT decided: behaviour relative to the "
        "200 ms timer and the order of reports over histories.")
    run.assumptions += ["Command.__init__ raises TypeError unless given a "
                        "ForwardFrame (checked structurally)",
                        "EnableDeviceType applies to the immediately "
                        "following forward frame only (IEC 62386-102)"]
    _check_fframe(run, repo, world)
    _check_dtmem(run, repo, world)
    _check_report(run, repo, world)
    _check_subs(run, repo, world)
    _check_feed(run, repo, world)


# ---------------------------------------------------------------------------
def _decoder_calls(world):
    """(ClassInfo|None, modname, fn, call) for every call of the top-level
    decoder outside the codec modules."""
    out = []
    from ..drv import expand_method
    from ..front import ClassInfo
    cache = _decoder_calls.__dict__.setdefault("cache", {})
    if id(world) in cache:
        return cache[id(world)]
    expanded = []
    inlined = {}            # class qname -> names of helpers inlined
    for q, (modname, fn, cls) in world.funcs.items():
        if not (modname.startswith("dali.driver") or
                fn.name == "retry_decode"):
            continue
        fx = fn
        if isinstance(cls, ClassInfo) and modname.startswith("dali.driver"):
            # helpers extracted from a method are read where they are called
            try:
                fx = expand_method(world, cls, fn, aliases="params")
            except AnalysisError:
                fx = fn
            info = getattr(fx, "_norm_info", {})
            inlined.setdefault(cls.qname, set()).update(
                x for x in info.get("inlined", []) if not x.startswith("<"))
        expanded.append((q, modname, fn, fx, cls))
    for (q, modname, fn, fx, cls) in expanded:
        if isinstance(cls, ClassInfo) and fn.name in inlined.get(
                cls.qname, ()) and fn.name.startswith("_"):
            continue        # analysed inside its callers
        fn = fx
        for c in call_sites(fn):
            t = unparse(c.func)
            if t in ("command.Command.from_frame", "dali.command.from_frame",
                     "command.from_frame", "from_frame",
                     "dali.command.Command.from_frame"):
                out.append((cls, modname, fn, c, q))
    cache.clear()
    cache[id(world)] = out
    return out


def _check_fframe(run, repo, world):
    run.rule("R-FFRAME", "every value passed to the top-level decoder is a "
             "ForwardFrame on all reaching definitions")
    # premise: Command.__init__ refuses anything else
    cc = world.cls("dali.command.Command")
    ifn = cc.methods["__init__"][1]
    prem = any(isinstance(n, ast.If) and unparse(n.test) ==
               "not isinstance(f, frame.ForwardFrame)" and any(
                   isinstance(s, ast.Raise) for s in n.body)
               for n in ast.walk(ifn))
    run.ob("R-FFRAME", "dali.command.Command.__init__#refuses-non-forward",
           prem, "premise changed: Command.__init__ no longer refuses "
           "non-ForwardFrame objects", where(repo.mod("dali.command"), ifn),
           trivial=True)
    calls = _decoder_calls(world)
    run.floor("top-level decoder call sites", len(calls), 6)
    for (cls, modname, fn, c, q) in calls:
        mod = repo.mod(modname)
        a = c.args[0] if c.args else None
        key = "%s#from_frame(%s)" % (q, unparse(a)[:40] if a is not None
                                     else "")
        ok, why = _is_forward(world, modname, fn, c, a)
        run.ob("R-FFRAME", key, ok,
               "the decoder is handed %s: every frame that reaches a decoder "
               "fallback (any unknown command) raises TypeError inside the "
               "decoder and the observed frame is dropped instead of being "
               "reported" % why, where(mod, c),
               sample={"rule": "R-FFRAME", "call": q, "argument":
                       unparse(a)[:60] if a is not None else None,
                       "verdict": why})


def _ctor_class(world, modname, e):
    if isinstance(e, ast.Call):
        k = world.resolve_class(modname, e.func)
        if k is not None:
            return k
    return None


def _is_forward(world, modname, fn, call, a):
    ff = world.cls(FF)
    if a is None:
        return False, "no argument"
    k = _ctor_class(world, modname, a)
    if k is not None:
        return (ff in k.mro), "a %s constructed in place" % k.qname
    if isinstance(a, ast.Attribute) and a.attr == "frame" and unparse(
            a.value) == "self":
        return True, "a command's own .frame"
    if isinstance(a, ast.Name):
        cfg = CFG(fn, may_raise=suspension_may_raise, name=fn.name)
        node = None
        for n in cfg.reachable:
            if n.ast is not None and n.kind in ("stmt", "test") and any(
                    x is call for x in _walk_no_nested(n.ast)):
                node = n
        if node is None:
            return False, "call not found in CFG"
        # dominated by isinstance(a, ForwardFrame)?
        from ..cfg import forward

        def edge(src, label, dst, st):
            if src.kind == "test" and label == "T":
                e = src.ast
                if isinstance(e, ast.Call) and unparse(e.func) == \
                        "isinstance" and unparse(e.args[0]) == a.id:
                    kk = world.resolve_class(modname, e.args[1])
                    if kk is not None and ff in kk.mro:
                        return st | {"isff"}
            return st

        def tr(n, st):
            if n.kind == "stmt" and n.ast is not None and a.id in {
                    x.id for x in _walk_no_nested(n.ast) if isinstance(
                        x, ast.Name) and isinstance(x.ctx, ast.Store)}:
                return st - {"isff"}
            return st
        IN = forward(cfg, tr, must=True, edge_transfer=edge)
        if "isff" in IN.get(node.id, ()):
            return True, "guarded by isinstance(%s, ForwardFrame)" % a.id
        params = [p.arg for p in fn.args.args]
        rd = reaching_defs(cfg, params)
        ds = defs_reaching(rd, node, a.id)
        kinds = []
        for d in ds:
            dn = cfg.nodes[d]
            if dn.kind == "entry":
                # a parameter: look one level up (single in-module caller
                # passing an isinstance-guarded value)
                ok = _param_guarded(world, modname, fn, a.id)
                kinds.append("ForwardFrame (caller-guarded parameter)"
                             if ok else "an unchecked parameter")
                continue
            if isinstance(dn.ast, ast.Assign):
                kk = _ctor_class(world, modname, dn.ast.value)
                kinds.append(kk.qname if kk else unparse(dn.ast.value)[:40])
        good = bool(kinds) and all(
            k2 == FF or k2.startswith("ForwardFrame (") for k2 in kinds)
        return good, "`%s` defined as %s" % (a.id, sorted(set(kinds)))
    return False, "an expression of unknown type (%s)" % unparse(a)[:40]


def _param_guarded(world, modname, fn, pname):
    """All in-module callers pass a value guarded by isinstance(.,
    ForwardFrame)."""
    ff = world.cls(FF)
    m = world.repo.modules[modname]
    found = False
    for n in ast.walk(m.tree):
        if isinstance(n, ast.Call) and isinstance(
                n.func, ast.Attribute) and n.func.attr == fn.name and n.args:
            found = True
            p = getattr(n, "_parent", None)
            guarded = False
            while p is not None:
                if isinstance(p, ast.If) and isinstance(
                        p.test, ast.Call) and unparse(
                            p.test.func) == "isinstance" and unparse(
                                p.test.args[0]) == unparse(n.args[0]):
                    kk = world.resolve_class(modname, p.test.args[1])
                    if kk is not None and ff in kk.mro:
                        guarded = True
                p = getattr(p, "_parent", None)
            if not guarded:
                return False
    return found


# ---------------------------------------------------------------------------
def _check_dtmem(run, repo, world):
    run.rule("R-DTMEM", "the device-type memory handed to the decoder is "
             "re-assigned (EnableDeviceType.param or 0) on every path out of "
             "the frame handler, exceptional paths included")
    sites = []
    for (cls, modname, fn, c, q) in _decoder_calls(world):
        if modname not in (HID, SER):
            continue
        kw = {k.arg: k.value for k in c.keywords}
        dt = kw.get("devicetype")
        if dt is None:
            continue
        sites.append((cls, modname, fn, c, q, unparse(dt)))
    run.floor("observer decode sites with device-type memory", len(sites), 4)
    # the instance map is the driver's attribute as it is when the frame is
    # decoded (the application may assign it after connecting): a copy taken
    # before the watcher's loop is the map of an earlier time
    for (cls, modname, fn, c, q) in _decoder_calls(world):
        if modname not in (HID, SER):
            continue
        kw = {k.arg: k.value for k in c.keywords}
        mp_ = kw.get("dev_inst_map")
        if mp_ is None:
            continue
        params_ = {a.arg for a in fn.args.args + fn.args.kwonlyargs}
        okm = (isinstance(mp_, ast.Attribute) and isinstance(
            mp_.value, ast.Name) and mp_.value.id == "self") or (
                isinstance(mp_, ast.Name) and mp_.id in params_)
        run.ob("R-DTMEM", q + "#instance-map-read-at-decode", okm,
               "the decoder is handed `%s` as the instance map, a value "
               "taken earlier than the decode: a map assigned to the driver "
               "after that is ignored and device/instance events stay "
               "ambiguous" % unparse(mp_), where(repo.mod(modname), c))
    for (cls, modname, fn, c, q, dtvar) in sites:
        mod = repo.mod(modname)
        cfg = CFG(fn, may_raise=default_may_raise, name=q)
        node = None
        for n in cfg.reachable:
            if n.ast is not None and n.kind == "stmt" and any(
                    x is c for x in _walk_no_nested(n.ast)):
                node = n
        if node is None:
            raise AnalysisError("decode site not in CFG of %s" % q)
        # the memory itself: a local that only copies `self.<attr>` stands
        # for that attribute, and the pass consumes the memory where the
        # copy is taken
        read_node = None
        if dtvar.isidentifier():
            cps = [n for n in cfg.reachable if n.kind == "stmt" and
                   isinstance(n.ast, ast.Assign) and any(
                       unparse(t) == dtvar for t in n.ast.targets)]
            if len(cps) == 1 and len(cps[0].ast.targets) == 1:
                v_ = cps[0].ast.value
                r_ = v_
                while isinstance(r_, ast.Attribute):
                    r_ = r_.value
                if isinstance(v_, ast.Attribute) and isinstance(
                        r_, ast.Name) and r_.id == "self":
                    read_node = cps[0]
                    dtvar = unparse(v_)
        if read_node is not None:
            # the copy is taken only on passes that decode with it
            miss = _path_avoiding(cfg, read_node, {node.id})
            run.ob("R-DTMEM", "%s#%s-read-then-decoded" % (q, dtvar),
                   miss is None,
                   "the device-type memory `%s` is taken (and may be "
                   "cleared) on a pass of the handler that decodes nothing "
                   "(%s): an EnableDeviceType seen just before is forgotten"
                   % (dtvar, path_str(miss, 8) if miss else ""),
                   where(mod, read_node))
        # forms of the assignments to dtvar
        forms_ok = True
        forms = []
        for n in cfg.reachable:
            if n.kind == "stmt" and isinstance(n.ast, ast.Assign) and any(
                    unparse(t) == dtvar for t in n.ast.targets):
                v = n.ast.value
                forms.append(unparse(v))
                if isinstance(v, ast.Constant) and v.value == 0:
                    continue
                if isinstance(v, ast.IfExp) and isinstance(
                        v.orelse, ast.Constant) and v.orelse.value == 0 and \
                        isinstance(v.body, ast.Attribute) and \
                        v.body.attr == "param":
                    # <cmd>.param if isinstance(<cmd>, EnableDeviceType) else 0
                    t_ = v.test
                    if isinstance(t_, ast.Name):
                        ds_ = [x.ast.value for x in cfg.reachable
                               if x.kind == "stmt" and isinstance(
                                   x.ast, ast.Assign) and unparse(
                                       x.ast.targets[0]) == t_.id]
                        if len(ds_) == 1:
                            t_ = ds_[0]
                    if isinstance(t_, ast.Call) and unparse(
                            t_.func) == "isinstance" and len(
                                t_.args) == 2 and unparse(
                                    t_.args[0]) == unparse(v.body.value):
                        k_ = world.resolve_class(modname, t_.args[1])
                        if k_ is not None and k_.qname == \
                                "dali.gear.general.EnableDeviceType":
                            continue
                if isinstance(v, ast.Attribute) and v.attr == "param":
                    # guarded by isinstance(<cmd>, EnableDeviceType)
                    g = _dominating_isinstance(cfg, n, unparse(v.value),
                                               world, modname)
                    if g:
                        continue
                forms_ok = False
        # all paths from the decode node to exit / loop back pass an
        # assignment of dtvar
        dec_ids = set()
        for (_c2, _m2, fn_b, c_b, _q2, dt_b) in sites:
            if fn_b is fn and dt_b == dtvar:
                for n in cfg.reachable:
                    if n.ast is not None and n.kind == "stmt" and any(
                            x is c_b for x in _walk_no_nested(n.ast)):
                        dec_ids.add(n.id)
        if read_node is not None:
            dec_ids = {read_node.id}
        stray = _assign_without_decode(cfg, dtvar, dec_ids)
        run.ob("R-DTMEM", "%s#%s-only-after-decode" % (q, dtvar),
               stray is None,
               "the device-type memory `%s` is overwritten on a pass of the "
               "handler that decoded nothing (%s): an EnableDeviceType seen "
               "just before is forgotten and the command it applies to is "
               "decoded as an ordinary one" % (
                   dtvar, path_str(stray[1], 8) if stray else ""),
               where(mod, stray[0]) if stray else where(mod, c))
        bad = _path_without_assign(cfg, read_node or node, dtvar)
        run.ob("R-DTMEM", "%s#%s" % (q, dtvar), bad is None and forms_ok,
               "%s" % ("after decoding under `%s`, the handler can be left "
                       "without re-assigning it (%s): the NEXT frame is then "
                       "decoded under a stale device type" % (
                           dtvar, path_str(bad, 8)) if bad is not None else
                       "device-type memory is assigned from %s" % forms),
               where(mod, c),
               sample={"rule": "R-DTMEM", "site": q, "memory": dtvar,
                       "assignment_forms": forms})
        if modname == SER:
            _every_observed_frame_updates(run, mod, fn, c, q, dtvar)


def _every_observed_frame_updates(run, mod, fn, c, q, dtvar):
    """Serial receivers: the frame handler is entered for every frame the
    gateway reports, answers included.  Whenever the payload is a forward
    frame (two or three bytes) the pass must end with the memory
    re-assigned - also a pass that, for whatever reason (nobody subscribed,
    a filter), does not get as far as decoding.  Decided on the worlds at
    the exits: those whose conditions on the payload's length hold for a
    length of 2 or 3 must have passed an assignment of the memory."""
    from ..cfg import explicit_raise_only, forward_worlds
    # the payload: second argument of the ForwardFrame the decoder is given
    pay = None
    a0 = c.args[0] if c.args else None
    ff = a0
    if isinstance(a0, ast.Name):
        ds = [n.value for n in ast.walk(fn) if isinstance(n, ast.Assign)
              and any(isinstance(t, ast.Name) and t.id == a0.id
                      for t in n.targets)]
        ff = ds[0] if len(ds) == 1 else None
    if isinstance(ff, ast.Call) and len(ff.args) == 2 and isinstance(
            ff.args[1], ast.Name):
        pay = ff.args[1].id
    if pay is None:
        raise AnalysisError("%s: the payload the observed frame is built "
                            "from is not a plain local" % q)
    cfg = CFG(fn, may_raise=explicit_raise_only, name=q)

    def tr(node, w):
        w = kill_conds_on_assign(node, w)
        if node.kind == "stmt" and isinstance(node.ast, ast.Assign) and any(
                unparse(t) == dtvar for t in node.ast.targets):
            w = w | {("dt-stored",)}
        return w
    W = forward_worlds(cfg, tr, cond_edge_transfer(), max_worlds=20000)

    def holds(text, L):
        """truth of a condition on the payload for a payload of L bytes, or
        None when it is about something else"""
        try:
            e = ast.parse(text, mode="eval").body
        except SyntaxError:
            return None

        class S(ast.NodeTransformer):
            def visit_Call(self, n):
                if unparse(n.func) == "len" and len(n.args) == 1 and \
                        unparse(n.args[0]) == pay:
                    return ast.copy_location(ast.Constant(L), n)
                return self.generic_visit(n)
        e = S().visit(e)
        if isinstance(e, ast.Name) and e.id == pay:
            return L > 0
        if any(isinstance(x, (ast.Name, ast.Attribute, ast.Call,
                              ast.Subscript)) for x in ast.walk(e)):
            return None
        try:
            return bool(eval(compile(ast.fix_missing_locations(
                ast.Expression(e)), "<cond>", "eval"), {"__builtins__": {}}))
        except Exception:
            return None
    bad = None
    n_fw = 0
    for w in W.at(cfg.exit):
        facts = [(f[1], f[2]) for f in w if f[0] == "cond"]
        for L in (2, 3):
            vals = [(holds(t, L), b) for (t, b) in facts]
            about = [(v, b) for (v, b) in vals if v is not None]
            if about and all(v == b for (v, b) in about):
                n_fw += 1
                if ("dt-stored",) not in w and bad is None:
                    bad = (w, L)
    if not n_fw:
        if not any(n.kind == "test" and ("len(%s)" % pay) in unparse(
                n.ast, 200) for n in cfg.reachable):
            # the handler does not branch on this payload's length (the
            # transmit confirmation: always a forward frame); the rule
            # above, from the decode on, is all there is to say
            return
        raise AnalysisError("%s: no exit is reached under conditions that "
                            "hold for a 2- or 3-byte payload" % q)
    run.ob("R-DTMEM", "%s#%s-every-observed-frame" % (q, dtvar), bad is None,
           "a pass of the handler for a %s-byte forward frame can end "
           "without re-assigning `%s` (%s): the frame was on the bus whether "
           "or not anybody listened, and the next one is decoded under a "
           "stale device type" % (
               bad[1] if bad else "", dtvar, path_str(
                   W.trace(cfg.exit, bad[0])[-8:], 8) if bad else ""),
           where(mod, fn))


def _assign_without_decode(cfg, dtvar, decode_ids):
    """An assignment of the memory that can be reached, within one pass of
    the handler (from the function entry or a loop head), without passing a
    decode that used it.  Returns (assignment node, path) or None."""
    heads = [n for n in cfg.reachable if n.kind == "join" and
             "loop" in n.info]
    assigns = [n for n in cfg.reachable if n.kind == "stmt" and isinstance(
        n.ast, ast.Assign) and any(unparse(t) == dtvar
                                   for t in n.ast.targets)]

    def reach(start, avoid, stop=()):
        seen, stack, prev = set(), [start], {}
        while stack:
            n = stack.pop()
            if n.id in seen:
                continue
            seen.add(n.id)
            for (l, m) in n.succ:
                if m.id in avoid or m.id in stop:
                    if m.id in stop and m.id not in prev:
                        prev[m.id] = n
                    continue
                if m.id not in prev:
                    prev[m.id] = n
                stack.append(m)
        return seen, prev
    for a in assigns:
        # heads of loops that contain the assignment
        fwd, _ = reach(a, set())
        inloop = [h for h in heads if h.id in fwd and a.id in reach(
            h, set())[0]]
        starts = inloop or None
        if starts is None:
            continue       # before / outside the handler loop: initialisation
        for h in starts:
            seen, prev = reach(h, set(decode_ids))
            if a.id in seen and a.id not in decode_ids:
                path = [a]
                while path[-1] is not h and path[-1].id in prev:
                    path.append(prev[path[-1].id])
                return a, list(reversed(path))
    return None


def _dominating_isinstance(cfg, node, var, world, modname):
    from ..cfg import forward

    def edge(src, label, dst, st):
        if src.kind == "test" and label == "T":
            e = src.ast
            if isinstance(e, ast.Call) and unparse(e.func) == "isinstance" \
                    and unparse(e.args[0]) == var:
                kk = world.resolve_class(modname, e.args[1])
                if kk is not None and kk.qname == \
                        "dali.gear.general.EnableDeviceType":
                    return st | {"edt"}
        return st
    IN = forward(cfg, lambda n, st: st, must=True, edge_transfer=edge)
    return "edt" in IN.get(node.id, ())


def _path_avoiding(cfg, start, avoid_ids):
    """A normal path from start to the function exit that passes none of
    the nodes in avoid_ids.  Returns node list or None."""
    prev, seen, stack = {}, set(), [m for (l, m) in start.succ if l != "exc"]
    for m in stack:
        prev[m.id] = start
    while stack:
        n = stack.pop()
        if n.id in seen or n.id in avoid_ids:
            continue
        seen.add(n.id)
        if n is cfg.exit:
            path = [n]
            while path[-1] is not start and path[-1].id in prev:
                path.append(prev[path[-1].id])
            return list(reversed(path))
        for (l, m) in n.succ:
            if l == "exc":
                continue
            if m.id not in prev:
                prev[m.id] = n
            stack.append(m)
    return None


def _path_without_assign(cfg, start, dtvar):
    """A path from start (its normal or exceptional successors) to the
    function exit, raise exit or a loop head that is not dominated by start,
    avoiding every assignment of dtvar.  Returns node list or None."""
    from collections import deque
    prev = {}
    q = deque()
    for (l, m) in start.succ:
        prev[m.id] = start
        q.append(m)
    seen = set()
    while q:
        n = q.popleft()
        if n.id in seen:
            continue
        seen.add(n.id)
        if n.kind == "stmt" and isinstance(n.ast, ast.Assign) and any(
                unparse(t) == dtvar for t in n.ast.targets):
            continue
        if n is cfg.raise_exit:
            # an exception that escapes the handler altogether is reported
            # by the caller; only caught-and-continue paths matter
            continue
        stop = n is cfg.exit or (n.kind == "join" and "loop" in n.info) or (
            n is start)
        if stop:
            path = [n]
            while path[-1] is not start and path[-1].id in prev:
                path.append(prev[path[-1].id])
            return list(reversed(path))
        for (l, m) in n.succ:
            if m.id not in prev:
                prev[m.id] = n
            q.append(m)
    return None


def _check_wake_clear(run, repo, world):
    """The watcher's data-available event is level-triggered: every wait on
    it is followed by clear() before the watcher waits again, otherwise the
    next (timed) wait returns at once and is taken for an elapsed timeout -
    a query is reported as unanswered although its 200 ms have not passed."""
    from ..drv import expand_method
    mod = repo.mod(HID)
    c = world.cls(HID + ".tridonic")
    fn = expand_method(world, c, c.methods["_bus_watch"][1],
                       aliases="params")
    Q = HID + ".tridonic._bus_watch"
    cfg = CFG(fn, may_raise=suspension_may_raise, name=Q)
    EV = "self._bus_watch_data_available"

    def has(node, meth):
        if node.ast is None or node.kind not in ("stmt", "test"):
            return False
        return any(isinstance(x, ast.Call) and unparse(x.func) ==
                   "%s.%s" % (EV, meth) for x in _walk_no_nested(node.ast))

    def transfer(node, st):
        if has(node, "clear"):
            st = st - {"woken"}
        if has(node, "wait"):
            st = st | {"woken"}
        return st
    # The event may already be set when the watcher starts: _handle_read
    # queues reports (and sets it) from the moment the task is created.  It
    # is only ever set together with an append, so that start state comes
    # with a non-empty queue: the test of the queue being empty goes one way
    # until something has been popped.
    QUEUE = "self._bus_watch_data"

    def empty_edge(node):
        """'T' / 'F': the edge of this test on which the queue is empty."""
        if node.kind != "test" or node.ast is None:
            return None
        t = unparse(node.ast)
        if t in ("len(%s) == 0" % QUEUE, "0 == len(%s)" % QUEUE,
                 "len(%s) < 1" % QUEUE):
            return "T"
        if t in (QUEUE, "len(%s)" % QUEUE, "len(%s) != 0" % QUEUE,
                 "len(%s) > 0" % QUEUE, "len(%s) >= 1" % QUEUE):
            return "F"
        return None

    def transfer2(node, st):
        st = transfer(node, st)
        if node.ast is not None and node.kind in ("stmt", "test") and any(
                isinstance(x, ast.Call) and unparse(x.func) in (
                    QUEUE + ".pop", QUEUE + ".popleft", QUEUE + ".clear")
                for x in _walk_no_nested(node.ast)):
            st = st - {"nonempty"}
        if node.kind == "stmt" and isinstance(node.ast, ast.Assign) and any(
                unparse(t_) == QUEUE for t_ in node.ast.targets):
            st = st - {"nonempty"}
        return st

    def edges(src, label, dst, st):
        e = empty_edge(src)
        if e is not None and label in ("T", "F"):
            if label == e and "nonempty" in st:
                return None
            if label != e:
                return st | {"nonempty"}
        return st
    W0 = forward_worlds(cfg, transfer2, edges)
    W = forward_worlds(cfg, transfer2, edges,
                       init=frozenset({"woken", "nonempty"}))
    for nid, ws in W0.IN.items():
        W.IN[nid] = W.IN.get(nid, frozenset()) | ws
    W.origin.update({k: v for k, v in W0.origin.items()
                     if k not in W.origin})
    waits = [n for n in cfg.reachable if has(n, "wait")]
    run.floor("waits on the watcher's data-available event", len(waits), 1)
    for n in waits:
        bad = W.worlds_with(n, lambda w: "woken" in w)
        run.ob("R-REPORT", "%s#event-cleared-before-next-wait@L%s" % (
            Q, "timed" if "wait_for" in unparse(n.ast) else "untimed"),
            not bad,
            "this wait on %s can be reached with the event still set - by "
            "an earlier wake-up or by a report queued before the watcher "
            "first waited - with no clear() on the way: it returns at once "
            "and the empty queue is read as an elapsed timeout: %s" % (
                EV, path_str(W.trace(n, bad[0])[-8:], 8) if bad else ""),
            where(mod, n))


def _bus_watch_roles(fn):
    """Locals of the watcher renamed after the role they play, so that the
    rules do not depend on what a local is called:
      C = <...>.from_frame(F, ...)       C -> command, F -> frame
      P = C                              P -> current_command (the stash)
      if ..: T = True / else: T = False  T -> timeout
    Returns a renamed copy (fn itself when nothing has to be renamed or a
    canonical name is already used for something else)."""
    ren = {}
    for n in ast.walk(fn):
        if isinstance(n, ast.Assign) and len(n.targets) == 1 and isinstance(
                n.targets[0], ast.Name) and isinstance(
                    n.value, ast.Call) and unparse(n.value.func).endswith(
                        "from_frame"):
            ren[n.targets[0].id] = "command"
            if n.value.args and isinstance(n.value.args[0], ast.Name):
                ren[n.value.args[0].id] = "frame"
    cmd = [k for k, v in ren.items() if v == "command"]
    for n in ast.walk(fn):
        if isinstance(n, ast.Assign) and len(n.targets) == 1 and isinstance(
                n.targets[0], ast.Name) and isinstance(
                    n.value, ast.Name) and n.value.id in cmd and \
                n.targets[0].id not in cmd:
            ren[n.targets[0].id] = "current_command"
        if isinstance(n, ast.If):
            def flag(stmts, val):
                return {s_.targets[0].id for s_ in stmts if isinstance(
                    s_, ast.Assign) and len(s_.targets) == 1 and isinstance(
                        s_.targets[0], ast.Name) and isinstance(
                            s_.value, ast.Constant) and s_.value.value is val}
            both = flag(n.body, True) & flag(n.orelse, False)
            if len(both) == 1:
                ren[both.pop()] = "timeout"
    ren = {k: v for k, v in ren.items() if k != v}
    if not ren:
        return fn
    taken = {n.id for n in ast.walk(fn) if isinstance(n, ast.Name)} | {
        a.arg for a in fn.args.args + fn.args.kwonlyargs}
    if any(v in taken and v not in ren for v in ren.values()) or len(
            set(ren.values())) != len(ren):
        return fn
    from ..inline import acopy
    fn = acopy(fn)
    for n in ast.walk(fn):
        if isinstance(n, ast.Name) and n.id in ren:
            n.id = ren[n.id]
    return fn


# ---------------------------------------------------------------------------
def _check_report(run, repo, world):
    run.rule("R-REPORT", "Tridonic watcher: pending command reported exactly "
             "once before being cleared; fresh command stashed xor reported; "
             "failure flag matches the branch")
    mod = repo.mod(HID)
    _check_wake_clear(run, repo, world)
    r = world.method(HID + ".tridonic", "_bus_watch")
    # helpers of the class (a wrapper around bus_traffic._invoke, an
    # extracted wait) are inlined first
    from ..drv import expand_method
    c_ = world.cls(HID + ".tridonic")
    fn = expand_method(world, c_, r[2], aliases="params")
    from ..normal import drop_dead_stores
    from ..inline import acopy as _acopy
    fn = _acopy(fn)
    drop_dead_stores(fn)
    ast.fix_missing_locations(fn)
    from ..normal import canon_class_refs
    canon_class_refs(fn, world, HID)
    fn = _bus_watch_roles(fn)
    Q = HID + ".tridonic._bus_watch"
    cfg = CFG(fn, may_raise=suspension_may_raise, name=Q)
    cet = cond_edge_transfer()
    invokes = []
    for n in cfg.reachable:
        if n.kind == "stmt" and n.ast is not None:
            for c in _walk_no_nested(n.ast):
                if isinstance(c, ast.Call) and unparse(c.func) == \
                        "self.bus_traffic._invoke":
                    invokes.append((n, c))
    run.floor("bus_traffic._invoke sites in _bus_watch", len(invokes), 4)
    inv_node = {n.id: c for (n, c) in invokes}

    def transfer(node, st):
        st = kill_conds_on_assign(node, st)
        if node.kind != "stmt" or node.ast is None:
            return st
        t = unparse(node.ast)
        c = inv_node.get(node.id)
        if c is not None:
            subj = unparse(c.args[0])
            if subj == "current_command":
                if "pending-reported" in st:
                    st = st | {"double-report-pending"}
                st = st | {"pending-reported"}
            elif subj == "command":
                if "fresh" not in st:
                    st = st | {"report-without-fresh"}
                st = st - {"fresh"}
        if t == "current_command = None":
            if "has-pending" in st and "pending-reported" not in st:
                st = st | {"cleared-unreported"}
            st = st - {"pending-reported", "has-pending"}
        elif t == "current_command = command":
            if "fresh" not in st:
                st = st | {"stash-without-fresh"}
            if "has-pending" in st:
                st = st | {"pending-overwritten"}
            st = (st - {"fresh"}) | {"has-pending"}
        elif isinstance(node.ast, ast.Assert) and unparse(
                node.ast.test) in ("current_command == None",
                                   "current_command is None"):
            # the assertion documents (and enforces) the invariant
            st = st - {"has-pending", "pending-reported"}
        elif isinstance(node.ast, ast.Assign) and unparse(
                node.ast.targets[0]) == "command" and "from_frame" in t:
            if "fresh" in st:
                st = st | {"fresh-lost"}
            st = st | {"fresh"}
        return st
    W = forward_worlds(cfg, transfer, cet, max_worlds=60000)
    # while a command is pending (awaiting its repeat or its answer) the
    # watcher never waits without a timeout: otherwise an unanswered query
    # is only reported when the next frame happens to arrive
    EVW = "self._bus_watch_data_available.wait()"
    for n in cfg.reachable:
        if n.ast is None or n.kind not in ("stmt", "test"):
            continue
        t_ = unparse(n.ast, 400)
        if EVW not in t_ or "wait_for" in t_:
            continue
        bad = W.worlds_with(n, lambda w: not (
            ("cond", "current_command", False) in w or
            ("cond", "current_command is None", True) in w or
            ("cond", "current_command == None", True) in w))
        run.ob("R-REPORT", Q + "#pending-command-waits-with-timeout",
               not bad,
               "the watcher can wait for data without a timeout while a "
               "command is pending (conditions on the path: %s): a query "
               "nobody answers is then not reported as 'no answer' after "
               "its 200 ms" % (sorted(
                   "%s=%s" % (f[1], f[2]) for f in bad[0]
                   if isinstance(f, tuple) and f[0] == "cond")[:6]
                   if bad else ""), where(mod, n))
    # `frame` is what the report of this pass carried: on a pass that woke
    # up on the timer there is none, and the variable still holds the frame
    # of an earlier pass (the pending command's own first transmission)
    for n in cfg.reachable:
        if n.ast is None or n.kind not in ("test", "stmt"):
            continue
        if not any(isinstance(x, ast.Name) and x.id == "frame" and
                   isinstance(x.ctx, ast.Load)
                   for x in _walk_no_nested(n.ast)):
            continue
        bad = W.worlds_with(n, lambda w: ("cond", "timeout", True) in w)
        if bad and n.kind == "stmt" and isinstance(
                n.ast, ast.Assign) and isinstance(
                    n.ast.value, (ast.BoolOp, ast.IfExp)) and any(
                        isinstance(x, ast.Name) and x.id == "timeout"
                        for x in ast.walk(n.ast.value)):
            # `flag = not timeout and <test of frame>`: whether `frame` is
            # read depends on the short-circuit inside the value, which the
            # statement-level worlds do not follow
            raise AnalysisError(
                "%s computes a flag from `timeout` and `frame` in one "
                "short-circuit expression (`%s`); the rule reads tests of "
                "`frame` that are statements' own conditions" % (
                    Q, unparse(n.ast, 70)))
        run.ob("R-REPORT", Q + "#frame-read-only-with-a-report", not bad,
               "`%s` reads `frame` on a pass that woke up on the timer "
               "(timeout is True): the value is left over from an earlier "
               "report" % unparse(n.ast, 80), where(mod, n))
    # 'no answer' is what the gateway's NO_FRAME report says, nothing else
    for n in cfg.reachable:
        if n.kind == "stmt" and isinstance(n.ast, ast.Assign) and any(
                unparse(t_) == "frame" for t_ in n.ast.targets) and \
                isinstance(n.ast.value, ast.Constant) and \
                n.ast.value.value == "no":
            okn = W.must(n, ("cond", "rtype == self._RESPONSE_NO_FRAME",
                             True)) or W.must(
                n, ("cond", "self._RESPONSE_NO_FRAME == rtype", True))
            run.ob("R-REPORT", Q + "#no-answer-only-for-NO_FRAME", okn,
                   "a report is read as 'no frame followed' although its "
                   "type is not _RESPONSE_NO_FRAME: bus status reports "
                   "between a query and its answer end the wait",
                   where(mod, n))
    heads = [n for n in cfg.reachable if n.kind == "join" and "loop" in
             n.info]
    allw = set()
    for n in cfg.reachable:
        for w in W.at(n):
            allw |= {f for f in w if isinstance(f, str)}
    for flag, msg in (
            ("cleared-unreported", "a pending command is cleared without "
             "having been reported to subscribers"),
            ("double-report-pending", "a pending command is reported twice"),
            ("report-without-fresh", "a command is reported that was not "
             "decoded on this pass (reported twice or stale)"),
            ("stash-without-fresh", "a command is stashed that was already "
             "reported"),
            ("pending-overwritten", "a pending command is overwritten by a "
             "new one without having been reported"),
            ("fresh-lost", "a decoded command is overwritten before being "
             "stashed or reported")):
        run.ob("R-REPORT", Q + "#" + flag, flag not in allw, msg,
               where(mod, fn))
    # at the loop head no fresh (unhandled) command may remain
    for h in heads:
        bad = W.worlds_with(h, lambda w: "fresh" in w)
        run.ob("R-REPORT", Q + "#fresh-handled", not bad,
               "a decoded forward frame is neither stashed nor reported "
               "before the watcher waits for the next report: %s" % (
                   path_str(W.trace(h, bad[0])[-8:], 8) if bad else ""),
               where(mod, fn), sample={"rule": "R-REPORT",
                                       "worlds_at_loop_head": len(W.at(h))})
        # a send-twice command awaiting its repeat is resolved by whatever
        # comes next - the timer, a forward frame, a backward frame, 'no':
        # no pass on which one of them arrived ends with it still pending
        # (the facts about current_command die where it is cleared)
        def still(w):
            cs = {(f[1], f[2]) for f in w if isinstance(f, tuple) and
                  f[0] == "cond"}
            if ("current_command.sendtwice", True) not in cs:
                return False
            return any(x in cs for x in (
                ("timeout", True),
                ("isinstance(frame, dali.frame.ForwardFrame)", True),
                ("isinstance(frame, dali.frame.BackwardFrame)", True),
                ("frame == 'no'", True)))
        bads = W.worlds_with(h, still)
        run.ob("R-REPORT", Q + "#send-twice-resolved-by-next-report",
               not bads,
               "a send-twice command stays pending after the pass on which "
               "its repeat failed to arrive (%s): it is not flagged as "
               "failed there, and an identical frame arriving later is "
               "taken for its repeat" % (sorted(
                   "%s=%s" % (f[1], f[2]) for f in bads[0]
                   if isinstance(f, tuple) and f[0] == "cond")[:6]
                   if bads else ""), where(mod, fn))
        badp = W.worlds_with(h, lambda w: "pending-reported" in w)
        run.ob("R-REPORT", Q + "#reported-then-cleared", not badp,
               "a pending command is reported but stays pending (would be "
               "reported again)", where(mod, fn))
    # failure flags
    want = {
        # (subject, distinguishing condition text) -> flag
    }
    for (n, c) in invokes:
        subj = unparse(c.args[0])
        flag = c.args[2] if len(c.args) > 2 else None
        conds = None
        for w in W.at(n):
            cs = {(f[1], f[2]) for f in w if isinstance(f, tuple)
                  and f[0] == "cond"}
            conds = cs if conds is None else conds & cs
        cd = dict(conds or ())
        expect = None
        if subj == "command":
            expect = False
        elif cd.get("current_command.sendtwice") is True:
            if cd.get("timeout") is True:
                expect = True
            elif cd.get("current_command.frame == frame") is True:
                expect = False
            elif cd.get("current_command.frame == frame") is False:
                expect = True
            elif cd.get("isinstance(frame, dali.frame.BackwardFrame)") is \
                    True:
                expect = True
            elif cd.get("frame == 'no'") is True:
                expect = True
        elif cd.get("current_command.response") is True or \
                cd.get("current_command.sendtwice") is False:
            expect = False
        got = flag.value if isinstance(flag, ast.Constant) else None
        key = "%s#flag@%s" % (Q, _branch_key(cd, subj))
        run.ob("R-REPORT", key, expect is not None and got is expect,
               "report `%s` passes failure flag %s, the branch (%s) requires "
               "%s" % (unparse(c)[:60], got, _branch_key(cd, subj), expect),
               where(mod, c))
        # second argument: response object for queries, None otherwise
        a1 = c.args[1] if len(c.args) > 1 else None
        if subj == "current_command" and cd.get(
                "current_command.sendtwice") is False:
            # (a local holding the response built once is that response)
            from .. import astq as _aq
            a1t = _aq.canon(fn, a1, calls=True) if a1 is not None else None
            ok1 = a1t in ("current_command.response(None)",
                          "current_command.response(frame)")
            if cd.get("isinstance(frame, dali.frame.BackwardFrame)") is True:
                ok1 = a1t == "current_command.response(frame)"
            run.ob("R-REPORT", key + "#answer", ok1,
                   "a query must be reported together with its own response "
                   "object (%s)" % (unparse(a1) if a1 is not None else None),
                   where(mod, c))
    # serial receivers: decoded frame -> exactly one distribute
    smod = repo.mod(SER)
    for (cls, modname, fn2, c, q) in _decoder_calls(world):
        if modname != SER:
            continue
        cfg2 = CFG(fn2, may_raise=default_may_raise, name=q)
        tgt = None
        node = None
        for n in cfg2.reachable:
            if n.kind == "stmt" and isinstance(n.ast, ast.Assign) and any(
                    x is c for x in _walk_no_nested(n.ast)):
                tgt = unparse(n.ast.targets[0])
                node = n
        if node is None:
            continue
        # names that come to hold the decoded command (through the return
        # of an inlined helper, or a plain copy)
        names = {tgt}
        changed = True
        while changed:
            changed = False
            for n in cfg2.reachable:
                if n.kind == "stmt" and isinstance(n.ast, ast.Assign) and \
                        isinstance(n.ast.value, ast.Name) and \
                        n.ast.value.id in names and len(
                            n.ast.targets) == 1 and isinstance(
                                n.ast.targets[0], ast.Name) and \
                        n.ast.targets[0].id not in names:
                    names.add(n.ast.targets[0].id)
                    changed = True
        dist = [n for n in cfg2.reachable if n.kind == "stmt" and any(
            ".distribute(%s)" % t_ in unparse(n.ast) for t_ in names)]
        conf = [n for n in cfg2.reachable if n.kind == "stmt" and
                "_queue_tx_conf.put_nowait" in unparse(n.ast)]
        kwd = {k.arg: unparse(k.value) for k in c.keywords}
        if "tx" in kwd.get("devicetype", ""):
            continue   # transmit-confirmation decode: goes to the tx queue
        # count distribute on paths from node (normal edge) to exit
        cnts = _count_on_paths(cfg2, node, {d.id for d in dist}, names)
        run.ob("R-REPORT", "%s#distribute-once" % q, cnts == {1},
               "a successfully decoded observed frame reaches distribute() "
               "%s times on some path" % sorted(cnts), where(smod, c))


def _branch_key(cd, subj):
    parts = [subj]
    for k in ("current_command.sendtwice", "timeout",
              "current_command.frame == frame",
              "isinstance(frame, dali.frame.BackwardFrame)",
              "isinstance(frame, dali.frame.ForwardFrame)", "frame == 'no'"):
        if k in cd:
            parts.append("%s=%s" % (k.replace("current_command.", "cc.")
                                    .replace("dali.frame.", ""), cd[k]))
    return ",".join(parts)


def _count_on_paths(cfg, start, ids, nonnull=()):
    """Numbers of nodes of `ids` passed on the normal paths from start to
    the exit; `nonnull` names hold an object on these paths, so tests of
    them against None go one way only."""
    out = set()
    seen = set()
    stack = [(m, 0) for (l, m) in start.succ if l != "exc"]
    while stack:
        n, c = stack.pop()
        if (n.id, c) in seen or c > 3:
            continue
        seen.add((n.id, c))
        if n.id in ids:
            c += 1
        if n is cfg.exit:
            out.add(c)
            continue
        if n is cfg.raise_exit:
            continue
        only = None
        if n.kind == "test" and nonnull:
            t = n.ast
            if isinstance(t, ast.Compare) and len(t.ops) == 1 and isinstance(
                    t.left, ast.Name) and t.left.id in nonnull and \
                    isinstance(t.comparators[0], ast.Constant) and \
                    t.comparators[0].value is None:
                if isinstance(t.ops[0], (ast.Is, ast.Eq)):
                    only = "F"
                elif isinstance(t.ops[0], (ast.IsNot, ast.NotEq)):
                    only = "T"
        for (l, m) in n.succ:
            if l == "exc":
                continue
            if only is not None and l in ("T", "F") and l != only:
                continue
            stack.append((m, c))
    return out


# ---------------------------------------------------------------------------
def _check_subs(run, repo, world):
    run.rule("R-SUBS", "subscriber registries: register/unregister touch "
             "only their own handle; _invoke / distribute iterate every "
             "current subscriber")
    mod = repo.mod(HID)
    cb = world.cls(HID + "._callback")
    reg = cb.methods["register"][1]
    inv = cb.methods["_invoke"][1]
    h = cb.nested["_callback_handle"]
    unr = h.methods["unregister"][1]
    from .. import astq

    def nodoc(f):
        return [s_ for s_ in f.body if not (isinstance(s_, ast.Expr) and
                                            isinstance(s_.value,
                                                       ast.Constant))]
    # register: one store self._callbacks[<fresh handle>] = func, the
    # handle is returned, nothing else touches the registry
    fparam = reg.args.args[1].arg
    stores_ = [(t, n.value) for n in ast.walk(reg) if isinstance(
        n, ast.Assign) for t in n.targets if isinstance(
            t, ast.Subscript) and unparse(t.value) == "self._callbacks"]
    others = [n for n in ast.walk(reg) if isinstance(n, ast.Delete) or (
        isinstance(n, ast.Call) and isinstance(n.func, ast.Attribute) and
        unparse(n.func.value) == "self._callbacks")]
    rets_ = [n.value for n in ast.walk(reg) if isinstance(n, ast.Return)
             and n.value is not None]
    okreg = len(stores_) == 1 and not others and len(rets_) == 1
    if okreg:
        key, val = stores_[0]
        rdefs = astq._defs(reg)
        hname = key.slice.id if isinstance(key.slice, ast.Name) else None
        okreg = unparse(val) == fparam and hname is not None and \
            hname in rdefs and unparse(rdefs[hname]) == \
            "self._callback_handle(self)" and unparse(rets_[0]) == hname
    run.ob("R-SUBS", HID + "._callback.register", okreg,
           "register must add exactly one entry keyed by a fresh handle",
           where(mod, reg))
    # unregister: removes exactly the entry keyed by this handle from the
    # registry of the _callback object the handle was created with
    unr = astq.propagate(unr)      # `reg = self._callback._callbacks`
    # the handle may ask the registry to forget it: a private method of
    # _callback called as self._callback.M(self) is read in place (its self
    # is the handle's registry, its parameter the handle)
    helper = None
    ub = nodoc(unr)
    if len(ub) == 1 and isinstance(ub[0], ast.Expr) and isinstance(
            ub[0].value, ast.Call) and isinstance(
                ub[0].value.func, ast.Attribute) and unparse(
                    ub[0].value.func.value) == "self._callback" and \
            ub[0].value.func.attr in cb.methods and len(
                ub[0].value.args) == 1 and not ub[0].value.keywords and \
            unparse(ub[0].value.args[0]) == "self":
        hm = cb.methods[ub[0].value.func.attr][1]
        hps = [a.arg for a in hm.args.args]
        if len(hps) == 2 and not any(isinstance(x, ast.Name) and x.id in (
                "self__reg",) for x in ast.walk(hm)):
            from ..inline import acopy as _ac
            helper = ub[0].value.func.attr
            body_ = [_ac(s_) for s_ in nodoc(hm)]

            class _R(ast.NodeTransformer):
                def visit_Name(self, n):
                    if n.id == hps[0]:
                        return ast.copy_location(ast.Attribute(
                            ast.Name("self", ast.Load()), "_callback",
                            ast.Load()), n)
                    if n.id == hps[1]:
                        return ast.copy_location(ast.Name("self", n.ctx), n)
                    return n
            unr = _ac(unr)
            unr.body = [_R().visit(s_) for s_ in body_]
            ast.fix_missing_locations(unr)
    urem = _removals(unr, "_callbacks")
    utouch = _touches(unr, "_callbacks")
    run.ob("R-SUBS", HID + "._callback._callback_handle.unregister",
           len(urem) == 1 and len(utouch) == 1 and urem[0][1] == "self" and
           astq.canon(unr, urem[0][0]) == "self._callback._callbacks",
           "unregister must remove exactly its own entry (removals found: "
           "%s)" % [(unparse(a), k) for a, k in urem], where(mod, unr))
    loops = [n for n in ast.walk(inv) if isinstance(n, ast.For)]
    okinv = len(loops) == 1 and astq.canon(inv, loops[0].iter) in (
        "self._callbacks.values()", "list(self._callbacks.values())",
        "tuple(self._callbacks.values())") and isinstance(
            loops[0].target, ast.Name)
    if okinv:
        lv = loops[0].target.id
        calls_ = [c_ for c_ in ast.walk(loops[0]) if isinstance(
            c_, ast.Call) and astq.canon(inv, c_.func, calls=True) in (
                "asyncio.get_running_loop().call_soon",
                "asyncio.get_event_loop().call_soon")]
        okinv = len(calls_) == 1 and len(calls_[0].args) == 3 and \
            unparse(calls_[0].args[0]) == lv and unparse(
                calls_[0].args[1]) == "self._parent" and isinstance(
                    calls_[0].args[2], ast.Starred)
        # nothing but "no subscribers" may skip the loop
        guards = [unparse(n.test) for n in ast.walk(inv)
                  if isinstance(n, ast.If)]
        okinv = okinv and all(g in ("not self._callbacks",
                                    "len(self._callbacks) == 0")
                              for g in guards)
    run.ob("R-SUBS", HID + "._callback._invoke", okinv,
           "_invoke must schedule every registered callback with the report",
           where(mod, inv))
    # who else writes _callbacks
    writers = set()
    for (c, name, kind, f2) in methods_of(world, HID):
        for n in ast.walk(f2):
            if isinstance(n, ast.Attribute) and n.attr == "_callbacks" and \
                    isinstance(getattr(n, "_parent", None), (
                        ast.Subscript,)) and isinstance(
                            getattr(n._parent, "ctx", None), (ast.Store,
                                                              ast.Del)):
                writers.add("%s.%s" % (c.name, name))
            if isinstance(n, ast.Assign) and any(
                    unparse(t).endswith("._callbacks") for t in n.targets):
                writers.add("%s.%s" % (c.name, name))
    run.ob("R-SUBS", HID + "#_callbacks-writers",
           writers <= {"_callback.__init__", "_callback.register",
                       "_callback_handle.unregister"} | (
               {"_callback." + helper} if helper and _only_called_from(
                   world, HID, helper, "unregister") else set()),
           "_callbacks is modified outside its owner: %s" % sorted(writers),
           where(mod, cb.node))
    smod = repo.mod(SER)
    dq = world.cls(SER + ".DistributorQueue")
    # a subscription lasts until it is cancelled: the registries hold their
    # entries strongly (a weak container drops a subscriber whose handle or
    # queue the caller did not keep)
    for (cls_, attr, m_) in ((cb, "_callbacks", mod), (dq, "_handlers",
                                                       smod)):
        inits = []
        for name_, (kind_, f_) in cls_.methods.items():
            for n in ast.walk(f_):
                if isinstance(n, ast.Assign) and any(
                        unparse(t) == "self." + attr for t in n.targets):
                    inits.append(n.value)
                elif isinstance(n, ast.AnnAssign) and unparse(
                        n.target) == "self." + attr and n.value is not None:
                    inits.append(n.value)
        if not inits and attr in cls_.attrs:
            # one container in the class body instead of one per object:
            # every registry of the class shares its subscribers
            run.ob("R-SUBS", "%s.%s#one-registry-per-object" % (
                cls_.qname, attr), False,
                "%s.%s is a class-level container and no method gives the "
                "object one of its own: all registries of the class (bus "
                "traffic and connection status, every driver object) share "
                "their subscribers, so a report reaches callbacks that did "
                "not subscribe to it" % (cls_.qname, attr),
                where(m_, cls_.node))
            continue
        if not inits:
            raise AnalysisError("registry %s.%s is never initialised"
                                % (cls_.qname, attr))
        strong = True
        weak_names = {"weakref"}
        for n in ast.walk(repo.mod(cls_.mod).tree):
            if isinstance(n, ast.ImportFrom) and n.module == "weakref":
                weak_names |= {a.asname or a.name for a in n.names}
            elif isinstance(n, ast.Import):
                weak_names |= {a.asname for a in n.names
                               if a.name == "weakref" and a.asname}
        for v in inits:
            # the container is weak iff it is built by something of the
            # weakref module (the only weak containers there are)
            for x in ast.walk(v):
                if isinstance(x, ast.Call):
                    r_ = x.func
                    while isinstance(r_, ast.Attribute):
                        r_ = r_.value
                    if isinstance(r_, ast.Name) and r_.id in weak_names:
                        strong = False
        run.ob("R-SUBS", "%s.%s#held-strongly" % (cls_.qname, attr), strong,
               "the subscriber registry is a weak container: a subscriber "
               "that does not keep the returned handle / queue alive is "
               "silently unsubscribed by garbage collection",
               where(m_, cls_.node))
    # one entry per subscription: the registries are keyed by the handle /
    # the queue object itself, so two subscriptions get two entries only
    # while those objects compare by identity - a class that defines (or is
    # decorated into defining) __eq__ / __hash__ makes handles of one
    # registry equal, and the second register() replaces the first
    from ..front import ClassInfo
    hk = cb.nested.get("_callback_handle") if hasattr(cb, "nested") else None
    if hk is None:
        hk = world.cls(HID + "._callback._callback_handle")
    for (kcls, m_) in ((hk, mod), (dq, smod)):
        if kcls is None:
            raise AnalysisError("the subscription handle class is not found")
        why = []
        for k_ in kcls.mro:
            if not isinstance(k_, ClassInfo):
                continue
            for dn in ("__eq__", "__hash__"):
                if dn in k_.methods or dn in getattr(k_, "attrs", {}):
                    why.append("%s defines %s" % (k_.name, dn))
            for d_ in k_.node.decorator_list:
                t_ = unparse(d_.func if isinstance(d_, ast.Call) else d_)
                if t_.split(".")[-1] in ("dataclass", "total_ordering",
                                         "define", "attrs", "s", "frozen"):
                    eq_off = isinstance(d_, ast.Call) and any(
                        kw.arg == "eq" and isinstance(
                            kw.value, ast.Constant) and
                        kw.value.value is False for kw in d_.keywords)
                    if not eq_off:
                        why.append("%s is decorated with @%s (generated "
                                   "__eq__ / __hash__ over its fields)" % (
                                       k_.name, unparse(d_, 40)))
        run.ob("R-SUBS", "%s#identity-key" % kcls.qname, not why,
               "subscriptions are keyed by objects of %s, which no longer "
               "compare by identity (%s): a second subscription replaces "
               "the first, and cancelling one cancels the other" % (
                   kcls.name, "; ".join(why)), where(m_, kcls.node))
    # every subscriber gets a queue of its own: new_dali_rx_queue() builds a
    # child queue on each call (one shared child would split the reports
    # between its readers, and cancelling it would cancel everybody)
    from ..seq import nonlocal_stores as _nls
    from .. import paths as _pp
    n_new = 0
    for k_ in world.class_order:
        if k_.mod != SER or "new_dali_rx_queue" not in k_.methods:
            continue
        f_ = k_.methods["new_dali_rx_queue"][1]
        body_ = [x for x in f_.body if not (isinstance(x, ast.Expr) and
                                            isinstance(x.value, ast.Constant))]
        if len(body_) == 1 and isinstance(body_[0], ast.Raise):
            continue          # abstract
        n_new += 1
        try:
            ps_ = _pp.summaries(f_)
        except _pp.Unsupported:
            ps_ = None
        fresh = ps_ is not None and bool(ps_)
        for p_ in ps_ or []:
            if p_.kind == "raise":
                continue
            e_ = p_.expr if p_.kind == "return" else None
            k2 = world.resolve_class(SER, e_.func) if isinstance(
                e_, ast.Call) else None
            if k2 is None or dq not in k2.mro:
                fresh = False
        st_ = _nls(f_)
        run.ob("R-SUBS", "%s.new_dali_rx_queue#fresh-queue" % k_.qname,
               fresh and not st_,
               "new_dali_rx_queue must hand every caller a DistributorQueue "
               "built in that call (returns: %s; keeps: %s): subscribers "
               "sharing one queue each see only part of the traffic" % (
                   [unparse(p_.expr, 50) if p_.kind == "return" and
                    p_.expr is not None else p_.kind for p_ in ps_ or []],
                   [t for _, t in st_]), where(smod, f_))
        # distribute() hands every frame to every child with put_nowait: a
        # child queue with a bound raises QueueFull out of the receive path
        # once its reader lags, and the subscribers behind it lose the frame
        bounded = []
        for p_ in ps_ or []:
            e_ = p_.expr if p_.kind == "return" else None
            if isinstance(e_, ast.Call):
                extra = list(e_.args[1:]) + [k.value for k in e_.keywords
                                             if k.arg == "maxsize" or
                                             k.arg is None]
                for x_ in extra:
                    if not (isinstance(x_, ast.Constant) and x_.value == 0):
                        bounded.append(unparse(x_, 40))
        run.ob("R-SUBS", "%s.new_dali_rx_queue#unbounded" % k_.qname,
               not bounded,
               "the subscriber queue is built with a bound (%s): the frame "
               "that does not fit raises QueueFull out of data_received, "
               "the subscribers after this one never get it and the "
               "receiver is left in the middle of a message" % bounded,
               where(smod, f_))
    run.floor("new_dali_rx_queue implementations", n_new, 2)
    add = dq.methods["add_handler"][1]
    dele = dq.methods["del_handler"][1]
    dist = dq.methods["distribute"][1]
    from .. import paths
    hp = add.args.args[1].arg

    def keytext(fn_, e, param):
        """Key expression with the handler parameter written H."""
        t = astq.resolve(fn_, e, calls=True)

        class R(ast.NodeTransformer):
            def visit_Name(self, n):
                return ast.copy_location(ast.Name("H", n.ctx), n) \
                    if n.id == param else n
        return unparse(R().visit(t))
    # add_handler: on every path that returns, exactly one entry
    # self._handlers[k(handler)] = handler was stored; nothing else touches
    # the registry
    stores_a = [(t, n.value) for n in ast.walk(add) if isinstance(
        n, ast.Assign) for t in n.targets if isinstance(
            t, ast.Subscript) and unparse(t.value) == "self._handlers"]
    other_a = [n for n in ast.walk(add) if isinstance(n, ast.Attribute) and
               n.attr == "_handlers" and not any(n is t.value
                                                 for t, _ in stores_a)]
    akey = None
    okadd = len(stores_a) == 1 and not other_a and unparse(
        stores_a[0][1]) == hp
    if okadd:
        akey = keytext(add, stores_a[0][0].slice, hp)
        # any key computed from the child (hash(H), id(H), a helper of H);
        # del_handler below must compute the same one
        import re as _re
        okadd = bool(_re.search(r"\bH\b", akey))
        for p_ in paths.summaries(add):
            nst = sum(1 for (tg, v) in p_.effects
                      if tg.startswith("self._handlers["))
            if p_.kind != "raise" and nst != 1:
                okadd = False
    run.ob("R-SUBS", SER + ".DistributorQueue.add_handler", okadd,
           "add_handler must add exactly the given child, under a key "
           "computed from it, on every path that returns (key %s)" % akey,
           where(smod, add))
    dp = dele.args.args[1].arg
    dele = astq.propagate(dele)    # `key = hash(handler)`
    drem = _removals(dele, "_handlers")
    dtouch = _touches(dele, "_handlers")
    dkeys = {keytext(dele, ast.parse(k, mode="eval").body, dp)
             for _, k in drem}
    # (a membership test of the same key may guard the removal)
    tests = [n for n in dtouch if not any(n is a for a, _ in drem)]
    run.ob("R-SUBS", SER + ".DistributorQueue.del_handler",
           len(drem) == 1 and dkeys == {akey} and len(tests) <= 1 and
           astq.canon(dele, drem[0][0]) == "self._handlers",
           "del_handler must remove exactly the entry add_handler stored "
           "for the given child (removes %s, add_handler stores under %s)"
           % (sorted(dkeys), akey), where(smod, dele))
    ip = dist.args.args[1].arg
    loops = [n for n in ast.walk(dist) if isinstance(n, ast.For)]
    okd = len(loops) == 1
    if okd:
        lp = loops[0]
        it = astq.canon(dist, lp.iter)
        var = None
        if it in ("self._handlers.values()",
                  "list(self._handlers.values())",
                  "tuple(self._handlers.values())") and isinstance(
                      lp.target, ast.Name):
            var = lp.target.id
        elif it in ("self._handlers.items()",
                    "list(self._handlers.items())") and isinstance(
                        lp.target, ast.Tuple) and len(
                            lp.target.elts) == 2 and isinstance(
                                lp.target.elts[1], ast.Name):
            var = lp.target.elts[1].id
        # the hand-over is a first-level statement of the loop body: nothing
        # in the loop can skip a child
        okd = var is not None and not lp.orelse and any(
            isinstance(b_, ast.Expr) and unparse(b_.value) ==
            "%s.distribute(%s)" % (var, ip) for b_ in lp.body) and not any(
                isinstance(n, (ast.Break, ast.Continue, ast.Return))
                for n in ast.walk(lp))
        # a child queue keeps the item for its own consumer
        puts = [n for n in ast.walk(dist) if isinstance(n, ast.Call) and
                unparse(n.func) == "self.put_nowait" and len(
                    n.args) == 1 and unparse(n.args[0]) == ip]
        okd = okd and len(puts) == 1
    run.ob("R-SUBS", SER + ".DistributorQueue.distribute", okd,
           "distribute must hand the item to every child queue (and a "
           "child must keep it for its own consumer)", where(smod, dist))


def _touches(fn, attr):
    """Attribute nodes `.attr` of fn other than the right-hand side of a
    plain local alias (`reg = self._callbacks`, already propagated)."""
    alias_rhs = {id(n.value) for n in ast.walk(fn) if isinstance(
        n, ast.Assign) and all(isinstance(t, ast.Name) for t in n.targets)}
    return [n for n in ast.walk(fn) if isinstance(n, ast.Attribute) and
            n.attr == attr and id(n) not in alias_rhs]


def _removals(fn, attr):
    """[(container expr, key text)] for `del X.<attr>[k]` and
    `X.<attr>.pop(k[, default])` in fn."""
    out = []
    for n in ast.walk(fn):
        if isinstance(n, ast.Delete):
            for t in n.targets:
                if isinstance(t, ast.Subscript) and isinstance(
                        t.value, ast.Attribute) and t.value.attr == attr:
                    out.append((t.value, unparse(t.slice)))
        elif isinstance(n, ast.Call) and isinstance(
                n.func, ast.Attribute) and n.func.attr == "pop" and \
                isinstance(n.func.value, ast.Attribute) and \
                n.func.value.attr == attr and 1 <= len(n.args) <= 2:
            out.append((n.func.value, unparse(n.args[0])))
    return out


def _check_feed(run, repo, world):
    """Every report the gateway delivers in observe or response mode reaches
    the watcher, and the watcher reads the framing-error status from that
    same report."""
    import struct
    from ..cfg import forward_worlds
    from ..seq import cond_edge_transfer, kill_conds_on_assign
    run.rule("R-FEED", "tridonic: every observe/response report is queued "
             "for the bus watcher unconditionally; the framing-error status "
             "is read from the current report")
    mod = repo.mod(HID)
    c = world.cls(HID + ".tridonic")
    from .. import astq as _astq
    from ..drv import expand_method as _expand
    from ..normal import drop_dead_stores as _dds
    from ..inline import acopy as _acp
    # helpers (a method that queues a report for the watcher) inlined, local
    # aliases (`mode = data[0]`) written out
    fn0 = c.methods["_handle_read"][1]
    if any(isinstance(n, ast.Attribute) and n.attr == "get"
           for n in ast.walk(fn0)):
        # handlers picked from a class-level table by the report's mode
        from ..unroll import expand_table_lookups, class_table_resolver
        from ..normal import normalise as _norm
        fx = _acp(_norm(fn0, world, HID, c, inline=False, aliases=True))
        rt_, nn_ = class_table_resolver(world, c, HID)
        if expand_table_lookups(fx, rt_, nn_):
            ast.fix_missing_locations(fx)
            fn0 = fx
    fn = _acp(_expand(world, c, fn0, aliases="params"))
    _dds(fn)
    ast.fix_missing_locations(fn)
    fn = _astq.propagate(fn)
    Q = HID + ".tridonic._handle_read"
    cfg = CFG(fn, may_raise=lambda n: False, name=Q)
    W = forward_worlds(cfg, kill_conds_on_assign, cond_edge_transfer())
    p = fn.args.args[1].arg
    apps = [n for n in cfg.reachable if n.kind == "stmt" and n.ast is not
            None and "self._bus_watch_data.append(%s)" % p in unparse(n.ast)]
    run.floor("reports queued for the bus watcher", len(apps), 1)
    # the condition under which a report is queued, as a formula over the
    # report's mode byte (class constants folded)
    from .. import pred
    from ..fold import Folder, UNKNOWN
    from ..pathcond import path_conds
    folder = Folder(world)

    def lin(e):
        if isinstance(e, ast.Constant) and type(e.value) is int:
            return pred.Lin.const(e.value)
        if unparse(e) == "%s[0]" % p:
            return pred.Lin.sym("mode")
        if isinstance(e, ast.Attribute) and isinstance(
                e.value, ast.Name) and e.value.id == "self":
            v = folder.class_attr(c, e.attr)
            if type(v) is int:
                return pred.Lin.const(v)
        return None
    P = pred.Parser(lin)

    def tree(t):
        try:
            return P.tree(t)
        except pred.Unrecognised:
            return ("atom", ("p", unparse(t, 200), True))
    mo = folder.class_attr(c, "_MODE_OBSERVE")
    mr = folder.class_attr(c, "_MODE_RESPONSE")
    if type(mo) is not int or type(mr) is not int:
        raise AnalysisError("tridonic mode constants do not fold")

    def eq(k):
        return ("and", [("atom", ("le", "mode", "0", -k)),
                        ("atom", ("le", "0", "mode", k))])
    want = pred.dnf(("or", [eq(mo), eq(mr)]))
    got = frozenset()
    bad = None
    for n in apps:
        d = path_conds(cfg, n, tree, what="R-FEED")
        for conj in d:
            for a_ in conj:
                if a_[0] == "p":
                    # anything but the mode byte deciding whether the report
                    # reaches the watcher (the sequence number, the report
                    # type: the framing-error status travels in an INFO
                    # report)
                    bad = a_[1]
        got = pred.union(got, frozenset(
            frozenset(a_ for a_ in conj if a_[0] == "le") for conj in d))
    same = pred.equivalent(got, want)[0]
    run.ob("R-FEED", Q + "#all-reports-queued", same and bad is None,
           "reports are queued for the watcher when %s%s; every report "
           "in observe or response mode must be queued - a frame sent by "
           "another master that the gateway reports under a finished "
           "sequence number would otherwise never be reported" % (
               pred.show(got) or "never",
               (" and only when `%s`" % bad) if bad else ""),
           where(mod, fn))
    _check_report_fifo(run, world, mod, c)
    # framing-error field in _bus_watch: byte 3 of the report's frame field
    from ..drv import expand_method
    bfn = expand_method(world, c, c.methods["_bus_watch"][1],
                        aliases="params")
    B = HID + ".tridonic._bus_watch"
    fmt = None
    for (nm, e, st) in c.attr_order:
        if nm == "_resptmpl" and isinstance(e, ast.Call) and e.args and \
                isinstance(e.args[0], ast.Constant):
            fmt = e.args[0].value
    if fmt is None:
        raise AnalysisError("tridonic._resptmpl format not found")
    frame_off = struct.calcsize(">BB")
    msgvar = rawvar = None
    for n in ast.walk(bfn):
        if isinstance(n, ast.Assign) and isinstance(n.value, ast.Call):
            if unparse(n.value.func) in ("self._bus_watch_data.pop",
                                         "self._bus_watch_data.popleft"):
                msgvar = unparse(n.targets[0])
            if unparse(n.value.func) == "self._resptmpl.unpack" and \
                    isinstance(n.targets[0], ast.Tuple) and len(
                        n.targets[0].elts) == 5:
                rawvar = unparse(n.targets[0].elts[2])
    tests = []
    for n in ast.walk(bfn):
        if isinstance(n, ast.Compare) and len(n.ops) == 1 and unparse(
                n.comparators[0]) == "self._BUS_STATUS_FRAMING_ERROR":
            tests.append(n.left)
    if not tests:
        raise AnalysisError("%s: framing-error test not found" % B)
    ok = True
    for t in tests:
        good = isinstance(t, ast.Subscript) and isinstance(
            t.slice, ast.Constant) and (
            (unparse(t.value) == msgvar and t.slice.value == frame_off + 3)
            or (unparse(t.value) == rawvar and t.slice.value == 3))
        ok = ok and good
    run.ob("R-FEED", B + "#framing-error-field", ok,
           "the framing-error status must be byte 3 of the current report's "
           "frame field (%s[%d] or %s[3]); the test reads %s" % (
               msgvar, frame_off + 3, rawvar, [unparse(t) for t in tests]),
           where(mod, bfn))


def _only_called_from(world, modname, meth, caller):
    """every call `<x>.<meth>(...)` in the module's methods sits in a method
    named `caller`"""
    n = 0
    for (c, name, kind, f2) in methods_of(world, modname):
        for x in ast.walk(f2):
            if isinstance(x, ast.Call) and isinstance(
                    x.func, ast.Attribute) and x.func.attr == meth:
                n += 1
                if name != caller:
                    return False
    return n > 0



def _check_report_fifo(run, world, mod, c):
    """R-FEED #oldest-report-first: the reports queued by the read handler
    reach the watcher in the order they arrived.  The container the driver
    builds (a list or a collections.deque), the end the handler adds at and
    the end the watcher takes from are read from the class; only the pairs
    (append, pop(0)) on a list and (append, popleft()) / (appendleft, pop())
    on a deque (or insert(0, x) / pop() on a list) are first-in first-out.
    With two reports queued before the watcher runs - a query and its answer,
    an ENABLE DEVICE TYPE and the command it applies to - any other pair
    hands them over newest first."""
    Qn = "self._bus_watch_data"
    kinds, adds, takes = set(), [], []
    for name, (kind, f) in c.methods.items():
        for n in ast.walk(f):
            if isinstance(n, ast.Assign) and any(
                    unparse(t) == Qn for t in n.targets):
                v = n.value
                if isinstance(v, ast.List) and not v.elts or (
                        isinstance(v, ast.Call) and unparse(v.func) == "list"
                        and not v.args):
                    kinds.add("list")
                elif isinstance(v, ast.Call) and unparse(v.func) in (
                        "collections.deque", "deque") and not v.args and \
                        not v.keywords:
                    kinds.add("deque")
                else:
                    kinds.add("?" + unparse(v, 60))
            if isinstance(n, ast.Call) and isinstance(
                    n.func, ast.Attribute) and unparse(n.func.value) == Qn:
                a = n.func.attr
                if a in ("append", "appendleft", "insert", "extend",
                         "extendleft"):
                    adds.append((a, n))
                elif a in ("pop", "popleft"):
                    takes.append((a, n))
    if not adds or not takes or not kinds:
        raise AnalysisError("R-FEED: the report queue %s is not built, "
                            "filled and emptied in a form the rule reads "
                            "(%s / %s / %s)" % (Qn, sorted(kinds), [
                                a for a, _ in adds], [a for a, _ in takes]))
    if any(k.startswith("?") for k in kinds) or len(kinds) != 1:
        raise AnalysisError("R-FEED: the report queue %s is built as %s; "
                            "the rule reads an empty list or an empty "
                            "collections.deque" % (Qn, sorted(kinds)))
    kind = next(iter(kinds))

    def add_end(a, n):
        if a == "append":
            return "right"
        if a == "appendleft" and kind == "deque":
            return "left"
        if a == "insert" and kind == "list" and len(n.args) == 2 and \
                isinstance(n.args[0], ast.Constant) and n.args[0].value == 0:
            return "left"
        return None

    def take_end(a, n):
        if a == "popleft" and kind == "deque" and not n.args:
            return "left"
        if a == "pop" and not n.args:
            return "right"
        if a == "pop" and kind == "list" and len(n.args) == 1 and isinstance(
                n.args[0], ast.Constant) and n.args[0].value == 0:
            return "left"
        if a == "pop" and kind == "list" and len(n.args) == 1 and isinstance(
                n.args[0], ast.UnaryOp) and unparse(n.args[0]) == "-1":
            return "right"
        return None
    ae = {add_end(a, n) for a, n in adds}
    te = {take_end(a, n) for a, n in takes}
    if None in ae or None in te:
        raise AnalysisError("R-FEED: %s is filled with %s and emptied with "
                            "%s on a %s; not forms whose end the rule knows"
                            % (Qn, [unparse(n, 60) for _, n in adds],
                               [unparse(n, 60) for _, n in takes], kind))
    ok = len(ae) == 1 and len(te) == 1 and ae != te
    run.ob("R-FEED", HID + ".tridonic#oldest-report-first", ok,
           "reports are added at the %s end of the %s %s (`%s`) and taken "
           "from the %s end (`%s`): two reports queued before the watcher "
           "runs are handled newest first - a query is seen after its own "
           "answer, a device-type prefix after the command it belongs to" % (
               "/".join(sorted(ae)), kind, Qn, unparse(adds[0][1], 60),
               "/".join(sorted(te)), unparse(takes[0][1], 60)),
           where(mod, takes[0][1]))
