"""C05 - Frame as a fixed-width bit vector: R-FRAME-OWN, R-FRAME-VBM,
R-FRAME-EXC, R-FRAME-LANES (symbolic-width lane proofs), R-FRAME-VIEW."""
import ast
import json
import os

from ..core import AnalysisError, unparse, where, VERIF
from ..cfg import (CFG, explicit_raise_only, forward, forward_worlds,
                   _walk_no_nested, path_str)
from ..lanes import (Facts, LaneInterp, LaneAlg, BV, Seg, Lin, ones, INF)
from ..seq import cond_edge_transfer, kill_conds_on_assign

FR = "dali.frame"
W_ = Lin({"hi": 1, "lo": -1}, 1)         # hi + 1 - lo
LO, HI, BITS, KEY = Lin.sym("lo"), Lin.sym("hi"), Lin.sym("bits"), \
    Lin.sym("key")


def check(run, repo, world):
    run.explanation = (
        "(R-FRAME-LANES) the slice/bit arithmetic of Frame.__getitem__, "
        "__setitem__ and __add__ is abstractly interpreted in a symbolic "
        "bit-lane algebra (segments with end points linear in lo, hi, bits, "
        "key; order decided exactly from 0 <= lo <= hi <= bits-1 which "
        "_readslice establishes): reading [hi:lo] yields exactly data lanes "
        "lo..hi; writing keeps data on [0,lo) and (hi,bits), places value "
        "lanes 0..W-1 on lo..hi and nothing at or above `bits`; the fit "
        "guards reject exactly the values with a lane >= W (none below); "
        "bit set/clear touch lane key only; concatenation puts the left "
        "operand in the high lanes - proved for every width at once, "
        "without enumerating values.  (R-FRAME-VBM) every raise precedes "
        "every store in __setitem__, so a rejected operation leaves the "
        "frame unchanged.  (R-FRAME-EXC) guard -> exception class table vs "
        "the documented one.  (R-FRAME-OWN) _data/_bits/_error are written "
        "only by Frame's own methods.  (R-FRAME-VIEW) views read only "
        "_data/_bits and encode big-endian.  NOT decided: agreement with a "
        "list-of-bits model over arbitrary operation histories beyond the "
        "per-operation lane semantics (the invariant 0 <= data < 2^bits is "
        "shown to be preserved by each mutator, which is the inductive "
        "step).")
    run.assumptions += ["Python ints are unbounded; << >> & | ^ have their "
                        "mathematical meaning on non-negative ints",
                        "int.bit_length() > n  <=>  value >= 2^n"]
    mod = repo.mod(FR)
    c = world.cls(FR + ".Frame")
    _own(run, repo, world, mod, c)
    _readslice(run, mod, c)
    _getitem(run, mod, c)
    _setitem(run, mod, c)
    _init(run, mod, c)
    _add_contains_views(run, world, mod, c)
    _exc_table(run, mod, c)


# ---------------------------------------------------------------------------
def _own(run, repo, world, mod, c):
    run.rule("R-FRAME-OWN", "_data/_bits/_error of a Frame are assigned only "
             "by Frame.__init__ / __setitem__ (and _error by the error "
             "subclass)")
    fr_classes = [k for k in world.class_order if c in k.mro]
    allowed = {"_data": {"Frame.__init__", "Frame.__setitem__"},
               "_bits": {"Frame.__init__"},
               "_error": {"Frame.__init__", "BackwardFrameError.__init__"}}
    n = 0
    for mname, m in repo.modules.items():
        for node in ast.walk(m.tree):
            if not (isinstance(node, ast.Attribute) and isinstance(
                    node.ctx, (ast.Store, ast.Del)) and node.attr in allowed):
                continue
            # enclosing function / class
            fn = node
            while fn is not None and not isinstance(
                    fn, (ast.FunctionDef, ast.AsyncFunctionDef)):
                fn = getattr(fn, "_parent", None)
            cl = getattr(fn, "_parent", None) if fn is not None else None
            recv = unparse(node.value)
            if recv == "self" and isinstance(cl, ast.ClassDef):
                k = world.classes.get(mname + "." + cl.name)
                if k is None or c not in k.mro:
                    continue     # some other class's own _data
                n += 1
                who = "%s.%s" % (cl.name, fn.name)
                run.ob("R-FRAME-OWN", "%s#%s.%s" % (mname, who, node.attr),
                       who in allowed[node.attr],
                       "%s assigns self.%s of a Frame" % (who, node.attr),
                       where(m, node))
            elif recv != "self":
                n += 1
                run.ob("R-FRAME-OWN", "%s#%s.%s" % (mname, recv, node.attr),
                       False, "`%s.%s` is assigned from outside the object "
                       "(%s): a Frame's value can leave 0 <= value < 2^width "
                       "unchecked" % (recv, node.attr,
                                      fn.name if fn else "module level"),
                       where(m, node))
    run.floor("Frame state store sites", n, 5)


def _readslice(run, mod, c):
    run.rule("R-FRAME-LANES", "")
    fn = c.methods["_readslice"][1]
    t = ast.unparse(fn)
    asg = {unparse(n.targets[0]): unparse(n.value) for n in ast.walk(fn)
           if isinstance(n, ast.Assign)}
    rets = [unparse(n.value) for n in ast.walk(fn) if isinstance(
        n, ast.Return)]
    tests = {}
    for n in ast.walk(fn):
        if isinstance(n, ast.If):
            exc = [unparse(s.exc.func) for s in n.body if isinstance(
                s, ast.Raise) and isinstance(s.exc, ast.Call)]
            tests[unparse(n.test)] = exc[0] if exc else None
    ok = asg.get("hi") == "max(key.start, key.stop)" and asg.get("lo") == \
        "min(key.start, key.stop)" and rets == ["(hi, lo)"] and tests.get(
            "hi < 0 or lo < 0") == "IndexError" and tests.get(
            "hi >= self._bits or lo >= self._bits") == "IndexError" and \
        tests.get("not isinstance(key.start, int) or not isinstance("
                  "key.stop, int)") == "TypeError" and tests.get(
            "key.step not in (None, 1)") == "TypeError"
    run.ob("R-FRAME-LANES", FR + ".Frame._readslice#establishes-order", ok,
           "_readslice must return (max, min) of the integer indices and "
           "raise unless 0 <= lo <= hi <= bits-1 (either index order "
           "accepted, no step): tests %s" % tests, where(mod, fn),
           sample={"rule": "R-FRAME-LANES", "facts": "0<=lo<=hi<=bits-1",
                   "tests": tests})


def _branch(fn, kind):
    """Body of `if isinstance(key, slice)` / `elif isinstance(key, int)`."""
    for n in ast.walk(fn):
        if isinstance(n, ast.If) and unparse(n.test) == \
                "isinstance(key, %s)" % kind:
            return n
    raise AnalysisError("Frame.%s lost its isinstance(key, %s) branch"
                        % (fn.name, kind))


def _getitem(run, mod, c):
    fn = c.methods["__getitem__"][1]
    Q = FR + ".Frame.__getitem__"
    sl = _branch(fn, "slice")
    # hi, lo = self._readslice(key)
    okr = any(unparse(s) == "(hi, lo) = self._readslice(key)" or unparse(
        s) == "hi, lo = self._readslice(key)" for s in sl.body)
    env = {"self._data": BV([Seg(Lin.const(0), BITS, "data", Lin.const(0))])}
    syms = {"lo": LO, "hi": HI, "self._bits": BITS}
    facts = Facts("slice")
    li = LaneInterp(facts, dict(env), syms)
    ret = None
    for s in sl.body:
        if isinstance(s, ast.Assign) and isinstance(s.targets[0], ast.Name) \
                and unparse(s.value) != "self._readslice(key)":
            li.env[s.targets[0].id] = li.bv(s.value)
        if isinstance(s, ast.Return):
            ret = li.bv(s.value)
    want = BV([Seg(Lin.const(0), W_, "data", LO)])
    ok = okr and ret is not None and li.alg.equal(ret, want)
    run.ob("R-FRAME-LANES", Q + "#slice", ok,
           "reading [hi:lo] yields %r, expected exactly data lanes lo..hi "
           "at positions 0..hi-lo (%r)" % (ret, want), where(mod, sl),
           sample={"rule": "R-FRAME-LANES", "operation": "f[hi:lo]",
                   "result_lanes": repr(ret)})
    ib = _branch(fn, "int")
    rets = [s for s in ib.body if isinstance(s, ast.Return)]
    okb = False
    got = None
    if len(rets) == 1 and isinstance(rets[0].value, ast.Compare) and \
            isinstance(rets[0].value.ops[0], ast.NotEq) and unparse(
                rets[0].value.comparators[0]) == "0":
        li2 = LaneInterp(Facts("bit"), {"self._data": BV([Seg(
            Lin.const(0), BITS, "data", Lin.const(0))])},
            {"key": KEY, "self._bits": BITS})
        got = li2.bv(rets[0].value.left)
        okb = li2.alg.equal(got, BV([Seg(KEY, KEY + 1, "data", KEY)]))
    guard = any(isinstance(s, ast.If) and unparse(s.test) ==
                "key < 0 or key >= self._bits" and any(
                    isinstance(x, ast.Raise) and "IndexError" in unparse(x)
                    for x in s.body) for s in ib.body)
    run.ob("R-FRAME-LANES", Q + "#bit", okb and guard,
           "reading bit `key` must test exactly data lane key (got %r) "
           "after an IndexError range check" % got, where(mod, ib))


def _setitem(run, mod, c):
    fn = c.methods["__setitem__"][1]
    Q = FR + ".Frame.__setitem__"
    cfg = CFG(fn, may_raise=explicit_raise_only, name=Q)
    # ---- VBM: no raise reachable after a store; stores last -----------------
    run.rule("R-FRAME-VBM", "a rejected operation leaves the frame "
             "unchanged: no raise after a store; stores dominated by all "
             "guards")
    stores = [n for n in cfg.reachable if n.kind == "stmt" and isinstance(
        n.ast, ast.Assign) and unparse(n.ast.targets[0]) in (
            "self._data", "self._bits")]
    run.floor("Frame.__setitem__ store sites", len(stores), 3)
    for st in stores:
        bad = None
        seen, stack = set(), [m for (l, m) in st.succ]
        while stack:
            n = stack.pop()
            if n.id in seen:
                continue
            seen.add(n.id)
            if n.kind == "stmt" and isinstance(n.ast, ast.Raise):
                bad = n
            stack += [m for (l, m) in n.succ]
        run.ob("R-FRAME-VBM", "%s#no-raise-after-store@%s" % (
            Q, unparse(st.ast)[:40]), bad is None,
            "an exception can be raised after the frame was modified",
            where(mod, st))
    # ---- slice write: lanes ---------------------------------------------------
    sl = _branch(fn, "slice")
    facts = Facts("slice")
    env = {"self._data": BV([Seg(Lin.const(0), BITS, "data", Lin.const(0))]),
           "value": BV([Seg(Lin.const(0), W_, "value", Lin.const(0))])}
    syms = {"lo": LO, "hi": HI, "self._bits": BITS}
    li = LaneInterp(facts, dict(env), syms)
    final = None
    for s in sl.body:
        if isinstance(s, ast.Assign) and isinstance(s.targets[0], ast.Name) \
                and "self._readslice" not in unparse(s.value):
            li.env[s.targets[0].id] = li.bv(s.value)
        if isinstance(s, ast.Assign) and unparse(s.targets[0]) == \
                "self._data":
            final = li.bv(s.value)
    want = BV([Seg(Lin.const(0), LO, "data", Lin.const(0)),
               Seg(LO, HI + 1, "value", Lin.const(0)),
               Seg(HI + 1, BITS, "data", HI + 1)])
    ok = final is not None and li.alg.equal(final, want)
    run.ob("R-FRAME-LANES", Q + "#slice", ok,
           "writing [hi:lo] = value produces %r; expected data on [0,lo), "
           "value lanes 0..W-1 on [lo,hi], data on (hi,bits) and nothing "
           "else (%r)" % (final, want), where(mod, sl),
           sample={"rule": "R-FRAME-LANES", "operation": "f[hi:lo] = value",
                   "result_lanes": repr(final)})
    # ---- fit guards: which value lanes make a ValueError ---------------------
    covered = []        # lane intervals [a, b) of value that are rejected
    neg_guard = False
    type_guard = False
    unrec = []
    guards_before_store = True
    store_line = min([s.lineno for s in sl.body if isinstance(
        s, ast.Assign) and unparse(s.targets[0]) == "self._data"] or [0])
    for s in sl.body:
        if not isinstance(s, ast.If):
            continue
        exc = [unparse(x.exc.func) for x in s.body if isinstance(
            x, ast.Raise) and isinstance(x.exc, ast.Call)]
        if not exc:
            continue
        if s.lineno > store_line:
            guards_before_store = False
        t = s.test
        tt = unparse(t)
        if tt == "not isinstance(value, int)" and exc[0] == "TypeError":
            type_guard = True
            continue
        if tt in ("value < 0", "0 > value") and exc[0] == "ValueError":
            neg_guard = True
            continue
        if "value" not in tt:
            continue
        iv = _rejected_lanes(t, li, facts)
        if iv is None:
            unrec.append(tt)
        else:
            covered += iv
            if exc[0] != "ValueError":
                run.ob("R-FRAME-EXC", Q + "#fit-exception", False,
                       "an oversized value must raise ValueError, raises %s"
                       % exc[0], where(mod, s))
    if unrec:
        raise AnalysisError(
            "R-FRAME-LANES: fit test(s) %s in Frame.__setitem__ are outside "
            "the recognised forms (value.bit_length() > n, value >> n, "
            "value >= 1 << n, (value << k) & mask, value & mask)" % unrec)
    alg = LaneAlg(facts)
    need = BV([Seg(W_, INF, "ones")])
    cov = BV([Seg(a, b, "ones") for (a, b) in covered])
    missing = alg.minus(need, cov) if covered else need
    low = BV([Seg(Lin.const(0), W_, "ones")])
    too_much = not alg.disjoint(cov, low) if covered else False
    run.ob("R-FRAME-LANES", Q + "#fit-guard", not missing.segs and
           not too_much and neg_guard and type_guard and guards_before_store,
           "the guards before a slice write must reject exactly the values "
           "with a set bit at or above W = hi+1-lo (plus negatives and "
           "non-ints); value lanes %r are NOT rejected%s: such a value is "
           "written into lanes at or above the frame's width and the frame's "
           "value leaves 0 <= value < 2^width (neg-guard=%s type-guard=%s)"
           % (missing, " and legal lanes are rejected" if too_much else "",
              neg_guard, type_guard), where(mod, sl),
           sample={"rule": "R-FRAME-LANES", "operation": "fit guard",
                   "rejected_value_lanes": repr(cov)})
    # ---- bit write --------------------------------------------------------------
    ib = _branch(fn, "int")
    li2 = LaneInterp(Facts("bit"), {"self._data": BV([Seg(
        Lin.const(0), BITS, "data", Lin.const(0))])},
        {"key": KEY, "self._bits": BITS})
    setv = clrv = None
    for n in ast.walk(ib):
        if isinstance(n, ast.If) and unparse(n.test) == "value":
            for s in n.body:
                if isinstance(s, ast.Assign) and unparse(
                        s.targets[0]) == "self._data":
                    setv = li2.bv(s.value)
            for s in n.orelse:
                if isinstance(s, ast.Assign) and unparse(
                        s.targets[0]) == "self._data":
                    clrv = li2.bv(s.value)
    want_set = BV([Seg(Lin.const(0), KEY, "data", Lin.const(0)),
                   Seg(KEY, KEY + 1, "ones"),
                   Seg(KEY + 1, BITS, "data", KEY + 1)])
    want_clr = BV([Seg(Lin.const(0), KEY, "data", Lin.const(0)),
                   Seg(KEY + 1, BITS, "data", KEY + 1)])
    guard = any(isinstance(s, ast.If) and unparse(s.test) ==
                "key < 0 or key >= self._bits" and any(
                    isinstance(x, ast.Raise) and "IndexError" in unparse(x)
                    for x in s.body) for s in ib.body)
    run.ob("R-FRAME-LANES", Q + "#bit-set", setv is not None and
           li2.alg.equal(setv, want_set) and guard,
           "setting bit key gives %r, expected %r" % (setv, want_set),
           where(mod, ib))
    run.ob("R-FRAME-LANES", Q + "#bit-clear", clrv is not None and
           li2.alg.equal(clrv, want_clr) and guard,
           "clearing bit key gives %r, expected %r" % (clrv, want_clr),
           where(mod, ib),
           sample={"rule": "R-FRAME-LANES", "operation": "f[key] = False",
                   "result_lanes": repr(clrv)})


def _rejected_lanes(test, li, facts):
    """Value lanes whose being set makes `test` true, as [(a, b)] or None if
    the form is not recognised."""
    def lin(e):
        return li.lin(e)
    if isinstance(test, ast.Compare) and len(test.ops) == 1:
        l, op, r = test.left, test.ops[0], test.comparators[0]
        # value.bit_length() > n
        if unparse(l) == "value.bit_length()" and isinstance(op, ast.Gt):
            n = lin(r)
            if n is not None:
                return [(n, INF)]
        if unparse(l) == "value.bit_length()" and isinstance(op, ast.GtE):
            n = lin(r)
            if n is not None:
                return [(n - 1, INF)]
        # value >= 1 << n ; value > (1 << n) - 1
        if unparse(l) == "value" and isinstance(op, ast.GtE) and isinstance(
                r, ast.BinOp) and isinstance(r.op, ast.LShift) and unparse(
                    r.left) == "1":
            n = lin(r.right)
            if n is not None:
                return [(n, INF)]
        if unparse(l) == "value" and isinstance(op, ast.Gt) and isinstance(
                r, ast.BinOp) and isinstance(r.op, ast.Sub) and unparse(
                    r.right) == "1" and isinstance(
                        r.left, ast.BinOp) and isinstance(
                            r.left.op, ast.LShift) and unparse(
                                r.left.left) == "1":
            n = lin(r.left.right)
            if n is not None:
                return [(n, INF)]
        if isinstance(op, ast.NotEq) and unparse(r) == "0":
            return _rejected_lanes(l, li, facts)
    # truthiness of an expression in value
    if isinstance(test, ast.BinOp):
        if isinstance(test.op, ast.RShift) and unparse(test.left) == "value":
            n = lin(test.right)
            if n is not None:
                return [(n, INF)]
        if isinstance(test.op, ast.BitAnd):
            # (value << k) & mask  or  value & mask
            for (a, b) in ((test.left, test.right), (test.right, test.left)):
                k = None
                if unparse(a) == "value":
                    k = Lin.const(0)
                elif isinstance(a, ast.BinOp) and isinstance(
                        a.op, ast.LShift) and unparse(a.left) == "value":
                    k = lin(a.right)
                if k is None:
                    continue
                try:
                    m = li.bv(b)
                except AnalysisError:
                    return None
                if not all(s.src == "ones" for s in m.segs):
                    return None
                out = []
                for s in m.segs:
                    # mask lanes [a,b) correspond to value lanes [a-k, b-k)
                    lo_ = s.a - k
                    inf = isinstance(s.b, str)
                    hi_ = s.b if inf else s.b - k
                    if (not inf) and facts.le(hi_, 0):
                        continue
                    if not facts.le(0, lo_):
                        lo_ = Lin.const(0) if facts.le(lo_, 0) else None
                        if lo_ is None:
                            return None
                    out.append((lo_, hi_))
                return out
    return None


def _init(run, mod, c):
    fn = c.methods["__init__"][1]
    Q = FR + ".Frame.__init__"
    tests = {}
    for n in ast.walk(fn):
        if isinstance(n, ast.If):
            exc = [unparse(s.exc.func) for s in n.body if isinstance(
                s, ast.Raise) and isinstance(s.exc, ast.Call)]
            if exc:
                tests[unparse(n.test)] = exc[0]
    ok = tests.get("not isinstance(bits, int)") == "TypeError" and \
        tests.get("bits < 1") == "ValueError" and \
        tests.get("self._data < 0") == "ValueError" and \
        tests.get("self._data.bit_length() > bits") == "ValueError"
    conv = "self._data = int.from_bytes(data, 'big')" in ast.unparse(fn)
    run.ob("R-FRAME-LANES", Q + "#invariant-established", ok and conv,
           "construction must establish 1 <= bits and 0 <= data < 2^bits "
           "(big-endian for byte sequences): guards %s" % tests,
           where(mod, fn))
    # subclasses that override __init__ go through it
    for k in c.world.class_order:
        if c in k.mro and k is not c and "__init__" in k.methods:
            f2 = k.methods["__init__"][1]
            run.ob("R-FRAME-LANES", k.qname + ".__init__#via-base",
                   any("super().__init__(" in unparse(s) for s in f2.body),
                   "Frame subclass constructor bypasses the validating base "
                   "constructor", where(mod, f2), trivial=True)


def _add_contains_views(run, world, mod, c):
    run.rule("R-FRAME-VIEW", "views read only _data/_bits and are the "
             "big-endian encodings of the same number; equality = same "
             "width and bits")
    fn = c.methods["__add__"][1]
    Q = FR + ".Frame.__add__"
    call = None
    for n in ast.walk(fn):
        if isinstance(n, ast.Call) and unparse(n.func) == "Frame" and len(
                n.args) == 2:
            call = n
    ok = False
    got = None
    if call is not None:
        A, B = Lin.sym("a"), Lin.sym("b")
        li = LaneInterp(Facts("add"), {
            "self._data": BV([Seg(Lin.const(0), A, "data", Lin.const(0))]),
            "other._data": BV([Seg(Lin.const(0), B, "other", Lin.const(0))])},
            {"self._bits": A, "other._bits": B})
        width = li.lin(call.args[0])
        got = li.bv(call.args[1])
        want = BV([Seg(Lin.const(0), B, "other", Lin.const(0)),
                   Seg(B, A + B, "data", Lin.const(0))])
        ok = width == A + B and li.alg.equal(got, want)
    run.ob("R-FRAME-LANES", Q, ok,
           "concatenation must give width a+b with the right operand on "
           "lanes [0,b) and the left operand on [b,a+b); got %r" % got,
           where(mod, fn),
           sample={"rule": "R-FRAME-LANES", "operation": "f + g",
                   "result_lanes": repr(got)})
    hs = [unparse(h.type) for n in ast.walk(fn) if isinstance(n, ast.Try)
          for h in n.handlers if h.type is not None]
    run.ob("R-FRAME-EXC", Q + "#TypeError", "Exception" in hs and
           "raise TypeError" in ast.unparse(fn),
           "adding a non-frame must raise TypeError", where(mod, fn))
    cf = c.methods["__contains__"][1]
    t = ast.unparse(cf)
    run.ob("R-FRAME-VIEW", FR + ".Frame.__contains__",
           "if item is True:\n        return self._data != 0" in t and
           "if item is False:\n        return self._data != (1 << self._bits)"
           " - 1" in t and t.rstrip().endswith("return False"),
           "True in f <=> some bit set; False in f <=> some bit clear",
           where(mod, cf))
    want = {
        "as_integer": ["self._data"],
        "as_byte_sequence": ["list(self.pack)"],
        "pack": ["self._data.to_bytes(len(self) // 8 + (1 if len(self) % 8 "
                 "else 0), 'big')"],
        "pack_len": ["self._data.to_bytes(l, 'big')"],
        "__len__": ["self._bits"],
        "__eq__": ["self._bits == other._bits and self._data == other._data",
                   "False"],
        "__ne__": ["self._bits != other._bits or self._data != other._data",
                   "True"],
    }
    for name, rets in want.items():
        f2 = c.methods[name][1]
        got = [unparse(n.value, 200) for n in ast.walk(f2) if isinstance(
            n, ast.Return) and n.value is not None]
        run.ob("R-FRAME-VIEW", "%s.Frame.%s" % (FR, name), got == rets,
               "%s returns %s, expected %s" % (name, got, rets),
               where(mod, f2))
    # views do not write
    for name in list(want) + ["__getitem__", "__contains__", "__add__",
                              "__str__", "_readslice"]:
        f2 = c.methods[name][1]
        w = [unparse(n) for n in ast.walk(f2) if isinstance(
            n, ast.Attribute) and isinstance(n.ctx, (ast.Store, ast.Del))]
        run.ob("R-FRAME-VIEW", "%s.Frame.%s#read-only" % (FR, name), not w,
               "%s modifies %s" % (name, w), where(mod, f2), trivial=True)


def _exc_table(run, mod, c):
    run.rule("R-FRAME-EXC", "guard -> exception class table == documented "
             "table")
    spec = json.load(open(os.path.join(VERIF, "spec",
                                       "frame_exceptions.json")))

    def raises_in(node):
        out = {}
        for n in ast.walk(node):
            if isinstance(n, ast.If):
                exc = [unparse(s.exc.func if isinstance(s.exc, ast.Call)
                               else s.exc) for s in n.body if isinstance(
                                   s, ast.Raise) and s.exc is not None]
                if exc:
                    out[unparse(n.test)] = exc[0]
        return out
    g = c.methods["__getitem__"][1]
    s = c.methods["__setitem__"][1]
    gi = raises_in(_branch(g, "int"))
    si_ = raises_in(_branch(s, "int"))
    ss = raises_in(_branch(s, "slice"))
    final_g = [unparse(x) for x in g.body if isinstance(x, ast.Raise)]
    # the trailing `raise TypeError` of __getitem__ and the else-branch of
    # __setitem__
    tg = ast.unparse(g).rstrip().endswith("raise TypeError")
    ts = ast.unparse(s).rstrip().endswith("raise TypeError")
    got = {
        "__getitem__": {
            "int out of range": gi.get("key < 0 or key >= self._bits"),
            "other key type": "TypeError" if tg else None},
        "__setitem__": {
            "value not int": ss.get("not isinstance(value, int)"),
            "value too big": ss.get("value.bit_length() > hi + 1 - lo"),
            "value negative": ss.get("value < 0"),
            "int out of range": si_.get("key < 0 or key >= self._bits"),
            "other key type": "TypeError" if ts else None},
    }
    for meth, tab in got.items():
        for what, exc in tab.items():
            want = spec[meth][what]
            if what == "value too big" and exc is None:
                # another recognised fit form: take whatever exception the
                # (lane-verified) fit guard raises
                for k, v in ss.items():
                    if "value" in k and k not in (
                            "not isinstance(value, int)", "value < 0"):
                        exc = v
            run.ob("R-FRAME-EXC", "%s.Frame.%s#%s" % (FR, meth, what),
                   exc == want, "%s: %s raises %s, documented %s" % (
                       meth, what, exc, want), where(mod, c.node),
                   sample={"rule": "R-FRAME-EXC", "method": meth,
                           "case": what, "raises": exc}
                   if what == "value too big" else None)
