"""C05 - Frame as a fixed-width bit vector: R-FRAME-OWN, R-FRAME-VBM,
R-FRAME-EXC, R-FRAME-LANES (symbolic-width lane proofs), R-FRAME-VIEW."""
import ast
import json
import os

from ..core import AnalysisError, unparse, where, VERIF
from ..cfg import (CFG, explicit_raise_only, forward, forward_worlds,
                   _walk_no_nested, path_str)
from ..lanes import (Facts, LaneInterp, LaneAlg, BV, Seg, Lin, ones, INF)
from ..seq import cond_edge_transfer, kill_conds_on_assign
from .. import pred, paths
from ..normal import normalise
from ..inline import acopy

FR = "dali.frame"
W_ = Lin({"hi": 1, "lo": -1}, 1)         # hi + 1 - lo
LO, HI, BITS, KEY = Lin.sym("lo"), Lin.sym("hi"), Lin.sym("bits"), \
    Lin.sym("key")


def check(run, repo, world):
    run.explanation = (
        "Frame's methods are normalised (helper calls inlined) and reduced "
        "to path summaries.  (R-FRAME-LANES / R-FRAME-EXC) for each method "
        "and key kind the union of the conditions of the paths raising E is "
        "shown equivalent - as a formula over difference constraints and "
        "propositions, decided exactly - to the documented illegal region of "
        "class E, separately for key.start >= key.stop and key.stop > "
        "key.start; the effect of every completing path is evaluated in a "
        "symbolic bit-lane algebra (segments with end points linear in lo, "
        "hi, bits, key; order decided from the path's own facts): reading "
        "[hi:lo] yields exactly data lanes lo..hi; writing keeps data on "
        "[0,lo) and (hi,bits), places value lanes 0..W-1 on lo..hi and "
        "nothing at or above `bits`; bit set/clear touch lane key only; "
        "concatenation puts the left operand in the high lanes - proved for "
        "every width at once, without enumerating values.  (R-FRAME-VBM) no "
        "path raises after a store and the width is never stored.  "
        "(R-FRAME-OWN) _data/_bits/_error are written only by Frame's own "
        "methods.  (R-FRAME-VIEW) as_integer/pack/pack_len/as_byte_sequence "
        "denote the same number big-endian with ceil(width/8) bytes for "
        "every width (residue classes), equality is same width and same "
        "bits (formula equivalence), membership tests all `width` lanes.  "
        "NOT decided: agreement with a list-of-bits model over arbitrary "
        "operation histories beyond the per-operation semantics (0 <= data "
        "< 2^bits is shown preserved by each mutator: the inductive step).")
    run.assumptions += ["Python ints are unbounded; << >> & | ^ have their "
                        "mathematical meaning on non-negative ints",
                        "int.bit_length() > n  <=>  value >= 2^n"]
    mod = repo.mod(FR)
    c = world.cls(FR + ".Frame")
    run.rule("R-FRAME-VIEW", "views read only _data/_bits and are the "
             "big-endian encodings of the same number; equality = same "
             "width and bits")
    _own(run, repo, world, mod, c)
    run.rule("R-FRAME-LANES", "slice/bit arithmetic reads and writes exactly "
             "the stated lanes for every width; guards reject exactly the "
             "illegal inputs (formula equivalence over path summaries)")
    run.rule("R-FRAME-EXC", "each illegal input raises the documented "
             "exception class (spec/frame_exceptions.json)")
    _readslice_contract(run, world, mod, c)
    _nonint_operand_rejected(run, world, mod, c)
    _slice_modes(run, world, mod, c)
    _bit_modes(run, world, mod, c)
    _value_read_after_store(run, world, mod, c)
    _init(run, world, mod, c)
    _add_contains_views(run, world, mod, c)
    _other_operators(run, repo, world, mod, c)


# ---------------------------------------------------------------------------
_ARITH = ("add", "sub", "mul", "matmul", "truediv", "floordiv", "mod",
          "pow", "lshift", "rshift", "and", "or", "xor")


def _other_operators(run, repo, world, mod, c):
    """`frame + x` raises TypeError for every x that is not a frame
    (R-FRAME-EXC on __add__).  That stays true of `x + frame` and
    `frame += x` only while no reflected / in-place / further arithmetic
    operator of the Frame family hands back a result for a non-frame
    operand: every path of such a method that returns something other than
    NotImplemented has tested the operand to be a Frame."""
    run.rule("R-FRAME-OPS", "reflected / in-place / further arithmetic "
             "operators of the Frame family give a result only for a frame "
             "operand (else NotImplemented or an exception)")
    fam = [k for k in world.class_order if c in k.mro]
    names = {"__r%s__" % a for a in _ARITH} | {"__i%s__" % a for a in _ARITH} \
        | {"__%s__" % a for a in _ARITH if a != "add"}
    n = 0
    for k in fam:
        for name, (kind, fn) in k.methods.items():
            if name not in names:
                continue
            n += 1
            params = [a.arg for a in fn.args.args]
            other = params[1] if len(params) > 1 else None
            f2 = normalise(fn, world, k.mod, k, aliases="params")
            try:
                ps = paths.summaries(f2)
            except paths.Unsupported as e:
                raise AnalysisError("%s.%s: %s" % (k.qname, name, e))
            for p_ in ps:
                if p_.kind == "raise":
                    continue
                e = p_.expr if p_.kind == "return" else None
                if isinstance(e, ast.Name) and e.id == "NotImplemented":
                    continue
                tested = any(
                    b_ and isinstance(t_, ast.Call) and unparse(
                        t_.func) == "isinstance" and len(t_.args) == 2 and
                    unparse(t_.args[0]) == other and all(
                        (lambda kk: kk is not None and c in kk.mro)(
                            world.resolve_class(k.mod, x))
                        for x in (t_.args[1].elts if isinstance(
                            t_.args[1], ast.Tuple) else [t_.args[1]]))
                    for (t_, b_) in p_.conds)
                run.ob("R-FRAME-OPS", "%s.%s" % (k.qname, name), tested,
                       "%s.%s returns `%s` under %s without having tested "
                       "`%s` to be a Frame: an operand that is not a frame "
                       "no longer raises TypeError" % (
                           k.name, name,
                           unparse(e) if e is not None else "None",
                           [(unparse(t_, 50), b_) for (t_, b_) in p_.conds],
                           other), where(repo.mod(k.mod), fn))
    # expected count on the pinned tree is zero: a built-in positive example
    # keeps the path reading honest on every run (the stored variant
    # C05-r8-m1 exercises the whole rule in the thorough tier)
    ex = ast.parse("def __radd__(self, other):\n    if other == 0:\n"
                   "        return self\n    return NotImplemented\n"
                   ).body[0]
    exps = paths.summaries(ex)
    flagged = [p_ for p_ in exps if p_.kind == "return" and not (
        isinstance(p_.expr, ast.Name) and p_.expr.id == "NotImplemented")]
    if len(exps) != 2 or len(flagged) != 1:
        raise AnalysisError("R-FRAME-OPS: the built-in example is no longer "
                            "read as one result path and one declining path")
    run.analysed["other arithmetic operators in the Frame family"] = n


# ---------------------------------------------------------------------------
def _own(run, repo, world, mod, c):
    run.rule("R-FRAME-OWN", "_data/_bits/_error of a Frame are assigned only "
             "by Frame.__init__ / __setitem__ (and _error by the error "
             "subclass)")
    fr_classes = [k for k in world.class_order if c in k.mro]
    allowed = {"_data": {"Frame.__init__", "Frame.__setitem__"},
               "_bits": {"Frame.__init__"},
               "_error": {"Frame.__init__", "BackwardFrameError.__init__"}}
    n = 0
    for mname, m in repo.modules.items():
        for node in ast.walk(m.tree):
            if not (isinstance(node, ast.Attribute) and isinstance(
                    node.ctx, (ast.Store, ast.Del)) and node.attr in allowed):
                continue
            # enclosing function / class
            fn = node
            while fn is not None and not isinstance(
                    fn, (ast.FunctionDef, ast.AsyncFunctionDef)):
                fn = getattr(fn, "_parent", None)
            cl = getattr(fn, "_parent", None) if fn is not None else None
            recv = unparse(node.value)
            if recv == "self" and isinstance(cl, ast.ClassDef):
                k = world.classes.get(mname + "." + cl.name)
                if k is None or c not in k.mro:
                    continue     # some other class's own _data
                n += 1
                who = "%s.%s" % (cl.name, fn.name)
                if who not in allowed[node.attr] and fn.name.startswith(
                        "_") and not fn.name.startswith("__"):
                    # a private helper that only the allowed writers call
                    # (the slice arm of __setitem__ moved into a method of
                    # its own) writes on their behalf
                    callers = set()
                    for m2, mm in repo.modules.items():
                        for x in ast.walk(mm.tree):
                            if isinstance(x, ast.Call) and isinstance(
                                    x.func, ast.Attribute) and \
                                    x.func.attr == fn.name:
                                f2 = x
                                while f2 is not None and not isinstance(
                                        f2, (ast.FunctionDef,
                                             ast.AsyncFunctionDef)):
                                    f2 = getattr(f2, "_parent", None)
                                c2 = getattr(f2, "_parent", None) \
                                    if f2 is not None else None
                                callers.add("%s.%s" % (
                                    c2.name if isinstance(
                                        c2, ast.ClassDef) else "?",
                                    f2.name if f2 is not None else "?"))
                    if callers and callers <= allowed[node.attr]:
                        who = sorted(callers)[0]
                run.ob("R-FRAME-OWN", "%s#%s.%s" % (mname, who, node.attr),
                       who in allowed[node.attr],
                       "%s assigns self.%s of a Frame" % (who, node.attr),
                       where(m, node))
            elif recv != "self":
                n += 1
                run.ob("R-FRAME-OWN", "%s#%s.%s" % (mname, recv, node.attr),
                       False, "`%s.%s` is assigned from outside the object "
                       "(%s): a Frame's value can leave 0 <= value < 2^width "
                       "unchecked" % (recv, node.attr,
                                      fn.name if fn else "module level"),
                       where(m, node))
    run.floor("Frame state store sites", n, 5)
    # a frame's value lives in the frame: no method of the Frame family
    # writes to anything shared between frames (a class-level memo of checked
    # slices answers for a frame of another width)
    from ..seq import shared_state_writes
    nm = 0
    for k in fr_classes:
        km = repo.mod(k.mod)
        for mn, (kind, f) in sorted(k.methods.items()):
            nm += 1
            bad = shared_state_writes(world, k, f)
            run.ob("R-FRAME-OWN", "%s.%s#nothing-shared" % (k.qname, mn),
                   not bad, "%s.%s writes to state shared between frames "
                   "(%s): what one frame accepts or returns then depends on "
                   "the frames handled before it" % (
                       k.qname, mn, "; ".join(bad[:3])), where(km, f))
    run.floor("Frame family methods examined for shared writes", nm, 15)


# ---------------------------------------------------------------------------
# guards: `if T: raise E` statements as formulas (pred.py)
def _exc_name(r):
    e = r.exc
    if e is None:
        return None
    if isinstance(e, ast.Call):
        e = e.func
    if isinstance(e, ast.Name):
        # module-level exception objects: _bad_frame_length etc. not used here
        return e.id
    return unparse(e)


def _guards(stmts):
    """[(test ast, exception name, stmt)] for the `if T: raise E` statements
    of a statement list, in order; a top-level `or` is split into one guard
    per operand; `elif` chains of raising guards are followed."""
    out = []

    def add(test, exc, st):
        if isinstance(test, ast.BoolOp) and isinstance(test.op, ast.Or):
            for v in test.values:
                add(v, exc, st)
        else:
            out.append((test, exc, st))
    for st in stmts:
        cur = st
        while isinstance(cur, ast.If) and cur.body and isinstance(
                cur.body[-1], ast.Raise) and len(cur.body) == 1:
            add(cur.test, _exc_name(cur.body[0]), cur)
            if len(cur.orelse) == 1 and isinstance(cur.orelse[0], ast.If):
                cur = cur.orelse[0]
            else:
                break
    return out


def _canon_prop(e):
    """Canonical text of the opaque propositions the guards use."""
    t = unparse(e, 200).replace("len(self)", "self._bits")
    if isinstance(e, ast.Call) and unparse(e.func) == "isinstance" and \
            len(e.args) == 2:
        return "isinstance(%s, %s)" % (unparse(e.args[0], 200).replace(
            "len(self)", "self._bits"), unparse(e.args[1]))
    return t


def _check_guard_table(run, Q, guards, cases, parser, hyp, mod, node,
                       what="input", extra=None):
    """guards: [(test, exc, stmt)], cases: [(name, expected DNF, exception)].
    (i) the union of the guards rejects exactly the union of the cases;
    (ii) a guard raising E fires only where a case of class E applies.
    `extra`: [(dnf, exc, stmt)] guards already classified elsewhere."""
    gd = []
    for (t, exc, st) in guards:
        gd.append((parser.dnf(t), exc, st))
    gd += extra or []
    vocab = set()
    for (_, d, _) in cases:
        for c in d:
            vocab |= {a[1] for a in c if a[0] == "p"}
    for (d, exc, st) in gd:
        for c in d:
            for a in c:
                if a[0] == "p" and a[1] not in vocab and not (
                        a[1].endswith(" == key.step") or
                        a[1].startswith("key.step == ") or
                        a[1] in ("key.step", "bool(key.step)") or
                        a[1].startswith("value has a bit in lanes") or
                        " >= 2**(" in a[1]):
                    import re as _re
                    if _re.match(r"^[\w.]+ > \(?(1 << |2 \*\* )", a[1]):
                        # `x > 2**n` rejects from 2**n + 1 on: the value
                        # 2**n itself (n + 1 bits) passes the fit test
                        run.ob("R-FRAME-LANES", Q + "#rejects-exactly",
                               False,
                               "the fit test `%s` lets the value 2**n "
                               "through, which needs n + 1 bits: the "
                               "documented test is `>= 2**n` (bit_length "
                               "> n)" % a[1], where(mod, st))
                        return
                    if _re.search(r"\bself\s*\[|\bself\._data\b|"
                                  r"\bself\.(as_integer|pack|"
                                  r"as_byte_sequence)\b", a[1]):
                        # the documented illegal inputs are a function of
                        # key, value and width alone: a guard whose firing
                        # depends on what the frame holds rejects (or lets
                        # through) different inputs for different contents
                        run.ob("R-FRAME-LANES", Q + "#rejects-exactly",
                               False,
                               "whether the guard `%s` fires depends on the "
                               "frame's contents (`%s`): the documented "
                               "illegal %ss depend on key, value and width "
                               "only, so some contents let an illegal %s "
                               "through or reject a legal one" % (
                                   unparse(st.test, 100), a[1], what, what),
                               where(mod, st))
                        return
                    raise AnalysisError(
                        "%s: guard `%s` uses a test outside the recognised "
                        "vocabulary (%s)" % (Q, unparse(st.test, 100), a[1]))
    allg = pred.union(*[d for (d, _, _) in gd]) if gd else frozenset()
    allc = pred.union(*[d for (_, d, _) in cases])
    ok, w = pred.equivalent(allg, allc, hyp)
    run.ob("R-FRAME-LANES", Q + "#rejects-exactly", ok,
           "the guards reject `%s` but the documented illegal %ss are `%s`: "
           "%s `%s`" % (pred.show(allg), what, pred.show(allc),
                        w[0] if w else "", pred.show(w[1]) if w else ""),
           where(mod, node),
           sample={"rule": "R-FRAME-LANES", "guards": pred.show(allg),
                   "documented": pred.show(allc)})
    for (name, d, exc) in cases:
        mine = pred.union(*[g for (g, e, _) in gd if e == exc]) \
            if any(e == exc for (_, e, _) in gd) else frozenset()
        others = pred.union(*[x for (n2, x, e2) in cases if e2 != exc]) \
            if any(e2 != exc for (_, _, e2) in cases) else frozenset()
        ok, w = pred.implies(d, pred.union(mine, others), hyp)
        run.ob("R-FRAME-EXC", "%s#%s" % (Q, name), ok,
               "%s: case `%s` must raise %s; not covered by a guard raising "
               "it when %s" % (Q, name, exc, pred.show(w) if w else ""),
               where(mod, node),
               sample={"rule": "R-FRAME-EXC", "case": name, "raises": exc}
               if name in ("value negative", "beyond width") else None)
    for (d, exc, st) in gd:
        mine = pred.union(*[x for (_, x, e2) in cases if e2 == exc]) \
            if any(e2 == exc for (_, _, e2) in cases) else frozenset()
        ok, w = pred.implies(d, mine, hyp)
        run.ob("R-FRAME-EXC", "%s#guard:%s" % (Q, pred.show(d)), ok,
               "guard `%s` raises %s although no %s-class fault is present "
               "when %s" % (unparse(st.test, 100), exc, exc,
                            pred.show(w) if w else ""), where(mod, st),
               trivial=True)


def _spec():
    return json.load(open(os.path.join(VERIF, "spec",
                                       "frame_exceptions.json")))


class PFacts:
    """Ordering oracle for the lane algebra from a conjunction of
    difference constraints (the path's own validated conditions)."""

    def __init__(self, atoms):
        self.atoms = [a for a in atoms if a[0] == "le"]

    def nonneg(self, f):
        f = f if isinstance(f, Lin) else Lin.const(f)
        if f.is_const():
            return f.k >= 0
        try:
            a = pred._atom_from_lin(f + 1)     # f <= -1
        except pred.Unrecognised:
            return False
        return not pred.sat([a], self.atoms)

    def le(self, a, b):
        if isinstance(b, str) and b == INF:
            return True
        if isinstance(a, str) and a == INF:
            return False
        return self.nonneg(_L(b) - _L(a))

    def lt(self, a, b):
        if isinstance(a, str) and a == INF:
            return False
        if isinstance(b, str) and b == INF:
            return True
        return self.nonneg(_L(b) - _L(a) - 1)


def _L(x):
    return x if isinstance(x, Lin) else Lin.const(x)


SLICE_SYMS = {"self._bits": "bits", "len(self)": "bits",
              "max(key.start, key.stop)": "hi",
              "max(key.stop, key.start)": "hi",
              "min(key.start, key.stop)": "lo",
              "min(key.stop, key.start)": "lo", "hi": "hi", "lo": "lo",
              "bits": "bits"}
LEGAL_SLICE = [("le", pred.ZERO, "lo", 0), ("le", "lo", "hi", 0),
               ("le", "hi", "bits", 1)]
LEGAL_KEY = [("le", pred.ZERO, "key", 0), ("le", "key", "bits", 1)]


def _fit_bound(e, lin, var_ok):
    """n if test e is a recognised spelling of `<var> >= 2**n`."""
    if isinstance(e, ast.Compare) and len(e.ops) == 1:
        l, op, r = e.left, e.ops[0], e.comparators[0]
        if isinstance(l, ast.Call) and isinstance(
                l.func, ast.Attribute) and l.func.attr == "bit_length" \
                and var_ok(l.func.value):
            n = lin(r)
            if n is not None and isinstance(op, ast.Gt):
                return unparse(l.func.value, 200), n
            if n is not None and isinstance(op, ast.GtE):
                return unparse(l.func.value, 200), n - 1
        if var_ok(l) and isinstance(op, ast.GtE):
            for pat in ("1 << ", "2 ** "):
                if isinstance(r, ast.BinOp) and unparse(r).startswith(pat):
                    n = lin(r.right)
                    if n is not None:
                        return unparse(l, 200), n
        if var_ok(l) and isinstance(op, ast.Gt) and isinstance(
                r, ast.BinOp) and isinstance(r.op, ast.Sub) and unparse(
                    r.right) == "1" and isinstance(
                        r.left, ast.BinOp) and unparse(r.left).startswith(
                            ("1 << ", "2 ** ")):
            n = lin(r.left.right)
            if n is not None:
                return unparse(l, 200), n
        if isinstance(op, ast.NotEq) and unparse(r) == "0":
            return _fit_bound(l, lin, var_ok)
    if isinstance(e, ast.BinOp) and isinstance(e.op, ast.RShift) and \
            var_ok(e.left):
        n = lin(e.right)
        if n is not None:
            return unparse(e.left, 200), n
    return None


def _rejected_lanes(test, li, facts):
    """Value lanes whose being set makes `test` true, as [(a, b)] or None if
    the form is not recognised."""
    def lin(e):
        return li.lin(e)
    if isinstance(test, ast.Compare) and len(test.ops) == 1:
        l, op, r = test.left, test.ops[0], test.comparators[0]
        # value.bit_length() > n
        if unparse(l) == "value.bit_length()" and isinstance(op, ast.Gt):
            n = lin(r)
            if n is not None:
                return [(n, INF)]
        if unparse(l) == "value.bit_length()" and isinstance(op, ast.GtE):
            n = lin(r)
            if n is not None:
                return [(n - 1, INF)]
        # value >= 1 << n ; value > (1 << n) - 1
        if unparse(l) == "value" and isinstance(op, ast.GtE) and isinstance(
                r, ast.BinOp) and isinstance(r.op, ast.LShift) and unparse(
                    r.left) == "1":
            n = lin(r.right)
            if n is not None:
                return [(n, INF)]
        if unparse(l) == "value" and isinstance(op, ast.Gt) and isinstance(
                r, ast.BinOp) and isinstance(r.op, ast.Sub) and unparse(
                    r.right) == "1" and isinstance(
                        r.left, ast.BinOp) and isinstance(
                            r.left.op, ast.LShift) and unparse(
                                r.left.left) == "1":
            n = lin(r.left.right)
            if n is not None:
                return [(n, INF)]
        if isinstance(op, ast.NotEq) and unparse(r) == "0":
            return _rejected_lanes(l, li, facts)
    # truthiness of an expression in value
    if isinstance(test, ast.BinOp):
        if isinstance(test.op, ast.RShift) and unparse(test.left) == "value":
            n = lin(test.right)
            if n is not None:
                return [(n, INF)]
        if isinstance(test.op, ast.BitAnd):
            # (value << k) & mask  or  value & mask
            for (a, b) in ((test.left, test.right), (test.right, test.left)):
                k = None
                if unparse(a) == "value":
                    k = Lin.const(0)
                elif isinstance(a, ast.BinOp) and isinstance(
                        a.op, ast.LShift) and unparse(a.left) == "value":
                    k = lin(a.right)
                if k is None:
                    continue
                try:
                    m = li.bv(b)
                except AnalysisError:
                    return None
                if not all(s.src == "ones" for s in m.segs):
                    return None
                out = []
                for s in m.segs:
                    # mask lanes [a,b) correspond to value lanes [a-k, b-k)
                    lo_ = s.a - k
                    inf = isinstance(s.b, str)
                    hi_ = s.b if inf else s.b - k
                    if (not inf) and facts.le(hi_, 0):
                        continue
                    if not facts.le(0, lo_):
                        lo_ = Lin.const(0) if facts.le(lo_, 0) else None
                        if lo_ is None:
                            return None
                    out.append((lo_, hi_))
                return out
    return None


def _mask_fit(e, symmap, value_vars):
    """`(value << lo) & mask` style tests: which value lanes make it true,
    decided in the lane algebra; canonical fit text if exactly [n, inf)."""
    if "value" not in value_vars or "value" not in unparse(e, 300):
        return None
    inner = e
    if isinstance(e, ast.Compare) and len(e.ops) == 1 and isinstance(
            e.ops[0], ast.NotEq) and unparse(e.comparators[0]) == "0":
        inner = e.left
    if not isinstance(inner, ast.BinOp):
        return None
    facts = PFacts([("le", "lo", "hi", 0)] + LEGAL_SLICE)
    li = LaneInterp(facts, {}, {k: Lin.sym(v) for k, v in symmap.items()
                                if v != "value"})
    try:
        iv = _rejected_lanes(inner, li, facts)
    except AnalysisError:
        return None
    if not iv:
        return None
    if len(iv) == 1 and isinstance(iv[0][1], str):
        return "value >= 2**(%r)" % (iv[0][0],)
    return "value has a bit in lanes %r" % (iv,)


def _mk_parser(symmap, value_vars=()):
    lin = pred.lin_of(symmap)

    def prop(e):
        fb = _fit_bound(e, lin, lambda v: unparse(v, 200) in value_vars)
        if fb is not None:
            return "%s >= 2**(%r)" % fb
        mf = _mask_fit(e, symmap, value_vars)
        if mf is not None:
            return mf
        return _canon_prop(e)
    P = pred.Parser(lin, prop)
    orig_tree = P.tree

    def tree(e):
        fb = _fit_bound(e, lin, lambda v: unparse(v, 200) in value_vars)
        if fb is not None:
            return ("atom", ("p", "%s >= 2**(%r)" % fb, True))
        mf = _mask_fit(e, symmap, value_vars)
        if mf is not None:
            return ("atom", ("p", mf, True))
        return orig_tree(e)
    P.tree = tree
    return P


def _path_dnf(P, p_, skip=()):
    trees = []
    for (t, b) in p_.conds:
        if unparse(t, 200) in skip:
            continue
        tr = P.tree(t)
        trees.append(tr if b else ("not", tr))
    return pred.dnf(("and", trees))


def _in_mode(p_, truths):
    for (t, b) in p_.conds:
        k = unparse(t, 200)
        if k in truths and truths[k] != b:
            return False
    return True


class _SplitIsinstance(ast.NodeTransformer):
    """isinstance(x, (A, B)) == isinstance(x, A) or isinstance(x, B): the
    mode of a path (slice key / int key) then decides each disjunct."""

    def visit_Call(self, n):
        self.generic_visit(n)
        if isinstance(n.func, ast.Name) and n.func.id == "isinstance" and \
                len(n.args) == 2 and isinstance(n.args[1], ast.Tuple) and \
                len(n.args[1].elts) > 1 and isinstance(
                    n.args[0], (ast.Name, ast.Attribute)):
            return ast.copy_location(ast.BoolOp(ast.Or(), [
                ast.Call(ast.Name("isinstance", ast.Load()),
                         [acopy(n.args[0]), t], []) for t in n.args[1].elts]),
                n)
        return n


def _frame_paths(world, c, name):
    fn = normalise(c.methods[name][1], world, FR, c, aliases="params",
                   primitives=("__init__",))
    if any(isinstance(n, ast.Call) and isinstance(n.func, ast.Name) and
           n.func.id == "isinstance" and len(n.args) == 2 and isinstance(
               n.args[1], ast.Tuple) for n in ast.walk(fn)):
        fn = _SplitIsinstance().visit(acopy(fn))
        ast.fix_missing_locations(fn)
    return fn, paths.summaries(fn)


def _orders():
    """key.start >= key.stop (start is hi) and key.stop > key.start: a
    partition, so a path that orders the indices itself is feasible in
    exactly one of them."""
    for order, big, small, strict in (
            ("start>=stop", "key.start", "key.stop", 0),
            ("stop>start", "key.stop", "key.start", 1)):
        sm = dict(SLICE_SYMS)
        sm[big] = "hi"
        sm[small] = "lo"
        yield order, sm, [("le", "lo", "hi", strict)]


def _cases_parser():
    return pred.Parser(pred.lin_of({"lo": "lo", "hi": "hi", "bits": "bits",
                                    "key": "key", "value": "value",
                                    "data": "data"}), _canon_prop)


def _f(src):
    return _cases_parser().dnf(ast.parse(src, mode="eval").body)


def _slice_cases(spec):
    return [
        ("indices not int", _f("not isinstance(key.start, int) or "
                               "not isinstance(key.stop, int)"),
         spec["indices not int"]),
        ("step", _f("key.step != None and key.step != 1"), spec["step"]),
        ("negative", _f("lo < 0"), spec["negative"]),
        ("beyond width", _f("hi >= bits"), spec["beyond width"])]


def _guard_table_from_paths(run, Q, ps, P, cases, hyp, mod, node, what,
                            skip=()):
    extra = []
    for p_ in ps:
        if p_.kind == "raise":
            d = frozenset(c_ for c_ in _path_dnf(P, p_, skip)
                          if pred.sat(c_, hyp))
            if not d:
                continue

            class _N:       # node stand-in for messages
                test = ast.Constant(None)
                lineno = getattr(p_.expr, "lineno", getattr(node, "lineno",
                                                            0))
            n_ = _N()
            n_.test = ast.parse(" and ".join(
                ("(%s)" if b else "not (%s)") % unparse(t, 200)
                for (t, b) in p_.conds if unparse(t, 200) not in skip)
                or "True", mode="eval").body
            extra.append((d, paths.exc_name(p_.expr), n_))
    _check_guard_table(run, Q, [], cases, P, hyp, mod, node, what=what,
                       extra=extra)


def _slice_modes(run, world, mod, c):
    """__getitem__ / __setitem__ with a slice key, and _readslice itself."""
    spec = _spec()
    SL = {"isinstance(key, slice)": True, "isinstance(key, int)": False}
    KEYTESTS = ("isinstance(key, slice)", "isinstance(key, int)")
    # ---- __getitem__[slice] -------------------------------------------------
    fn, ps = _frame_paths(world, c, "__getitem__")
    Q = FR + ".Frame.__getitem__"
    sl = [p_ for p_ in ps if _in_mode(p_, SL) and any(
        unparse(t) == "isinstance(key, slice)" for t, b in p_.conds)]
    if not sl:
        raise AnalysisError("%s: no path for a slice key" % Q)
    for order, sm, oh in _orders():
        P = _mk_parser(sm)
        hyp = oh + [("le", pred.ZERO, "bits", 1)]
        _guard_table_from_paths(run, "%s[slice,%s]" % (Q, order), sl, P,
                                _slice_cases(spec["_readslice"]), hyp, mod,
                                fn, "slice", skip=KEYTESTS)
        rets = [p_ for p_ in sl if p_.kind == "return"]
        if not rets:
            raise AnalysisError("%s: slice read returns nothing" % Q)
        for p_ in rets:
            d = _path_dnf(P, p_, KEYTESTS)
            for conj in d:
                if not pred.sat(conj, hyp + LEGAL_SLICE):
                    continue
                facts = PFacts(list(conj) + hyp + LEGAL_SLICE)
                li = LaneInterp(facts, {"self._data": BV([Seg(
                    Lin.const(0), BITS, "data", Lin.const(0))])},
                    {k: Lin.sym(v) for k, v in sm.items()})
                ret = li.bv(p_.expr)
                want = BV([Seg(Lin.const(0), W_, "data", LO)])
                run.ob("R-FRAME-LANES", "%s#slice[%s]" % (Q, order),
                       li.alg.equal(ret, want),
                       "reading [hi:lo] yields %r, expected exactly data "
                       "lanes lo..hi at positions 0..hi-lo (%r)" % (ret,
                                                                     want),
                       where(mod, fn),
                       sample={"rule": "R-FRAME-LANES", "operation":
                               "f[hi:lo]", "result_lanes": repr(ret)}
                       if order == "start>=stop" else None)
    # ---- __setitem__[slice] -------------------------------------------------
    fn, ps = _frame_paths(world, c, "__setitem__")
    Q = FR + ".Frame.__setitem__"
    sl = [p_ for p_ in ps if _in_mode(p_, SL) and any(
        unparse(t) == "isinstance(key, slice)" for t, b in p_.conds)]
    sspec = spec["__setitem__"]
    run.rule("R-FRAME-VBM", "a rejected operation leaves the frame "
             "unchanged: no exception after a store on any path")
    nst = 0
    for p_ in ps:
        st_ = [t for (t, v) in p_.effects if t in ("self._data",
                                                   "self._bits")]
        nst += len(st_)
        if p_.kind == "raise":
            run.ob("R-FRAME-VBM", "%s#no-raise-after-store:%s" % (
                Q, paths.exc_name(p_.expr)), not st_,
                "%s is raised after the frame was modified (path %r)"
                % (paths.exc_name(p_.expr), p_), where(mod, fn),
                trivial=True)
        run.ob("R-FRAME-LANES", Q + "#width-unchanged:%d" % id(p_),
               "self._bits" not in st_,
               "__setitem__ changes the frame's width", where(mod, fn),
               trivial=True)
    run.floor("Frame.__setitem__ storing paths", nst, 1)
    for order, sm, oh in _orders():
        sm = dict(sm)
        sm["value"] = "value"
        P = _mk_parser(sm, value_vars=("value",))
        hyp = oh + [("le", pred.ZERO, "bits", 1)]
        Wtxt = repr(W_)
        cases = _slice_cases(spec["_readslice"]) + [
            ("value not int", _f("not isinstance(value, int)"),
             sspec["value not int"]),
            ("value negative", _f("value < 0"), sspec["value negative"]),
            ("value too big", frozenset([frozenset([
                ("p", "value >= 2**(%s)" % Wtxt, True)])]),
             sspec["value too big"])]
        _guard_table_from_paths(run, "%s[slice,%s]" % (Q, order), sl, P,
                                cases, hyp, mod, fn, "slice write",
                                skip=KEYTESTS)
        done = [p_ for p_ in sl if p_.kind in ("fall", "return")]
        if not done:
            raise AnalysisError("%s: slice write never completes" % Q)
        for p_ in done:
            d = _path_dnf(P, p_, KEYTESTS)
            final = [v for (t, v) in p_.effects if t == "self._data"]
            if not final:
                import re as _re
                dep = [unparse(t, 120) for (t, b) in p_.conds if _re.search(
                    r"\bself\s*\[|\bself\._data\b|\bself\.(as_integer|pack|"
                    r"as_byte_sequence)\b", unparse(t, 400))]
                if dep:
                    # "nothing to do" under a test of the contents (the slice
                    # already holds the value): whether leaving the data alone
                    # is the documented result is a fact about values, which
                    # the lane algebra does not decide
                    raise AnalysisError(
                        "%s: a slice write completes without a store under "
                        "a test of the frame's contents (`%s`); the lane "
                        "algebra cannot decide that the data already is the "
                        "documented result" % (Q, dep[0]))
            for conj in d:
                if not pred.sat(conj, hyp + LEGAL_SLICE):
                    continue
                facts = PFacts(list(conj) + hyp + LEGAL_SLICE)
                li = LaneInterp(facts, {
                    "self._data": BV([Seg(Lin.const(0), BITS, "data",
                                          Lin.const(0))]),
                    "value": BV([Seg(Lin.const(0), W_, "value",
                                     Lin.const(0))])},
                    {k: Lin.sym(v) for k, v in sm.items() if v != "value"})
                got = li.bv(final[-1]) if final else None
                want = BV([Seg(Lin.const(0), LO, "data", Lin.const(0)),
                           Seg(LO, HI + 1, "value", Lin.const(0)),
                           Seg(HI + 1, BITS, "data", HI + 1)])
                run.ob("R-FRAME-LANES", "%s#slice[%s]" % (Q, order),
                       got is not None and li.alg.equal(got, want),
                       "writing [hi:lo] = value produces %r; expected data "
                       "on [0,lo), value lanes 0..W-1 on [lo,hi], data on "
                       "(hi,bits) and nothing else (%r)" % (got, want),
                       where(mod, fn),
                       sample={"rule": "R-FRAME-LANES", "operation":
                               "f[hi:lo] = value", "result_lanes": repr(got)}
                       if order == "start>=stop" else None)


def _nonint_operand_rejected(run, world, mod, c):
    """Frame.__setitem__: on the branch where the written operand failed its
    `isinstance(<operand>, int)` test, the operand is not rebound and carried
    on to a store.  The documented answer to a non-int is TypeError; a
    conversion on that branch (int(), operator.index(), a try around either)
    accepts the floats, strings and bytes the conversion happens to take.
    Decided on the flow graph, so a `try` on that branch is read like any
    other statement."""
    from ..cfg import CFG, explicit_raise_only
    fn = normalise(c.methods["__setitem__"][1], world, FR, c,
                   aliases="params", primitives=("__init__",))
    ps_ = [a.arg for a in fn.args.args]
    if len(ps_) != 3:
        raise AnalysisError("Frame.__setitem__: expected (self, key, value)")
    val = ps_[2]
    cfg = CFG(fn, may_raise=explicit_raise_only, name="Frame.__setitem__")

    def stores(n):
        a = n.ast
        if n.kind != "stmt" or a is None:
            return False
        tg = a.targets if isinstance(a, ast.Assign) else [
            a.target] if isinstance(a, (ast.AugAssign, ast.AnnAssign)) else []
        return any(unparse(t) == "self._data" for t in tg)

    def rebinds(n):
        a = n.ast
        if n.kind != "stmt" or a is None or isinstance(
                a, (ast.If, ast.While, ast.For, ast.Try, ast.With)):
            return False
        return any(isinstance(x, ast.Name) and x.id == val and isinstance(
            x.ctx, ast.Store) for x in ast.walk(a))
    ntests, bad = 0, None
    for t in cfg.reachable:
        a = t.ast
        if not (t.kind == "test" and isinstance(a, ast.Call) and unparse(
                a.func) == "isinstance" and len(a.args) == 2 and unparse(
                a.args[0]) == val and unparse(a.args[1]) == "int"):
            continue
        ntests += 1
        for (l, m) in t.succ:
            if l != "F":
                continue
            # (node, operand rebound on the way)
            seen, stack = set(), [(m, False)]
            while stack and bad is None:
                x, rb = stack.pop()
                if (x.id, rb) in seen:
                    continue
                seen.add((x.id, rb))
                if rb and stores(x):
                    bad = (t, x)
                    break
                rb2 = rb or rebinds(x)
                stack += [(y, rb2) for (_, y) in x.succ]
    run.floor("Frame.__setitem__ int tests of the written operand", ntests,
              1)
    run.ob("R-FRAME-EXC", FR + ".Frame.__setitem__#non-int-operand-is-not-"
           "converted", bad is None,
           "where `isinstance(%s, int)` failed (line %s) the operand is "
           "rebound and carried on to the store at line %s: a non-int the "
           "conversion accepts (a float, a numeric string) is written "
           "instead of raising the documented TypeError" % (
               val, bad[0].lineno if bad else "",
               bad[1].lineno if bad else ""), where(mod, fn))


def _value_read_after_store(run, world, mod, c):
    """Frame.__setitem__: once the frame's value has been stored to, the
    written operand is not looked at again.  Every look at it can raise (its
    truth value, a comparison, an arithmetic operation on a foreign type):
    a raise after a first store leaves the frame changed although the write
    was rejected."""
    from ..cfg import CFG, explicit_raise_only
    fn = normalise(c.methods["__setitem__"][1], world, FR, c,
                   aliases="params", primitives=("__init__",))
    ps_ = [a.arg for a in fn.args.args]
    if len(ps_) != 3:
        raise AnalysisError("Frame.__setitem__: expected (self, key, value)")
    val = ps_[2]
    cfg = CFG(fn, may_raise=explicit_raise_only, name="Frame.__setitem__")

    def stores(n):
        a = n.ast
        if n.kind != "stmt" or a is None:
            return False
        tg = a.targets if isinstance(a, ast.Assign) else [
            a.target] if isinstance(a, (ast.AugAssign, ast.AnnAssign)) else []
        return any(unparse(t) == "self._data" for t in tg)

    def reads(n):
        a = n.ast
        if a is None or n.kind not in ("stmt", "test", "for"):
            return False
        root = a.iter if n.kind == "for" else a
        if isinstance(root, (ast.If, ast.While, ast.For, ast.Try, ast.With)):
            return False
        return any(isinstance(x, ast.Name) and x.id == val and isinstance(
            x.ctx, ast.Load) for x in ast.walk(root))
    bad = None
    for s_ in cfg.reachable:
        if not stores(s_):
            continue
        seen, stack = set(), [m for (l, m) in s_.succ]
        while stack and bad is None:
            x = stack.pop()
            if x.id in seen:
                continue
            seen.add(x.id)
            if reads(x):
                bad = (s_, x)
                break
            stack += [m for (l, m) in x.succ]
    run.ob("R-FRAME-VBM", FR + ".Frame.__setitem__#operand-not-read-after-"
           "a-store", bad is None,
           "the frame's value is stored to (line %s) and the written operand "
           "`%s` is looked at afterwards (line %s): if that raises - a value "
           "whose truth test or comparison fails - the write is rejected "
           "with the frame already changed" % (
               bad[0].lineno if bad else "", val,
               bad[1].lineno if bad else ""), where(mod, fn))


def _bit_modes(run, world, mod, c):
    spec = _spec()
    INT = {"isinstance(key, slice)": False, "isinstance(key, int)": True}
    OTHER = {"isinstance(key, slice)": False, "isinstance(key, int)": False}
    sm = {"key": "key", "self._bits": "bits", "len(self)": "bits",
          "bits": "bits"}
    skip = ("isinstance(key, slice)", "isinstance(key, int)")
    hyp = [("le", pred.ZERO, "bits", 1)]
    for name in ("__getitem__", "__setitem__"):
        fn, ps = _frame_paths(world, c, name)
        Q = FR + ".Frame." + name
        ip = [p_ for p_ in ps if _in_mode(p_, INT)]
        op = [p_ for p_ in ps if _in_mode(p_, OTHER)]
        run.ob("R-FRAME-EXC", Q + "#other key type", bool(op) and all(
            p_.kind == "raise" and paths.exc_name(p_.expr) ==
            spec[name]["other key type"] for p_ in op),
            "a key that is neither int nor slice must raise %s; paths: %r"
            % (spec[name]["other key type"], op), where(mod, fn))
        P = _mk_parser(sm)
        cases = [("int out of range", _f("key < 0 or key >= bits"),
                  spec[name]["int out of range"])]
        truth_atoms = ("value", "bool(value)")
        _guard_table_from_paths(run, Q + "[int]", ip, P, cases, hyp, mod,
                                fn, "index", skip=skip + truth_atoms)
        done = [p_ for p_ in ip if p_.kind != "raise"]
        if not done:
            raise AnalysisError("%s: no completing path for an int key" % Q)
        facts = PFacts(hyp + LEGAL_KEY)
        env = {"self._data": BV([Seg(Lin.const(0), BITS, "data",
                                     Lin.const(0))])}
        syms = {k: Lin.sym(v) for k, v in sm.items()}

        def single_lane(e):
            li = LaneInterp(facts, dict(env), dict(syms))
            got = li.alg.norm(li.bv(e))
            return got, (len(got.segs) == 1 and got.segs[0].src == "data"
                         and Lin.__eq__(_L(got.segs[0].off), KEY) and
                         (_L(got.segs[0].b) - _L(got.segs[0].a)) ==
                         Lin.const(1))
        if name == "__getitem__":
            # value of the read: truth of an expression whose only possibly
            # set lane is data[key]
            ok, why = True, ""
            for p_ in done:
                e = p_.expr
                inner, pol = None, True
                if isinstance(e, ast.Constant) and isinstance(e.value, bool):
                    # guard-clause form: the deciding test is on the path
                    tests = [(t, b) for (t, b) in p_.conds if unparse(
                        t, 200) not in skip and not _is_range_test(t)]
                    if len(tests) != 1:
                        raise AnalysisError("%s: constant result on a path "
                                            "without a single bit test" % Q)
                    inner, pol = _bool_inner(tests[0][0])
                    pol = (pol == tests[0][1]) == e.value
                    if not pol:
                        ok, why = False, "result inverted on path %r" % p_
                else:
                    inner, pol = _bool_inner(e)
                    if not pol:
                        ok, why = False, "result inverted: %s" % unparse(e)
                if inner is None:
                    raise AnalysisError("%s: `%s` is not a recognised bit "
                                        "test" % (Q, unparse(e)))
                got, one = single_lane(inner)
                if not one:
                    ok, why = False, "tests %r" % got
            run.ob("R-FRAME-LANES", Q + "#bit", ok,
                   "reading bit `key` must test exactly data lane key: %s"
                   % why, where(mod, fn))
            # ... and the result is a bool: the decoders (C01-C04) test bits
            # with `is True` / `is False`, which an int 0 / 1 never satisfies
            nonbool = [unparse(p_.expr) for p_ in done if isinstance(
                p_.expr, ast.BinOp) or (isinstance(
                    p_.expr, ast.Constant) and type(p_.expr.value) is int)]
            run.ob("R-FRAME-LANES", Q + "#bit-is-bool", not nonbool,
                   "reading a bit returns the integer expression `%s`, not "
                   "True / False: identity tests of bits (`f[7] is False`) "
                   "in the command decoders never match" % (
                       nonbool[0] if nonbool else ""), where(mod, fn))
        else:
            want_set = BV([Seg(Lin.const(0), KEY, "data", Lin.const(0)),
                           Seg(KEY, KEY + 1, "ones"),
                           Seg(KEY + 1, BITS, "data", KEY + 1)])
            want_clr = BV([Seg(Lin.const(0), KEY, "data", Lin.const(0)),
                           Seg(KEY + 1, BITS, "data", KEY + 1)])
            seen = set()
            for p_ in done:
                tv = [b for (t, b) in p_.conds if unparse(t, 200) in
                      truth_atoms]
                if len(tv) != 1:
                    raise AnalysisError(
                        "%s: a bit write that is not decided by the truth "
                        "of `value` alone (path %r)" % (Q, p_))
                final = [v for (t, v) in p_.effects if t == "self._data"]
                li = LaneInterp(facts, dict(env), dict(syms))
                got = li.bv(final[-1]) if final else env["self._data"]
                want = want_set if tv[0] else want_clr
                seen.add(tv[0])
                run.ob("R-FRAME-LANES", Q + ("#bit-set" if tv[0]
                                             else "#bit-clear"),
                       li.alg.equal(got, want),
                       "%s bit key gives %r, expected %r" % (
                           "setting" if tv[0] else "clearing", got, want),
                       where(mod, fn),
                       sample={"rule": "R-FRAME-LANES", "operation":
                               "f[key] = %s" % tv[0], "result_lanes":
                               repr(got)} if not tv[0] else None)
            run.ob("R-FRAME-LANES", Q + "#bit-both", seen == {True, False},
                   "both a truthy and a falsy value must be handled",
                   where(mod, fn), trivial=True)


def _is_range_test(t):
    txt = unparse(t, 200)
    return "key" in txt and ("self._bits" in txt or "len(self)" in txt or
                             txt.startswith(("key <", "key >", "0 <")))


def _bool_inner(e):
    """(bit-container expression, polarity) of a boolean bit test."""
    if isinstance(e, ast.Compare) and len(e.ops) == 1 and unparse(
            e.comparators[0]) == "0":
        if isinstance(e.ops[0], (ast.NotEq, ast.Gt)):
            return e.left, True
        if isinstance(e.ops[0], ast.Eq):
            return e.left, False
    if isinstance(e, ast.Call) and unparse(e.func) == "bool" and len(
            e.args) == 1:
        return e.args[0], True
    if isinstance(e, ast.UnaryOp) and isinstance(e.op, ast.Not):
        i, p = _bool_inner(e.operand)
        return i, (not p) if i is not None else p
    if isinstance(e, ast.BinOp):
        return e, True
    return None, True


def _readslice_contract(run, world, mod, c):
    """_readslice returns (hi, lo) with hi >= lo for either index order."""
    fn, ps = _frame_paths(world, c, "_readslice")
    Q = FR + ".Frame._readslice"
    ok = True
    why = ""
    rets = [p_ for p_ in ps if p_.kind == "return"]
    if not rets:
        raise AnalysisError("%s returns nothing" % Q)
    for order, sm, oh in _orders():
        P = _mk_parser(sm)
        hyp = oh
        lin = pred.lin_of(sm)
        for p_ in rets:
            d = _path_dnf(P, p_)
            if not any(pred.sat(conj, hyp) for conj in d):
                continue
            e = p_.expr
            if not (isinstance(e, ast.Tuple) and len(e.elts) == 2):
                raise AnalysisError("%s: return form not recognised" % Q)
            a, b = lin(e.elts[0]), lin(e.elts[1])
            if a != Lin.sym("hi") or b != Lin.sym("lo"):
                ok = False
                why = "for %s it returns (%s, %s)" % (
                    order, unparse(e.elts[0]), unparse(e.elts[1]))
    run.ob("R-FRAME-LANES", Q + "#establishes-order", ok,
           "_readslice must return (larger index, smaller index) so that "
           "[hi:lo] and [lo:hi] address the same lanes: %s" % why,
           where(mod, fn))


def _init(run, world, mod, c):
    fn, ps = _frame_paths(world, c, "__init__")
    Q = FR + ".Frame.__init__"
    spec = _spec()["__init__"]
    BYTES = "int.from_bytes(data, 'big')"
    for n in ast.walk(fn):
        if isinstance(n, ast.Call) and unparse(n.func) == "int.from_bytes":
            BYTES = unparse(n, 200)
    sm = {"bits": "bits", "self._bits": "bits", "data": "data", BYTES: "data",
          "self._data": "data"}
    P = _mk_parser(sm, value_vars=("data", BYTES, "self._data"))
    conv = False
    for n in ast.walk(fn):
        if isinstance(n, ast.Call) and unparse(n.func) == "int.from_bytes":
            order = [unparse(a) for a in n.args[1:2]] + [
                unparse(k.value) for k in n.keywords if k.arg == "byteorder"]
            conv = order == ["'big'"]
    run.ob("R-FRAME-VIEW", Q + "#byte-sequence-big-endian", conv,
           "a byte sequence given as initial data is read big-endian "
           "(int.from_bytes(data, 'big'))", where(mod, fn))
    for mode, truths in (("int data", {"isinstance(data, int)": True}),
                         ("byte sequence", {"isinstance(data, int)": False})):
        mp = [p_ for p_ in ps if _in_mode(p_, truths)]
        var = "data" if mode == "int data" else BYTES
        fit = "%s >= 2**(bits)" % var
        fitd = frozenset([frozenset([("p", fit, True)])])
        cases = [("bits not int", _f("not isinstance(bits, int)"),
                  spec["bits not int"]),
                 ("bits < 1", _f("bits < 1"), spec["bits < 1"]),
                 ("data negative", _f("data < 0"), spec["data negative"]),
                 ("data too big", fitd, spec["data too big"])]
        # canonical fit atom regardless of how the value is spelled
        P2 = _mk_parser(sm, value_vars=("data", BYTES, "self._data"))
        orig = P2.tree

        def tree(e, orig=orig):
            t = orig(e)
            if t[0] == "atom" and t[1][0] == "p" and t[1][1].endswith(
                    ">= 2**(bits)"):
                return ("atom", ("p", fit, True))
            return t
        P2.tree = tree
        hyp = []
        if mode == "byte sequence":
            # int.from_bytes never yields a negative number
            hyp = [("le", pred.ZERO, "data", 0)]
        _guard_table_from_paths(run, "%s[%s]" % (Q, mode), mp, P2, cases,
                                hyp, mod, fn, "argument",
                                skip=("isinstance(data, int)",))
        done = [p_ for p_ in mp if p_.kind != "raise"]
        run.ob("R-FRAME-LANES", "%s[%s]#stores" % (Q, mode), bool(done) and
               all([unparse(v) for (t, v) in p_.effects
                    if t == "self._bits"] == ["bits"] and
                   [unparse(v) for (t, v) in p_.effects
                    if t == "self._data"][-1:] == [var] for p_ in done),
               "construction must store the width and the value it "
               "validated", where(mod, fn), trivial=True)
    # subclasses that override __init__ go through it
    for k in c.world.class_order:
        if c in k.mro and k is not c and "__init__" in k.methods:
            f2 = k.methods["__init__"][1]
            run.ob("R-FRAME-LANES", k.qname + ".__init__#via-base",
                   any("super().__init__(" in unparse(s) for s in f2.body),
                   "Frame subclass constructor bypasses the validating base "
                   "constructor", where(mod, f2), trivial=True)


def _check_cache_coherence(run, world, mod, c, cache):
    """Every method that stores the frame's value also resets the cache
    attribute (on every path that stores), and does not call pack in
    between."""
    from ..cfg import CFG, forward_worlds, explicit_raise_only
    fam = [k for k in world.class_order if c in k.mro]
    for k in fam:
        for name, (kind, fn) in sorted(k.methods.items()):
            if not any(isinstance(n, ast.Attribute) and isinstance(
                    n.ctx, ast.Store) and n.attr == "_data" and unparse(
                        n.value) == "self" for n in ast.walk(fn)):
                continue
            cfg = CFG(fn, may_raise=explicit_raise_only,
                      name="%s.%s" % (k.qname, name))

            def tr(node, st):
                a = node.ast
                if node.kind == "stmt" and isinstance(
                        a, (ast.Assign, ast.AugAssign)):
                    tg = a.targets if isinstance(a, ast.Assign) else [
                        a.target]
                    for t in tg:
                        if unparse(t) == "self._data":
                            st = st | {"stored"}
                        if unparse(t) == "self." + cache and isinstance(
                                a, ast.Assign) and isinstance(
                                    a.value, ast.Constant) and \
                                a.value.value is None:
                            st = st | {"reset"}
                return st
            W = forward_worlds(cfg, tr, lambda s_, l_, d_, st: st)
            bad = W.worlds_with(cfg.exit, lambda w: "stored" in w and
                                "reset" not in w)
            run.ob("R-FRAME-VIEW", "%s.%s#invalidates-%s" % (
                k.qname, name, cache), not bad,
                "%s stores the frame's value without resetting self.%s: "
                "pack (and everything built on it) keeps returning the bytes "
                "of the old value" % (name, cache), where(mod, fn))


def _truth_q(q):
    """Truth of a width expression a*q + b over q >= 0 (q >= 1 for b == 0
    and a > 0 is not needed here: remainders and comparisons are
    constants)."""
    if q.a != 0:
        raise pred.Unrecognised("truth of a width-dependent value %r" % (q,))
    return q.b != 0


def _returns(fn):
    return [n.value for n in ast.walk(fn) if isinstance(n, ast.Return)
            and n.value is not None]


def _data_identity(li, e):
    """Does integer expression e denote exactly the frame's value?"""
    t = unparse(e)
    if t in ("self.as_integer", "int(self._data)"):
        return True
    return li.alg.equal(li.bv(e), BV([Seg(Lin.const(0), BITS, "data",
                                           Lin.const(0))]))


def _to_bytes_call(e):
    """(receiver, length expr, byteorder text) of X.to_bytes(n, order)."""
    if isinstance(e, ast.Call) and isinstance(e.func, ast.Attribute) and \
            e.func.attr == "to_bytes":
        args = list(e.args)
        kw = {k.arg: k.value for k in e.keywords}
        n = args[0] if args else kw.get("length")
        o = args[1] if len(args) > 1 else kw.get("byteorder")
        return e.func.value, n, (unparse(o) if o is not None else None)
    return None


def _add_contains_views(run, world, mod, c):
    run.rule("R-FRAME-VIEW", "views read only _data/_bits and are the "
             "big-endian encodings of the same number; equality = same "
             "width and bits")
    from ..normal import desugar_translating_with
    fn = normalise(desugar_translating_with(
        c.methods["__add__"][1], world, FR), world, FR, c, aliases=True)
    Q = FR + ".Frame.__add__"
    call = None
    for n in ast.walk(fn):
        if isinstance(n, ast.Call) and unparse(n.func) == "Frame" and len(
                n.args) == 2:
            call = n
    if call is None:
        raise AnalysisError("%s: no Frame(width, value) construction" % Q)
    A, B = Lin.sym("a"), Lin.sym("b")
    li = LaneInterp(Facts("add"), {
        "self._data": BV([Seg(Lin.const(0), A, "data", Lin.const(0))]),
        "other._data": BV([Seg(Lin.const(0), B, "other", Lin.const(0))])},
        {"self._bits": A, "other._bits": B, "len(self)": A,
         "len(other)": B})
    width = li.lin(call.args[0])
    got = li.bv(call.args[1])
    want = BV([Seg(Lin.const(0), B, "other", Lin.const(0)),
               Seg(B, A + B, "data", Lin.const(0))])
    ok = width == A + B and li.alg.equal(got, want)
    run.ob("R-FRAME-LANES", Q, ok,
           "concatenation must give width a+b with the right operand on "
           "lanes [0,b) and the left operand on [b,a+b); got width %r lanes "
           "%r" % (width, got), where(mod, fn),
           sample={"rule": "R-FRAME-LANES", "operation": "f + g",
                   "result_lanes": repr(got)})
    hs = [(unparse(h.type), [_exc_name(x) for x in ast.walk(h)
                             if isinstance(x, ast.Raise)])
          for n in ast.walk(fn) if isinstance(n, ast.Try)
          for h in n.handlers if h.type is not None]
    spec = _spec()
    run.ob("R-FRAME-EXC", Q + "#not a frame", any(
        t in ("Exception", "AttributeError", "(AttributeError, TypeError)")
        and r == [spec["__add__"]["not a frame"]] for (t, r) in hs),
        "adding a non-frame must raise TypeError", where(mod, fn))
    # ---- views ------------------------------------------------------------
    lw = LaneInterp(Facts("width"), {"self._data": BV([Seg(
        Lin.const(0), BITS, "data", Lin.const(0))])},
        {"self._bits": BITS, "len(self)": BITS})

    def one_return(name):
        f2 = normalise(c.methods[name][1], world, FR, c, aliases=True)
        r = _returns(f2)
        if len(r) != 1:
            raise AnalysisError("Frame.%s: expected a single return" % name)
        return f2, r[0]
    f2, r = one_return("as_integer")
    run.ob("R-FRAME-VIEW", FR + ".Frame.as_integer", _data_identity(lw, r),
           "as_integer returns `%s`, not the frame's value" % unparse(r),
           where(mod, f2))
    f2, r = one_return("__len__")
    run.ob("R-FRAME-VIEW", FR + ".Frame.__len__", lw.lin(r) == BITS,
           "len() returns `%s`, not the width" % unparse(r), where(mod, f2))

    def check_pack(name, e, f2, fixed):
        tb = _to_bytes_call(e)
        if tb is None:
            # a view that reads state other than the value and the width
            # (a cache) is not a function of the frame's current bits
            other = sorted({n_.attr for n_ in ast.walk(e) if isinstance(
                n_, ast.Attribute) and isinstance(n_.value, ast.Name) and
                n_.value.id == "self" and n_.attr not in (
                    "_data", "_bits", "pack", "pack_len", "as_integer",
                    "as_byte_sequence")})
            if other:
                run.ob("R-FRAME-VIEW", "%s.Frame.%s" % (FR, name), False,
                       "%s returns `%s`, which reads self.%s: a view must be "
                       "computed from _data and _bits alone, or a later "
                       "write to the frame is not seen" % (
                           name, unparse(e), ", self.".join(other)),
                       where(mod, f2))
                return
            raise AnalysisError("Frame.%s: `%s` is not an int.to_bytes call"
                                % (name, unparse(e)))
        recv, n, order = tb
        # locals bound once (the width, the byte count) written out
        from .. import astq as _aq
        n = _aq.resolve(f2, n, calls=True)
        recv = _aq.resolve(f2, recv, calls=True)
        okv = _data_identity(lw, recv) and order == "'big'"
        msg = "%s encodes `%s` with byte order %s" % (name, unparse(recv),
                                                      order)
        if fixed:
            okn = unparse(n) == f2.args.args[1].arg
        else:
            okn = True
            for r8 in range(8):
                try:
                    q = pred.residue_eval(n, ("len(self)", "self._bits"), 8,
                                          r8)
                except pred.Unrecognised:
                    cx = _refute_byte_count(n, ("len(self)", "self._bits"))
                    if cx is None:
                        raise
                    okn = False
                    msg += "; length `%s` is %s bytes for a frame of %d " \
                        "bits, expected %d" % (unparse(n), cx[1], cx[0],
                                               (cx[0] + 7) // 8)
                    break
                if q != pred.QLin(1, 1 if r8 else 0):
                    okn = False
                    msg += "; length `%s` is %r bytes for width 8q+%d, " \
                        "expected q%s" % (unparse(n), q, r8,
                                          "+1" if r8 else "")
                    break
        run.ob("R-FRAME-VIEW", "%s.Frame.%s" % (FR, name), okv and okn,
               msg + " (must be the big-endian encoding of the value in "
               "ceil(width/8) bytes)" if not fixed else msg,
               where(mod, f2),
               sample={"rule": "R-FRAME-VIEW", "view": name,
                       "length": unparse(n), "order": order})
    # pack: one path per case of the width's residue mod 8 (a conditional
    # expression, an if on the remainder, divmod ...); each residue must
    # select paths that all encode into ceil(width/8) bytes
    from .. import paths as _paths
    pf = normalise(c.methods["pack"][1], world, FR, c, aliases=True)
    try:
        pps = [p_ for p_ in _paths.summaries(pf) if p_.kind == "return"]
    except _paths.Unsupported:
        pps = None
    if pps is None or len(pps) <= 1:
        f2, r = one_return("pack")
        check_pack("pack", r, f2, False)
    else:
        names = ("len(self)", "self._bits")
        okv, okn, msg = True, True, ""
        # a memoised pack: one path returns a cache attribute that another
        # path fills with the encoding - then every writer of the value must
        # invalidate it
        cache = None
        for p_ in pps:
            if _to_bytes_call(p_.expr) is None and isinstance(
                    p_.expr, ast.Attribute) and unparse(
                        p_.expr.value) == "self":
                cache = p_.expr.attr
        if cache is not None:
            filled = any(t_ == "self." + cache and _to_bytes_call(v_)
                         is not None for p_ in pps
                         for (t_, v_) in [e_ for e_ in p_.effects
                                          if len(e_) == 2])
            if not filled:
                cache = None
        if cache is not None:
            _check_cache_coherence(run, world, mod, c, cache)
            # the cache is private state of the view, kept coherent by the
            # rule above: storing it is not a write to the frame
            run.c05_caches = set(getattr(run, "c05_caches", ())) | {
                "self." + cache}
            pps = [p_ for p_ in pps if _to_bytes_call(p_.expr) is not None]
            for p_ in pps:
                p_.conds = [(t_, b_) for (t_, b_) in p_.conds
                            if ("self." + cache) not in unparse(t_, 300)]
        for p_ in pps:
            tb = _to_bytes_call(p_.expr)
            if tb is None:
                raise AnalysisError("Frame.pack: `%s` is not an "
                                    "int.to_bytes call" % unparse(p_.expr))
            okv = okv and _data_identity(lw, tb[0]) and tb[2] == "'big'"
        for r8 in range(8):
            hit = 0
            for p_ in pps:
                try:
                    holds = all(bool(_truth_q(pred.residue_eval(
                        t_, names, 8, r8))) == b_ for (t_, b_) in p_.conds)
                except pred.Unrecognised as e_:
                    raise AnalysisError("Frame.pack: %s" % e_)
                if not holds:
                    continue
                hit += 1
                n_ = _to_bytes_call(p_.expr)[1]
                try:
                    q = pred.residue_eval(n_, names, 8, r8)
                except pred.Unrecognised as e_:
                    # no closed form per residue class (float rounding, ...):
                    # the expression is still refuted by one concrete width
                    # at which it is not ceil(width / 8)
                    cx = _refute_byte_count(n_, names)
                    if cx is None:
                        raise AnalysisError("Frame.pack: %s" % e_)
                    okn = False
                    msg = "length `%s` is %s bytes for a frame of %d " \
                        "bits, expected %d" % (unparse(n_), cx[1], cx[0],
                                               (cx[0] + 7) // 8)
                    continue
                if q != pred.QLin(1, 1 if r8 else 0):
                    okn = False
                    msg = "length `%s` is %r bytes for width 8q+%d, " \
                        "expected q%s" % (unparse(n_), q, r8,
                                          "+1" if r8 else "")
            if hit == 0:
                okn = False
                msg = "no path of pack applies to widths 8q+%d" % r8
        run.ob("R-FRAME-VIEW", "%s.Frame.pack" % FR, okv and okn,
               "pack must be the big-endian encoding of the value in "
               "ceil(width/8) bytes: %s" % msg, where(mod, pf),
               sample={"rule": "R-FRAME-VIEW", "view": "pack",
                       "paths": len(pps)})
    f2, r = one_return("pack_len")
    check_pack("pack_len", r, f2, True)
    f2, r = one_return("as_byte_sequence")
    src = None
    if isinstance(r, ast.Call) and unparse(r.func) == "list" and len(
            r.args) == 1:
        src = r.args[0]
    elif isinstance(r, ast.ListComp) and len(r.generators) == 1 and \
            unparse(r.elt) == unparse(r.generators[0].target) and \
            not r.generators[0].ifs:
        src = r.generators[0].iter
    if src is None:
        raise AnalysisError("Frame.as_byte_sequence: `%s` is not list(...) "
                            "over the packed bytes" % unparse(r))
    if unparse(src) == "self.pack":
        run.ob("R-FRAME-VIEW", FR + ".Frame.as_byte_sequence", True)
    else:
        check_pack("as_byte_sequence", src, f2, False)
    # ---- equality ---------------------------------------------------------
    def eq_prop(e):
        t = unparse(e, 200)
        for a, b in (("len(self)", "self._bits"), ("len(other)",
                                                   "other._bits"),
                     ("self.as_integer", "self._data"),
                     ("other.as_integer", "other._data")):
            t = t.replace(a, b)
        return t
    E = pred.Parser(lambda e: None, eq_prop)
    want_eq = frozenset([frozenset([
        ("p", "other._bits == self._bits", True),
        ("p", "other._data == self._data", True)])])
    eq_formula = {}
    FRAME_TESTS = ("isinstance(other, Frame)", "isinstance(other, frame.Frame)")
    for name, const in (("__eq__", False), ("__ne__", True)):
        f2 = acopy(c.methods[name][1])
        body = [s_ for s_ in f2.body if not (isinstance(s_, ast.Expr) and
                                             isinstance(s_.value,
                                                        ast.Constant))]
        # the exceptional paths (an operand without _bits / _data: not a
        # frame) are paths of their own: each returns "not equal"
        try:
            ps = paths.summaries(f2, try_prefixes=True)
        except paths.Unsupported as e_:
            raise AnalysisError("Frame.%s: %s" % (name, e_))
        trees = []
        okc = True
        why = ""
        for p_ in ps:
            if p_.kind != "return":
                raise AnalysisError("Frame.%s: a path without a result"
                                    % name)
            if any(isinstance(t, ast.Name) and t.id.startswith("<")
                   for (t, b) in p_.conds):
                # (a path that returned inside the prefix of the try body
                # is the same path without the exception: listed there)
                plain = [(unparse(t), b) for (t, b) in p_.conds
                         if not (isinstance(t, ast.Name) and
                                 t.id.startswith("<"))]
                twin_ = any(
                    q_.kind == "return" and unparse(q_.expr) == unparse(
                        p_.expr) and [(unparse(t), b) for (t, b) in
                                      q_.conds] == plain
                    for q_ in ps if q_ is not p_)
                if twin_:
                    continue
                if not (isinstance(p_.expr, ast.Constant) and
                        p_.expr.value is const):
                    okc, why = False, ("an operand that is not a frame "
                                       "(exception path) does not compare "
                                       "as 'not equal'")
                continue
            cs = []
            for (t, b) in p_.conds:
                txt = unparse(t, 200)
                if txt in FRAME_TESTS:
                    if not b:
                        # not a frame at all: must be "not equal"
                        if not (isinstance(p_.expr, ast.Constant) and
                                p_.expr.value is const):
                            okc, why = False, "a non-frame compares equal"
                        cs = None
                        break
                    continue
                if "__class__" in txt or "type(" in txt or \
                        txt.startswith("isinstance(other"):
                    okc = False
                    why = ("the result depends on `%s`: frames of the same "
                           "width and bits but another class compare "
                           "unequal" % txt)
                    cs = None
                    break
                tr_ = E.tree(t)
                cs.append(tr_ if b else ("not", tr_))
            if cs is None:
                continue
            e = p_.expr
            if isinstance(e, ast.UnaryOp) and isinstance(
                    e.op, ast.Not) and unparse(e.operand) in (
                        "self == other", "self.__eq__(other)"):
                # not (formula of __eq__)
                val = ("not", ("or", [("and", [("atom", a) for a in conj])
                                      for conj in eq_formula["__eq__"]]))
            elif isinstance(e, ast.Constant) and isinstance(e.value, bool):
                val = ("and", []) if e.value else ("or", [])
            else:
                val = E.tree(e)
            trees.append(("and", cs + [val]))
        d = pred.dnf(("or", trees))
        eq_formula[name] = d
        want = want_eq if name == "__eq__" else pred.neg_dnf(want_eq)
        ok, w = pred.equivalent(d, want)
        run.ob("R-FRAME-VIEW", "%s.Frame.%s" % (FR, name), ok and okc,
               "%s is `%s`; it must mean %s %s" % (
                   name, pred.show(d), pred.show(want), why),
               where(mod, c.methods[name][1]))
    # ---- membership ---------------------------------------------------------
    cf = normalise(c.methods["__contains__"][1], world, FR, c, aliases=False)
    ps = paths.summaries(cf)
    item = cf.args.args[1].arg

    def nonzero_test(e):
        """e is `X != K`; returns (X, K)."""
        if isinstance(e, ast.Compare) and len(e.ops) == 1 and isinstance(
                e.ops[0], ast.NotEq):
            return e.left, e.comparators[0]
        if isinstance(e, ast.Call) and unparse(e.func) == "bool" and len(
                e.args) == 1:
            return e.args[0], ast.Constant(0)
        return None, None
    # the three kinds of argument - True, False, anything else - decide the
    # tests on `item` (identity with the singletons, type / isinstance bool,
    # truthiness, equality); the paths that stay possible for a kind must
    # all give that kind's answer
    def decide(t, kind):
        """Value of an atomic test for item of this kind, or None."""
        def is_item(e):
            return isinstance(e, ast.Name) and e.id == item

        def const(e):
            return isinstance(e, ast.Constant) and isinstance(e.value, bool)
        if is_item(t):
            return kind if kind is not None else None
        if isinstance(t, ast.Compare) and len(t.ops) == 1:
            l_, r_, op = t.left, t.comparators[0], t.ops[0]
            if const(l_) and is_item(r_):
                l_, r_ = r_, l_
            if is_item(l_) and const(r_):
                if isinstance(op, (ast.Is, ast.IsNot)):
                    v = (kind is r_.value)
                    return v if isinstance(op, ast.Is) else not v
                if isinstance(op, (ast.Eq, ast.NotEq)) and kind is not None:
                    v = (kind == r_.value)
                    return v if isinstance(op, ast.Eq) else not v
            tl, tr = unparse(l_), unparse(r_)
            if {tl, tr} == {"type(%s)" % item, "bool"} and isinstance(
                    op, (ast.Is, ast.IsNot, ast.Eq, ast.NotEq)):
                v = kind is not None
                return v if isinstance(op, (ast.Is, ast.Eq)) else not v
        if isinstance(t, ast.Call) and unparse(t.func) == "isinstance" and \
                len(t.args) == 2 and is_item(t.args[0]) and unparse(
                    t.args[1]) == "bool":
            return kind is not None
        return None

    class _SubItem(ast.NodeTransformer):
        def __init__(self, k):
            self.k = k

        def visit_Name(self, n):
            if n.id == item and self.k is not None:
                return ast.copy_location(ast.Constant(self.k), n)
            return n
    okc = True
    seen = set()
    for p_ in ps:
        if p_.kind != "return":
            raise AnalysisError("Frame.__contains__: a path without a "
                                "result (%r)" % p_)
    from ..inline import acopy as _ac
    for kind in (True, False, None):
        live = [p_ for p_ in ps if all(
            decide(t, kind) in (None, b) for (t, b) in p_.conds)]
        if not live:
            continue
        seen.add(kind)
        for p_ in live:
            e = _SubItem(kind).visit(_ac(p_.expr))
            if kind is True:
                x1, k1 = nonzero_test(e)
                okc = okc and x1 is not None and _data_identity(lw, x1) \
                    and unparse(k1) == "0"
            elif kind is False:
                x0, k0 = nonzero_test(e)
                okc = okc and x0 is not None and _data_identity(lw, x0) \
                    and lw.alg.equal(lw.bv(k0), BV([Seg(Lin.const(0), BITS,
                                                        "ones")]))
            else:
                okc = okc and isinstance(e, ast.Constant) and \
                    e.value is False
    if seen != {True, False, None}:
        raise AnalysisError("Frame.__contains__: `item is True / is False / "
                            "otherwise` cases not found")
    run.ob("R-FRAME-VIEW", FR + ".Frame.__contains__", okc,
           "True in f <=> some bit set; False in f <=> some bit clear (all "
           "`width` lanes); anything else is not contained", where(mod, cf))
    # views do not write
    for name in ["as_integer", "as_byte_sequence", "pack", "pack_len",
                 "__len__", "__eq__", "__ne__", "__getitem__",
                 "__contains__", "__add__", "__str__", "_readslice"]:
        f2 = c.methods[name][1]
        w = [unparse(n) for n in ast.walk(f2) if isinstance(
            n, ast.Attribute) and isinstance(n.ctx, (ast.Store, ast.Del))
            and unparse(n) not in getattr(run, "c05_caches", ())]
        run.ob("R-FRAME-VIEW", "%s.Frame.%s#read-only" % (FR, name), not w,
               "%s modifies %s" % (name, w), where(mod, f2), trivial=True)



def _refute_byte_count(e, names):
    """(width, value) for the first width in 1..64 at which the arithmetic
    expression e - the width read through one of `names` - does not evaluate
    to ceil(width / 8); None when it agrees everywhere there (no proof, the
    caller refuses) or uses anything but arithmetic on the width."""
    import math

    class Bad(Exception):
        pass

    def ev(x, w):
        if unparse(x, 200) in names:
            return w
        if isinstance(x, ast.Constant) and isinstance(x.value, (int, float)) \
                and not isinstance(x.value, bool):
            return x.value
        if isinstance(x, ast.UnaryOp) and isinstance(x.op, ast.USub):
            return -ev(x.operand, w)
        if isinstance(x, ast.BinOp):
            a, b = ev(x.left, w), ev(x.right, w)
            try:
                if isinstance(x.op, ast.Add):
                    return a + b
                if isinstance(x.op, ast.Sub):
                    return a - b
                if isinstance(x.op, ast.Mult):
                    return a * b
                if isinstance(x.op, ast.Div):
                    return a / b
                if isinstance(x.op, ast.FloorDiv):
                    return a // b
                if isinstance(x.op, ast.Mod):
                    return a % b
                if isinstance(x.op, ast.RShift) and isinstance(
                        a, int) and isinstance(b, int) and b >= 0:
                    return a >> b
                if isinstance(x.op, ast.BitAnd) and isinstance(
                        a, int) and isinstance(b, int):
                    return a & b
            except (ZeroDivisionError, TypeError):
                raise Bad()
            raise Bad()
        if isinstance(x, ast.IfExp):
            return ev(x.body, w) if ev(x.test, w) else ev(x.orelse, w)
        if isinstance(x, ast.Compare) and len(x.ops) == 1:
            a, b = ev(x.left, w), ev(x.comparators[0], w)
            f = {ast.Eq: lambda: a == b, ast.NotEq: lambda: a != b,
                 ast.Lt: lambda: a < b, ast.LtE: lambda: a <= b,
                 ast.Gt: lambda: a > b, ast.GtE: lambda: a >= b}.get(
                     type(x.ops[0]))
            if f is None:
                raise Bad()
            return f()
        if isinstance(x, ast.Call) and not x.keywords and len(x.args) == 1:
            fn_ = unparse(x.func)
            a = ev(x.args[0], w)
            if fn_ == "round":
                return round(a)
            if fn_ == "int":
                return int(a)
            if fn_ in ("math.ceil", "ceil"):
                return math.ceil(a)
            if fn_ in ("math.floor", "floor"):
                return math.floor(a)
        raise Bad()
    for w in range(1, 65):
        try:
            v = ev(e, w)
        except Bad:
            return None
        if v != (w + 7) // 8:
            return (w, v)
    return None
