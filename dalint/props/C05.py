"""C05 - Frame as a fixed-width bit vector: R-FRAME-OWN, R-FRAME-VBM,
R-FRAME-EXC, R-FRAME-LANES (symbolic-width lane proofs), R-FRAME-VIEW."""
import ast
import json
import os

from ..core import AnalysisError, unparse, where, VERIF
from ..cfg import (CFG, explicit_raise_only, forward, forward_worlds,
                   _walk_no_nested, path_str)
from ..lanes import (Facts, LaneInterp, LaneAlg, BV, Seg, Lin, ones, INF)
from ..seq import cond_edge_transfer, kill_conds_on_assign
from .. import pred

FR = "dali.frame"
W_ = Lin({"hi": 1, "lo": -1}, 1)         # hi + 1 - lo
LO, HI, BITS, KEY = Lin.sym("lo"), Lin.sym("hi"), Lin.sym("bits"), \
    Lin.sym("key")


def check(run, repo, world):
    run.explanation = (
        "(R-FRAME-LANES) the slice/bit arithmetic of Frame.__getitem__, "
        "__setitem__ and __add__ is abstractly interpreted in a symbolic "
        "bit-lane algebra (segments with end points linear in lo, hi, bits, "
        "key; order decided exactly from 0 <= lo <= hi <= bits-1 which "
        "_readslice establishes): reading [hi:lo] yields exactly data lanes "
        "lo..hi; writing keeps data on [0,lo) and (hi,bits), places value "
        "lanes 0..W-1 on lo..hi and nothing at or above `bits`; the fit "
        "guards reject exactly the values with a lane >= W (none below); "
        "bit set/clear touch lane key only; concatenation puts the left "
        "operand in the high lanes - proved for every width at once, "
        "without enumerating values.  (R-FRAME-VBM) every raise precedes "
        "every store in __setitem__, so a rejected operation leaves the "
        "frame unchanged.  (R-FRAME-EXC) guard -> exception class table vs "
        "the documented one.  (R-FRAME-OWN) _data/_bits/_error are written "
        "only by Frame's own methods.  (R-FRAME-VIEW) views read only "
        "_data/_bits and encode big-endian.  NOT decided: agreement with a "
        "list-of-bits model over arbitrary operation histories beyond the "
        "per-operation lane semantics (the invariant 0 <= data < 2^bits is "
        "shown to be preserved by each mutator, which is the inductive "
        "step).")
    run.assumptions += ["Python ints are unbounded; << >> & | ^ have their "
                        "mathematical meaning on non-negative ints",
                        "int.bit_length() > n  <=>  value >= 2^n"]
    mod = repo.mod(FR)
    c = world.cls(FR + ".Frame")
    run.rule("R-FRAME-VIEW", "views read only _data/_bits and are the "
             "big-endian encodings of the same number; equality = same "
             "width and bits")
    _own(run, repo, world, mod, c)
    _readslice(run, mod, c)
    _getitem(run, mod, c)
    _setitem(run, mod, c)
    _init(run, mod, c)
    _add_contains_views(run, world, mod, c)


# ---------------------------------------------------------------------------
def _own(run, repo, world, mod, c):
    run.rule("R-FRAME-OWN", "_data/_bits/_error of a Frame are assigned only "
             "by Frame.__init__ / __setitem__ (and _error by the error "
             "subclass)")
    fr_classes = [k for k in world.class_order if c in k.mro]
    allowed = {"_data": {"Frame.__init__", "Frame.__setitem__"},
               "_bits": {"Frame.__init__"},
               "_error": {"Frame.__init__", "BackwardFrameError.__init__"}}
    n = 0
    for mname, m in repo.modules.items():
        for node in ast.walk(m.tree):
            if not (isinstance(node, ast.Attribute) and isinstance(
                    node.ctx, (ast.Store, ast.Del)) and node.attr in allowed):
                continue
            # enclosing function / class
            fn = node
            while fn is not None and not isinstance(
                    fn, (ast.FunctionDef, ast.AsyncFunctionDef)):
                fn = getattr(fn, "_parent", None)
            cl = getattr(fn, "_parent", None) if fn is not None else None
            recv = unparse(node.value)
            if recv == "self" and isinstance(cl, ast.ClassDef):
                k = world.classes.get(mname + "." + cl.name)
                if k is None or c not in k.mro:
                    continue     # some other class's own _data
                n += 1
                who = "%s.%s" % (cl.name, fn.name)
                run.ob("R-FRAME-OWN", "%s#%s.%s" % (mname, who, node.attr),
                       who in allowed[node.attr],
                       "%s assigns self.%s of a Frame" % (who, node.attr),
                       where(m, node))
            elif recv != "self":
                n += 1
                run.ob("R-FRAME-OWN", "%s#%s.%s" % (mname, recv, node.attr),
                       False, "`%s.%s` is assigned from outside the object "
                       "(%s): a Frame's value can leave 0 <= value < 2^width "
                       "unchecked" % (recv, node.attr,
                                      fn.name if fn else "module level"),
                       where(m, node))
    run.floor("Frame state store sites", n, 5)


# ---------------------------------------------------------------------------
# guards: `if T: raise E` statements as formulas (pred.py)
def _exc_name(r):
    e = r.exc
    if e is None:
        return None
    if isinstance(e, ast.Call):
        e = e.func
    if isinstance(e, ast.Name):
        # module-level exception objects: _bad_frame_length etc. not used here
        return e.id
    return unparse(e)


def _guards(stmts):
    """[(test ast, exception name, stmt)] for the `if T: raise E` statements
    of a statement list, in order; a top-level `or` is split into one guard
    per operand; `elif` chains of raising guards are followed."""
    out = []

    def add(test, exc, st):
        if isinstance(test, ast.BoolOp) and isinstance(test.op, ast.Or):
            for v in test.values:
                add(v, exc, st)
        else:
            out.append((test, exc, st))
    for st in stmts:
        cur = st
        while isinstance(cur, ast.If) and cur.body and isinstance(
                cur.body[-1], ast.Raise) and len(cur.body) == 1:
            add(cur.test, _exc_name(cur.body[0]), cur)
            if len(cur.orelse) == 1 and isinstance(cur.orelse[0], ast.If):
                cur = cur.orelse[0]
            else:
                break
    return out


def _canon_prop(e):
    """Canonical text of the opaque propositions the guards use."""
    t = unparse(e, 200).replace("len(self)", "self._bits")
    if isinstance(e, ast.Call) and unparse(e.func) == "isinstance" and \
            len(e.args) == 2:
        return "isinstance(%s, %s)" % (unparse(e.args[0], 200).replace(
            "len(self)", "self._bits"), unparse(e.args[1]))
    return t


def _check_guard_table(run, Q, guards, cases, parser, hyp, mod, node,
                       what="input", extra=None):
    """guards: [(test, exc, stmt)], cases: [(name, expected DNF, exception)].
    (i) the union of the guards rejects exactly the union of the cases;
    (ii) a guard raising E fires only where a case of class E applies.
    `extra`: [(dnf, exc, stmt)] guards already classified elsewhere."""
    gd = []
    for (t, exc, st) in guards:
        gd.append((parser.dnf(t), exc, st))
    gd += extra or []
    vocab = set()
    for (_, d, _) in cases:
        for c in d:
            vocab |= {a[1] for a in c if a[0] == "p"}
    for (d, exc, st) in gd:
        for c in d:
            for a in c:
                if a[0] == "p" and a[1] not in vocab and not (
                        a[1].endswith(" == key.step") or
                        a[1].startswith("key.step == ")):
                    raise AnalysisError(
                        "%s: guard `%s` uses a test outside the recognised "
                        "vocabulary (%s)" % (Q, unparse(st.test, 100), a[1]))
    allg = pred.union(*[d for (d, _, _) in gd]) if gd else frozenset()
    allc = pred.union(*[d for (_, d, _) in cases])
    ok, w = pred.equivalent(allg, allc, hyp)
    run.ob("R-FRAME-LANES", Q + "#rejects-exactly", ok,
           "the guards reject `%s` but the documented illegal %ss are `%s`: "
           "%s `%s`" % (pred.show(allg), what, pred.show(allc),
                        w[0] if w else "", pred.show(w[1]) if w else ""),
           where(mod, node),
           sample={"rule": "R-FRAME-LANES", "guards": pred.show(allg),
                   "documented": pred.show(allc)})
    for (name, d, exc) in cases:
        mine = pred.union(*[g for (g, e, _) in gd if e == exc]) \
            if any(e == exc for (_, e, _) in gd) else frozenset()
        others = pred.union(*[x for (n2, x, e2) in cases if e2 != exc]) \
            if any(e2 != exc for (_, _, e2) in cases) else frozenset()
        ok, w = pred.implies(d, pred.union(mine, others), hyp)
        run.ob("R-FRAME-EXC", "%s#%s" % (Q, name), ok,
               "%s: case `%s` must raise %s; not covered by a guard raising "
               "it when %s" % (Q, name, exc, pred.show(w) if w else ""),
               where(mod, node),
               sample={"rule": "R-FRAME-EXC", "case": name, "raises": exc}
               if name in ("value negative", "beyond width") else None)
    for (d, exc, st) in gd:
        mine = pred.union(*[x for (_, x, e2) in cases if e2 == exc]) \
            if any(e2 == exc for (_, _, e2) in cases) else frozenset()
        ok, w = pred.implies(d, mine, hyp)
        run.ob("R-FRAME-EXC", "%s#guard:%s" % (Q, pred.show(d)), ok,
               "guard `%s` raises %s although no %s-class fault is present "
               "when %s" % (unparse(st.test, 100), exc, exc,
                            pred.show(w) if w else ""), where(mod, st),
               trivial=True)


def _spec():
    return json.load(open(os.path.join(VERIF, "spec",
                                       "frame_exceptions.json")))


def _readslice(run, mod, c):
    run.rule("R-FRAME-LANES", "slice/bit arithmetic reads and writes exactly "
             "the stated lanes for every width; guards reject exactly the "
             "illegal inputs (formula equivalence)")
    run.rule("R-FRAME-EXC", "each illegal input raises the documented "
             "exception class (spec/frame_exceptions.json)")
    fn = c.methods["_readslice"][1]
    Q = FR + ".Frame._readslice"
    spec = _spec()["_readslice"]
    # hi / lo definitions
    asg = {}
    for n in ast.walk(fn):
        if isinstance(n, ast.Assign) and len(n.targets) == 1:
            tg = n.targets[0]
            if isinstance(tg, ast.Name):
                asg[tg.id] = n.value
            elif isinstance(tg, ast.Tuple) and isinstance(
                    n.value, ast.Tuple) and len(tg.elts) == len(
                        n.value.elts):
                for a, b in zip(tg.elts, n.value.elts):
                    if isinstance(a, ast.Name):
                        asg[a.id] = b
    rets = [n.value for n in ast.walk(fn) if isinstance(n, ast.Return)]

    def is_ext(e, which):
        return isinstance(e, ast.Call) and unparse(e.func) == which and \
            sorted(unparse(a) for a in e.args) == ["key.start", "key.stop"]
    order_ok = False
    if len(rets) == 1 and isinstance(rets[0], ast.Tuple) and len(
            rets[0].elts) == 2:
        a, b = rets[0].elts

        def res(x):
            return asg.get(x.id, x) if isinstance(x, ast.Name) else x
        order_ok = is_ext(res(a), "max") and is_ext(res(b), "min")
    if not order_ok and not (len(rets) == 1 and isinstance(
            rets[0], ast.Tuple)):
        raise AnalysisError("%s: return form not recognised" % Q)
    run.ob("R-FRAME-LANES", Q + "#establishes-order", order_ok,
           "_readslice must return (max, min) of key.start / key.stop so "
           "that [hi:lo] and [lo:hi] address the same lanes; returns %s"
           % [unparse(r) for r in rets], where(mod, fn))
    hi_name = unparse(rets[0].elts[0]) if isinstance(
        rets[0].elts[0], ast.Name) else None
    lo_name = unparse(rets[0].elts[1]) if isinstance(
        rets[0].elts[1], ast.Name) else None
    guards = _guards(fn.body)
    run.floor("_readslice guards", len(guards), 4)
    # both index orders: key.start is the larger one / the smaller one
    for order in ("start>=stop", "stop>=start"):
        sm = {"self._bits": "bits", "len(self)": "bits"}
        big, small = ("key.start", "key.stop") if order == "start>=stop" \
            else ("key.stop", "key.start")
        sm[big] = "hi"
        sm[small] = "lo"
        if hi_name:
            sm[hi_name] = "hi"
        if lo_name:
            sm[lo_name] = "lo"
        sm["max(key.start, key.stop)"] = sm["max(key.stop, key.start)"] = "hi"
        sm["min(key.start, key.stop)"] = sm["min(key.stop, key.start)"] = "lo"
        P = pred.Parser(pred.lin_of(sm), _canon_prop)
        hyp = [("le", "lo", "hi", 0), ("le", pred.ZERO, "bits", 1)]
        A = pred.Parser(pred.lin_of({"lo": "lo", "hi": "hi",
                                     "bits": "bits"}), _canon_prop)

        def f(src):
            return A.dnf(ast.parse(src, mode="eval").body)
        cases = [
            ("indices not int", f("not isinstance(key.start, int) or "
                                  "not isinstance(key.stop, int)"),
             spec["indices not int"]),
            ("step", f("key.step != None and key.step != 1"), spec["step"]),
            ("negative", f("lo < 0"), spec["negative"]),
            ("beyond width", f("hi >= bits"), spec["beyond width"]),
        ]
        _check_guard_table(run, Q + "[" + order + "]", guards, cases, P,
                           hyp, mod, fn, what="slice")


def _branch(fn, kind):
    """Body of `if isinstance(key, slice)` / `elif isinstance(key, int)`."""
    for n in ast.walk(fn):
        if isinstance(n, ast.If) and unparse(n.test) == \
                "isinstance(key, %s)" % kind:
            return n
    raise AnalysisError("Frame.%s lost its isinstance(key, %s) branch"
                        % (fn.name, kind))


def _fallthrough_typeerror(fn):
    """The path taken when key is neither a slice nor an int ends in
    `raise TypeError`."""
    last = fn.body[-1]
    while isinstance(last, ast.If):
        if not last.orelse:
            return False
        last = last.orelse[-1]
    return isinstance(last, ast.Raise) and _exc_name(last) == "TypeError"


def _key_parser():
    return pred.Parser(pred.lin_of({"key": "key", "self._bits": "bits",
                                    "len(self)": "bits"}), _canon_prop)


def _key_cases(spec):
    A = pred.Parser(pred.lin_of({"key": "key", "bits": "bits"}))
    d = A.dnf(ast.parse("key < 0 or key >= bits", mode="eval").body)
    return [("int out of range", d, spec["int out of range"])]


def _reads_slice_result(sl):
    for s in sl.body:
        if isinstance(s, ast.Assign) and "self._readslice(key)" == unparse(
                s.value) and isinstance(s.targets[0], ast.Tuple) and [
                    unparse(x) for x in s.targets[0].elts] == ["hi", "lo"]:
            return True
    raise AnalysisError("slice branch no longer starts from `hi, lo = "
                        "self._readslice(key)`")


def _getitem(run, mod, c):
    fn = c.methods["__getitem__"][1]
    Q = FR + ".Frame.__getitem__"
    spec = _spec()["__getitem__"]
    sl = _branch(fn, "slice")
    _reads_slice_result(sl)
    env = {"self._data": BV([Seg(Lin.const(0), BITS, "data", Lin.const(0))])}
    syms = {"lo": LO, "hi": HI, "self._bits": BITS, "len(self)": BITS}
    facts = Facts("slice")
    li = LaneInterp(facts, dict(env), syms)
    ret = None
    for s in sl.body:
        if isinstance(s, ast.Assign) and isinstance(s.targets[0], ast.Name) \
                and unparse(s.value) != "self._readslice(key)":
            li.env[s.targets[0].id] = li.bv(s.value)
        if isinstance(s, ast.Return):
            ret = li.bv(s.value)
    want = BV([Seg(Lin.const(0), W_, "data", LO)])
    ok = ret is not None and li.alg.equal(ret, want)
    run.ob("R-FRAME-LANES", Q + "#slice", ok,
           "reading [hi:lo] yields %r, expected exactly data lanes lo..hi "
           "at positions 0..hi-lo (%r)" % (ret, want), where(mod, sl),
           sample={"rule": "R-FRAME-LANES", "operation": "f[hi:lo]",
                   "result_lanes": repr(ret)})
    ib = _branch(fn, "int")
    rets = [s for s in ib.body if isinstance(s, ast.Return)]
    if len(rets) != 1:
        raise AnalysisError("%s: int branch return form not recognised" % Q)
    e = rets[0].value
    # truth of an expression whose only possibly-set lane is data[key]
    inner = None
    if isinstance(e, ast.Compare) and len(e.ops) == 1 and unparse(
            e.comparators[0]) == "0" and isinstance(
                e.ops[0], (ast.NotEq, ast.Gt)):
        inner = e.left
    elif isinstance(e, ast.Call) and unparse(e.func) == "bool" and len(
            e.args) == 1:
        inner = e.args[0]
    if inner is None:
        raise AnalysisError("%s: `%s` is not a recognised bit test (x != 0, "
                            "x > 0, bool(x))" % (Q, unparse(e)))
    li2 = LaneInterp(Facts("bit"), {"self._data": BV([Seg(
        Lin.const(0), BITS, "data", Lin.const(0))])},
        {"key": KEY, "self._bits": BITS, "len(self)": BITS})
    got = li2.alg.norm(li2.bv(inner))
    okb = len(got.segs) == 1 and got.segs[0].src == "data" and \
        Lin.__eq__(got.segs[0].off, KEY) and \
        (got.segs[0].b - got.segs[0].a) == Lin.const(1)
    run.ob("R-FRAME-LANES", Q + "#bit", okb,
           "reading bit `key` must test exactly data lane key; tests %r"
           % got, where(mod, ib))
    _check_guard_table(run, Q + "[int]", _guards(ib.body), _key_cases(spec),
                       _key_parser(), [("le", pred.ZERO, "bits", 1)], mod,
                       ib, what="index")
    run.ob("R-FRAME-EXC", Q + "#other key type", _fallthrough_typeerror(fn)
           and spec["other key type"] == "TypeError",
           "a key that is neither int nor slice must raise TypeError",
           where(mod, fn))


def _setitem(run, mod, c):
    fn = c.methods["__setitem__"][1]
    Q = FR + ".Frame.__setitem__"
    cfg = CFG(fn, may_raise=explicit_raise_only, name=Q)
    # ---- VBM: no raise reachable after a store; stores last -----------------
    run.rule("R-FRAME-VBM", "a rejected operation leaves the frame "
             "unchanged: no raise after a store; stores dominated by all "
             "guards")
    stores = [n for n in cfg.reachable if n.kind == "stmt" and isinstance(
        n.ast, ast.Assign) and unparse(n.ast.targets[0]) in (
            "self._data", "self._bits")]
    run.floor("Frame.__setitem__ store sites", len(stores), 3)
    for st in stores:
        bad = None
        seen, stack = set(), [m for (l, m) in st.succ]
        while stack:
            n = stack.pop()
            if n.id in seen:
                continue
            seen.add(n.id)
            if n.kind == "stmt" and isinstance(n.ast, ast.Raise):
                bad = n
            stack += [m for (l, m) in n.succ]
        run.ob("R-FRAME-VBM", "%s#no-raise-after-store@%s" % (
            Q, unparse(st.ast)[:40]), bad is None,
            "an exception can be raised after the frame was modified",
            where(mod, st))
    # ---- slice write: lanes ---------------------------------------------------
    sl = _branch(fn, "slice")
    facts = Facts("slice")
    env = {"self._data": BV([Seg(Lin.const(0), BITS, "data", Lin.const(0))]),
           "value": BV([Seg(Lin.const(0), W_, "value", Lin.const(0))])}
    syms = {"lo": LO, "hi": HI, "self._bits": BITS}
    li = LaneInterp(facts, dict(env), syms)
    final = None
    for s in sl.body:
        if isinstance(s, ast.Assign) and isinstance(s.targets[0], ast.Name) \
                and "self._readslice" not in unparse(s.value):
            li.env[s.targets[0].id] = li.bv(s.value)
        if isinstance(s, ast.Assign) and unparse(s.targets[0]) == \
                "self._data":
            final = li.bv(s.value)
    want = BV([Seg(Lin.const(0), LO, "data", Lin.const(0)),
               Seg(LO, HI + 1, "value", Lin.const(0)),
               Seg(HI + 1, BITS, "data", HI + 1)])
    ok = final is not None and li.alg.equal(final, want)
    run.ob("R-FRAME-LANES", Q + "#slice", ok,
           "writing [hi:lo] = value produces %r; expected data on [0,lo), "
           "value lanes 0..W-1 on [lo,hi], data on (hi,bits) and nothing "
           "else (%r)" % (final, want), where(mod, sl),
           sample={"rule": "R-FRAME-LANES", "operation": "f[hi:lo] = value",
                   "result_lanes": repr(final)})
    # ---- guards of the slice write ---------------------------------------------
    spec = _spec()["__setitem__"]
    covered = []        # lane intervals [a, b) of value that are rejected
    store_line = min([s.lineno for s in sl.body if isinstance(
        s, ast.Assign) and unparse(s.targets[0]) == "self._data"] or [0])
    plain = []
    fit_exc = set()
    guards_before_store = True
    for (t, exc, st) in _guards(sl.body):
        if st.lineno > store_line:
            guards_before_store = False
        iv = _rejected_lanes(t, li, facts) if "value" in unparse(t) else None
        if iv is not None:
            covered += iv
            fit_exc.add(exc)
        else:
            plain.append((t, exc, st))
    A = pred.Parser(pred.lin_of({"value": "value"}), _canon_prop)

    def f(src):
        return A.dnf(ast.parse(src, mode="eval").body)
    cases = [("value not int", f("not isinstance(value, int)"),
              spec["value not int"]),
             ("value negative", f("value < 0"), spec["value negative"])]
    _check_guard_table(run, Q + "[slice]", plain, cases, A, [], mod, sl,
                       what="value")
    run.ob("R-FRAME-EXC", Q + "#value too big", fit_exc <= {
        spec["value too big"]} and bool(fit_exc),
        "an oversized value must raise %s, raises %s" % (
            spec["value too big"], sorted(fit_exc)), where(mod, sl),
        sample={"rule": "R-FRAME-EXC", "method": "__setitem__",
                "case": "value too big", "raises": sorted(fit_exc)})
    alg = LaneAlg(facts)
    need = BV([Seg(W_, INF, "ones")])
    cov = BV([Seg(a, b, "ones") for (a, b) in covered])
    missing = alg.minus(need, cov) if covered else need
    low = BV([Seg(Lin.const(0), W_, "ones")])
    too_much = not alg.disjoint(cov, low) if covered else False
    run.ob("R-FRAME-LANES", Q + "#fit-guard", not missing.segs and
           not too_much and guards_before_store,
           "the guards before a slice write must reject exactly the values "
           "with a set bit at or above W = hi+1-lo; value lanes %r are NOT "
           "rejected%s: such a value is written into lanes at or above the "
           "frame's width and the frame's value leaves 0 <= value < 2^width"
           % (missing, " and legal lanes are rejected" if too_much else ""),
           where(mod, sl),
           sample={"rule": "R-FRAME-LANES", "operation": "fit guard",
                   "rejected_value_lanes": repr(cov)})
    # ---- bit write --------------------------------------------------------------
    ib = _branch(fn, "int")
    li2 = LaneInterp(Facts("bit"), {"self._data": BV([Seg(
        Lin.const(0), BITS, "data", Lin.const(0))])},
        {"key": KEY, "self._bits": BITS})
    setv = clrv = None
    for n in ast.walk(ib):
        if isinstance(n, ast.If) and unparse(n.test) == "value":
            for s in n.body:
                if isinstance(s, ast.Assign) and unparse(
                        s.targets[0]) == "self._data":
                    setv = li2.bv(s.value)
            for s in n.orelse:
                if isinstance(s, ast.Assign) and unparse(
                        s.targets[0]) == "self._data":
                    clrv = li2.bv(s.value)
    want_set = BV([Seg(Lin.const(0), KEY, "data", Lin.const(0)),
                   Seg(KEY, KEY + 1, "ones"),
                   Seg(KEY + 1, BITS, "data", KEY + 1)])
    want_clr = BV([Seg(Lin.const(0), KEY, "data", Lin.const(0)),
                   Seg(KEY + 1, BITS, "data", KEY + 1)])
    _check_guard_table(run, Q + "[int]", _guards(ib.body), _key_cases(spec),
                       _key_parser(), [("le", pred.ZERO, "bits", 1)], mod,
                       ib, what="index")
    run.ob("R-FRAME-EXC", Q + "#other key type", _fallthrough_typeerror(fn)
           and spec["other key type"] == "TypeError",
           "a key that is neither int nor slice must raise TypeError",
           where(mod, fn))
    guard = True
    run.ob("R-FRAME-LANES", Q + "#bit-set", setv is not None and
           li2.alg.equal(setv, want_set) and guard,
           "setting bit key gives %r, expected %r" % (setv, want_set),
           where(mod, ib))
    run.ob("R-FRAME-LANES", Q + "#bit-clear", clrv is not None and
           li2.alg.equal(clrv, want_clr) and guard,
           "clearing bit key gives %r, expected %r" % (clrv, want_clr),
           where(mod, ib),
           sample={"rule": "R-FRAME-LANES", "operation": "f[key] = False",
                   "result_lanes": repr(clrv)})


def _rejected_lanes(test, li, facts):
    """Value lanes whose being set makes `test` true, as [(a, b)] or None if
    the form is not recognised."""
    def lin(e):
        return li.lin(e)
    if isinstance(test, ast.Compare) and len(test.ops) == 1:
        l, op, r = test.left, test.ops[0], test.comparators[0]
        # value.bit_length() > n
        if unparse(l) == "value.bit_length()" and isinstance(op, ast.Gt):
            n = lin(r)
            if n is not None:
                return [(n, INF)]
        if unparse(l) == "value.bit_length()" and isinstance(op, ast.GtE):
            n = lin(r)
            if n is not None:
                return [(n - 1, INF)]
        # value >= 1 << n ; value > (1 << n) - 1
        if unparse(l) == "value" and isinstance(op, ast.GtE) and isinstance(
                r, ast.BinOp) and isinstance(r.op, ast.LShift) and unparse(
                    r.left) == "1":
            n = lin(r.right)
            if n is not None:
                return [(n, INF)]
        if unparse(l) == "value" and isinstance(op, ast.Gt) and isinstance(
                r, ast.BinOp) and isinstance(r.op, ast.Sub) and unparse(
                    r.right) == "1" and isinstance(
                        r.left, ast.BinOp) and isinstance(
                            r.left.op, ast.LShift) and unparse(
                                r.left.left) == "1":
            n = lin(r.left.right)
            if n is not None:
                return [(n, INF)]
        if isinstance(op, ast.NotEq) and unparse(r) == "0":
            return _rejected_lanes(l, li, facts)
    # truthiness of an expression in value
    if isinstance(test, ast.BinOp):
        if isinstance(test.op, ast.RShift) and unparse(test.left) == "value":
            n = lin(test.right)
            if n is not None:
                return [(n, INF)]
        if isinstance(test.op, ast.BitAnd):
            # (value << k) & mask  or  value & mask
            for (a, b) in ((test.left, test.right), (test.right, test.left)):
                k = None
                if unparse(a) == "value":
                    k = Lin.const(0)
                elif isinstance(a, ast.BinOp) and isinstance(
                        a.op, ast.LShift) and unparse(a.left) == "value":
                    k = lin(a.right)
                if k is None:
                    continue
                try:
                    m = li.bv(b)
                except AnalysisError:
                    return None
                if not all(s.src == "ones" for s in m.segs):
                    return None
                out = []
                for s in m.segs:
                    # mask lanes [a,b) correspond to value lanes [a-k, b-k)
                    lo_ = s.a - k
                    inf = isinstance(s.b, str)
                    hi_ = s.b if inf else s.b - k
                    if (not inf) and facts.le(hi_, 0):
                        continue
                    if not facts.le(0, lo_):
                        lo_ = Lin.const(0) if facts.le(lo_, 0) else None
                        if lo_ is None:
                            return None
                    out.append((lo_, hi_))
                return out
    return None


def _fit_form(t, var, width_syms):
    """Is test `t` one of the recognised spellings of `var >= 2**width`?"""
    if isinstance(t, ast.Compare) and len(t.ops) == 1:
        l, op, r = t.left, t.ops[0], t.comparators[0]
        if unparse(l) == var + ".bit_length()" and isinstance(op, ast.Gt) \
                and unparse(r) in width_syms:
            return True
        if unparse(l) == var and isinstance(op, ast.GtE) and unparse(r) in [
                f % w for w in width_syms for f in ("1 << %s", "2 ** %s",
                                                    "pow(2, %s)")]:
            return True
        if unparse(l) == var and isinstance(op, ast.Gt) and unparse(r) in [
                f % w for w in width_syms for f in ("(1 << %s) - 1",
                                                    "2 ** %s - 1")]:
            return True
        if isinstance(op, ast.NotEq) and unparse(r) == "0":
            return _fit_form(l, var, width_syms)
    if isinstance(t, ast.BinOp) and isinstance(t.op, ast.RShift) and \
            unparse(t.left) == var and unparse(t.right) in width_syms:
        return True
    return False


def _init(run, mod, c):
    fn = c.methods["__init__"][1]
    Q = FR + ".Frame.__init__"
    spec = _spec()["__init__"]
    sm = {"bits": "bits", "self._bits": "bits", "self._data": "data"}
    P = pred.Parser(pred.lin_of(sm), _canon_prop)
    plain, extra = [], []
    for (t, exc, st) in _guards(fn.body):
        if _fit_form(t, "self._data", ("bits", "self._bits")):
            extra.append((frozenset([frozenset([("p", "nofit", True)])]),
                          exc, st))
        else:
            plain.append((t, exc, st))
    A = pred.Parser(pred.lin_of({"bits": "bits", "data": "data"}),
                    _canon_prop)

    def f(src):
        return A.dnf(ast.parse(src, mode="eval").body)
    cases = [("bits not int", f("not isinstance(bits, int)"),
              spec["bits not int"]),
             ("bits < 1", f("bits < 1"), spec["bits < 1"]),
             ("data negative", f("data < 0"), spec["data negative"]),
             ("data too big", frozenset([frozenset([("p", "nofit", True)])]),
              spec["data too big"])]
    run.floor("Frame.__init__ guards", len(plain) + len(extra), 4)
    _check_guard_table(run, Q, plain, cases, P, [], mod, fn,
                       what="argument", extra=extra)
    conv = False
    for n in ast.walk(fn):
        if isinstance(n, ast.Call) and unparse(n.func) == "int.from_bytes":
            order = [unparse(a) for a in n.args[1:2]] + [
                unparse(k.value) for k in n.keywords if k.arg == "byteorder"]
            conv = order == ["'big'"]
    run.ob("R-FRAME-VIEW", Q + "#byte-sequence-big-endian", conv,
           "a byte sequence given as initial data is read big-endian "
           "(int.from_bytes(data, 'big'))", where(mod, fn))
    # subclasses that override __init__ go through it
    for k in c.world.class_order:
        if c in k.mro and k is not c and "__init__" in k.methods:
            f2 = k.methods["__init__"][1]
            run.ob("R-FRAME-LANES", k.qname + ".__init__#via-base",
                   any("super().__init__(" in unparse(s) for s in f2.body),
                   "Frame subclass constructor bypasses the validating base "
                   "constructor", where(mod, f2), trivial=True)


def _returns(fn):
    return [n.value for n in ast.walk(fn) if isinstance(n, ast.Return)
            and n.value is not None]


def _data_identity(li, e):
    """Does integer expression e denote exactly the frame's value?"""
    t = unparse(e)
    if t in ("self.as_integer", "int(self._data)"):
        return True
    return li.alg.equal(li.bv(e), BV([Seg(Lin.const(0), BITS, "data",
                                           Lin.const(0))]))


def _to_bytes_call(e):
    """(receiver, length expr, byteorder text) of X.to_bytes(n, order)."""
    if isinstance(e, ast.Call) and isinstance(e.func, ast.Attribute) and \
            e.func.attr == "to_bytes":
        args = list(e.args)
        kw = {k.arg: k.value for k in e.keywords}
        n = args[0] if args else kw.get("length")
        o = args[1] if len(args) > 1 else kw.get("byteorder")
        return e.func.value, n, (unparse(o) if o is not None else None)
    return None


def _add_contains_views(run, world, mod, c):
    run.rule("R-FRAME-VIEW", "views read only _data/_bits and are the "
             "big-endian encodings of the same number; equality = same "
             "width and bits")
    fn = c.methods["__add__"][1]
    Q = FR + ".Frame.__add__"
    call = None
    for n in ast.walk(fn):
        if isinstance(n, ast.Call) and unparse(n.func) == "Frame" and len(
                n.args) == 2:
            call = n
    if call is None:
        raise AnalysisError("%s: no Frame(width, value) construction" % Q)
    A, B = Lin.sym("a"), Lin.sym("b")
    li = LaneInterp(Facts("add"), {
        "self._data": BV([Seg(Lin.const(0), A, "data", Lin.const(0))]),
        "other._data": BV([Seg(Lin.const(0), B, "other", Lin.const(0))])},
        {"self._bits": A, "other._bits": B, "len(self)": A,
         "len(other)": B})
    width = li.lin(call.args[0])
    got = li.bv(call.args[1])
    want = BV([Seg(Lin.const(0), B, "other", Lin.const(0)),
               Seg(B, A + B, "data", Lin.const(0))])
    ok = width == A + B and li.alg.equal(got, want)
    run.ob("R-FRAME-LANES", Q, ok,
           "concatenation must give width a+b with the right operand on "
           "lanes [0,b) and the left operand on [b,a+b); got width %r lanes "
           "%r" % (width, got), where(mod, fn),
           sample={"rule": "R-FRAME-LANES", "operation": "f + g",
                   "result_lanes": repr(got)})
    hs = [(unparse(h.type), [_exc_name(x) for x in ast.walk(h)
                             if isinstance(x, ast.Raise)])
          for n in ast.walk(fn) if isinstance(n, ast.Try)
          for h in n.handlers if h.type is not None]
    spec = _spec()
    run.ob("R-FRAME-EXC", Q + "#not a frame", any(
        t in ("Exception", "AttributeError", "(AttributeError, TypeError)")
        and r == [spec["__add__"]["not a frame"]] for (t, r) in hs),
        "adding a non-frame must raise TypeError", where(mod, fn))
    # ---- views ------------------------------------------------------------
    lw = LaneInterp(Facts("width"), {"self._data": BV([Seg(
        Lin.const(0), BITS, "data", Lin.const(0))])},
        {"self._bits": BITS, "len(self)": BITS})

    def one_return(name):
        f2 = c.methods[name][1]
        r = _returns(f2)
        if len(r) != 1:
            raise AnalysisError("Frame.%s: expected a single return" % name)
        return f2, r[0]
    f2, r = one_return("as_integer")
    run.ob("R-FRAME-VIEW", FR + ".Frame.as_integer", _data_identity(lw, r),
           "as_integer returns `%s`, not the frame's value" % unparse(r),
           where(mod, f2))
    f2, r = one_return("__len__")
    run.ob("R-FRAME-VIEW", FR + ".Frame.__len__", lw.lin(r) == BITS,
           "len() returns `%s`, not the width" % unparse(r), where(mod, f2))

    def check_pack(name, e, f2, fixed):
        tb = _to_bytes_call(e)
        if tb is None:
            raise AnalysisError("Frame.%s: `%s` is not an int.to_bytes call"
                                % (name, unparse(e)))
        recv, n, order = tb
        okv = _data_identity(lw, recv) and order == "'big'"
        msg = "%s encodes `%s` with byte order %s" % (name, unparse(recv),
                                                      order)
        if fixed:
            okn = unparse(n) == f2.args.args[1].arg
        else:
            okn = True
            for r8 in range(8):
                q = pred.residue_eval(n, ("len(self)", "self._bits"), 8, r8)
                if q != pred.QLin(1, 1 if r8 else 0):
                    okn = False
                    msg += "; length `%s` is %r bytes for width 8q+%d, " \
                        "expected q%s" % (unparse(n), q, r8,
                                          "+1" if r8 else "")
                    break
        run.ob("R-FRAME-VIEW", "%s.Frame.%s" % (FR, name), okv and okn,
               msg + " (must be the big-endian encoding of the value in "
               "ceil(width/8) bytes)" if not fixed else msg,
               where(mod, f2),
               sample={"rule": "R-FRAME-VIEW", "view": name,
                       "length": unparse(n), "order": order})
    f2, r = one_return("pack")
    check_pack("pack", r, f2, False)
    f2, r = one_return("pack_len")
    check_pack("pack_len", r, f2, True)
    f2, r = one_return("as_byte_sequence")
    src = None
    if isinstance(r, ast.Call) and unparse(r.func) == "list" and len(
            r.args) == 1:
        src = r.args[0]
    elif isinstance(r, ast.ListComp) and len(r.generators) == 1 and \
            unparse(r.elt) == unparse(r.generators[0].target) and \
            not r.generators[0].ifs:
        src = r.generators[0].iter
    if src is None:
        raise AnalysisError("Frame.as_byte_sequence: `%s` is not list(...) "
                            "over the packed bytes" % unparse(r))
    if unparse(src) == "self.pack":
        run.ob("R-FRAME-VIEW", FR + ".Frame.as_byte_sequence", True)
    else:
        check_pack("as_byte_sequence", src, f2, False)
    # ---- equality ---------------------------------------------------------
    def eq_prop(e):
        t = unparse(e, 200)
        for a, b in (("len(self)", "self._bits"), ("len(other)",
                                                   "other._bits"),
                     ("self.as_integer", "self._data"),
                     ("other.as_integer", "other._data")):
            t = t.replace(a, b)
        return t
    E = pred.Parser(lambda e: None, eq_prop)
    want_eq = frozenset([frozenset([
        ("p", "other._bits == self._bits", True),
        ("p", "other._data == self._data", True)])])
    eq_formula = {}
    for name, const in (("__eq__", False), ("__ne__", True)):
        f2 = c.methods[name][1]
        rs = _returns(f2)
        consts = [x for x in rs if isinstance(x, ast.Constant)]
        main = [x for x in rs if not isinstance(x, ast.Constant)]
        if len(main) != 1:
            raise AnalysisError("Frame.%s: expected one comparison" % name)
        m = main[0]
        neg = False
        if isinstance(m, ast.UnaryOp) and isinstance(m.op, ast.Not) and \
                unparse(m.operand) in ("self == other",
                                       "self.__eq__(other)"):
            d = pred.neg_dnf(eq_formula["__eq__"])
        else:
            d = E.dnf(m)
        eq_formula[name] = d
        want = want_eq if name == "__eq__" else pred.neg_dnf(want_eq)
        ok, w = pred.equivalent(d, want)
        run.ob("R-FRAME-VIEW", "%s.Frame.%s" % (FR, name), ok and all(
            x.value is const for x in consts),
            "%s is `%s`; equality must mean same width and same bits (%s)"
            % (name, unparse(m), pred.show(want)), where(mod, f2))
    # ---- membership ---------------------------------------------------------
    cf = c.methods["__contains__"][1]
    got = {}
    for n in ast.walk(cf):
        if isinstance(n, ast.If) and isinstance(n.test, ast.Compare) and \
                unparse(n.test.left) == "item" and isinstance(
                    n.test.ops[0], ast.Is) and n.body and isinstance(
                        n.body[0], ast.Return):
            got[unparse(n.test.comparators[0])] = n.body[0].value

    def nonzero_test(e):
        """e is `X != K`; returns (X, K)."""
        if isinstance(e, ast.Compare) and len(e.ops) == 1 and isinstance(
                e.ops[0], ast.NotEq):
            return e.left, e.comparators[0]
        if isinstance(e, ast.Call) and unparse(e.func) == "bool" and len(
                e.args) == 1:
            return e.args[0], ast.Constant(0)
        return None, None
    okc = False
    if set(got) == {"True", "False"}:
        x1, k1 = nonzero_test(got["True"])
        x0, k0 = nonzero_test(got["False"])
        if x1 is not None and x0 is not None:
            okc = _data_identity(lw, x1) and unparse(k1) == "0" and \
                _data_identity(lw, x0) and lw.alg.equal(
                    lw.bv(k0), BV([Seg(Lin.const(0), BITS, "ones")]))
    else:
        raise AnalysisError("Frame.__contains__: `item is True/False` "
                            "branches not found")
    last = cf.body[-1]
    run.ob("R-FRAME-VIEW", FR + ".Frame.__contains__", okc and isinstance(
        last, ast.Return) and unparse(last.value) == "False",
        "True in f <=> some bit set; False in f <=> some bit clear (all "
        "`width` lanes); anything else is not contained", where(mod, cf))
    # views do not write
    for name in ["as_integer", "as_byte_sequence", "pack", "pack_len",
                 "__len__", "__eq__", "__ne__", "__getitem__",
                 "__contains__", "__add__", "__str__", "_readslice"]:
        f2 = c.methods[name][1]
        w = [unparse(n) for n in ast.walk(f2) if isinstance(
            n, ast.Attribute) and isinstance(n.ctx, (ast.Store, ast.Del))]
        run.ob("R-FRAME-VIEW", "%s.Frame.%s#read-only" % (FR, name), not w,
               "%s modifies %s" % (name, w), where(mod, f2), trivial=True)
