"""C02 - every constructible command decodes back to itself; illegal
arguments are rejected: R-INJ (registry injectivity), R-CODEC-1 (encode ->
decode identity per class and constructor shape, abstract interpretation),
R-VALID (no unvalidated / truncated parameter reaches a frame), R-KIND (wrong
address kind refused)."""
import ast

from ..core import AnalysisError, unparse, where
from ..fold import Folder
from ..front import ClassInfo
from .. import cmdtable
from ..codec import (Interp, State, Raise, Obj, AFrame, ClsRef, Ref, IvInt,
                     NonInt, Unsupported, iv_to_lanes)
from ..codec_run import (construct, build_address, same_value, decode_frame,
                         frame_of, cube_str, GEAR_DESTS, DEVICE_DESTS,
                         INSTANCES, ADDR)

GENERIC = {"UnknownGearCommand", "UnknownDeviceCommand", "UnknownEvent",
           "AmbiguousInstanceType"}
MARKERS = ("UNVALIDATED:", "TRUNCATED:")


def check(run, repo, world):
    run.explanation = (
        "(R-CODEC-1) for every concrete command / event class and every "
        "constructor shape (destination kind x instance kind x parameter "
        "form, integer destinations, MASK/OFF literal forms, the five event "
        "addressing schemes) the constructor is abstractly interpreted with "
        "symbolic parameters (an unvalidated int is an interval that the "
        "constructor's own guards split; what survives becomes symbolic "
        "lanes), the decoder chain is interpreted on the resulting frame "
        "under the class's device type (and a map naming its instance type "
        "for device/instance events), and every decode leaf must be the "
        "same class with, field by field, the same lanes - for all legal "
        "argument values at once.  (R-VALID) a parameter that reaches a "
        "frame-building expression without having been bounded by a raising "
        "guard, or through a mask, is reported.  (R-KIND) address objects of "
        "the wrong family, and instance objects, must be refused as "
        "destinations.  (R-INJ) no registration overwrites another "
        "command's decode key.  The excluded shape is the `Device` instance "
        "byte 0xFE on an instance command, as the property states.  NOT "
        "decided: the exact exception type raised for each illegal value.")
    run.assumptions += ["Frame.__setitem__ refuses values that do not fit "
                        "(C05)", "the interpreted Python subset of codec.py"]
    folder = Folder(world)
    rx = cmdtable.registries(world, folder)
    rows = cmdtable.extract(world, folder, rx)
    run.floor("concrete command classes", len(rows), 329)

    # ---- R-INJ -----------------------------------------------------------------
    run.rule("R-INJ", "no two commands share a decode-registry key")
    for (regname, key, old, new) in rx.collisions:
        on = getattr(old, "name", old)
        nn = getattr(new, "name", new)
        if str(on).startswith("_") or str(nn).startswith("_"):
            continue
        run.ob("R-INJ", "%s[%r]" % (regname, key), False,
               "registry %s key %r is registered for %s and then "
               "overwritten by %s: two commands share a frame" % (
                   regname, key, on, nn))
    run.ob("R-INJ", "all-registries", True, trivial=True,
           sample={"rule": "R-INJ", "collisions": len(rx.collisions)})
    # (addr, instance) pairs of special device commands
    seen = {}
    for r in rows:
        if r.family == "_SpecialDeviceCommand" and r.addr is not None:
            names = [k.name for k in r.cls.mro if isinstance(k, ClassInfo)]
            key = (r.addr,) if "_SpecialDeviceCommandTwoParam" in names \
                else (r.addr, r.instance)
            for k2, other in seen.items():
                if k2[:len(key)] == key[:len(k2)]:
                    run.ob("R-INJ", "special-device:%s/%s" % (
                        other.name, r.name), False,
                        "special device commands %s and %s share the byte "
                        "pattern %s" % (other.name, r.name, key))
            seen[key] = r

    # ---- shapes ----------------------------------------------------------------
    run.rule("R-CODEC-1", "decode(constructor(args).frame) is the same "
             "class with equal fields, for every legal shape")
    run.rule("R-VALID", "every parameter is bounded by a raising guard (or "
             "a fitting slice store) before it reaches the frame")
    nshapes = 0
    nleaves = 0
    for r in rows:
        if r.name in GENERIC:
            continue
        shapes = list(_shapes(world, r))
        mod = repo.mod(r.mod)
        ok_shapes = 0
        for (label, builder, dec) in shapes:
            nshapes += 1
            I = Interp(world, rx, folder)
            st = State()
            try:
                outs = builder(I, st)
            except Unsupported as e:
                raise AnalysisError("%s %s: %s" % (r.cls.qname, label, e))
            good = [(v, s) for (v, s) in outs if not isinstance(v, Raise)]
            for (v, s) in outs:
                if isinstance(v, Raise) and str(v.exc).startswith(MARKERS):
                    kind, pname = str(v.exc).split(":", 1)
                    run.ob("R-VALID", "%s#%s:%s" % (r.cls.qname, pname,
                                                    kind.lower()), False,
                           "constructor argument `%s` %s: an out-of-range "
                           "value is not rejected but silently changes the "
                           "frame (shape %s)" % (
                               pname, "reaches the frame without a "
                               "dominating range guard" if kind ==
                               "UNVALIDATED" else "is masked instead of "
                               "validated", label),
                           where(mod, r.cls.node))
            if not good:
                if label.startswith("!"):
                    continue      # a shape expected to be refused
                run.ob("R-CODEC-1", "%s#%s#constructible" % (r.cls.qname,
                                                             label), False,
                       "the constructor refuses every value of the legal "
                       "shape %s: %s" % (label, [str(v.exc)[:50]
                                                 for v, s in outs][:3]),
                       where(mod, r.cls.node))
                continue
            if label.startswith("!"):
                run.ob("R-KIND", "%s#%s" % (r.cls.qname, label[1:]), False,
                       "a destination of the wrong kind (%s) is accepted "
                       "instead of being refused" % label[1:],
                       where(mod, r.cls.node))
                continue
            ok_shapes += 1
            for (v, s) in good:
                iv_to_lanes({}, s)
                fr = s.d(s.d(v).f.get("_data")) if isinstance(
                    s.d(v), Obj) else None
                if not isinstance(fr, AFrame):
                    run.ob("R-CODEC-1", "%s#%s#frame" % (r.cls.qname, label),
                           False, "constructed object carries no frame",
                           where(mod, r.cls.node))
                    continue
                try:
                    douts = decode_frame(I, world, s, s.d(v).f["_data"],
                                         **dec)
                except Unsupported as e:
                    raise AnalysisError("%s %s (decode): %s" % (
                        r.cls.qname, label, e))
                for (dv, ds) in douts:
                    nleaves += 1
                    if isinstance(dv, Raise):
                        diffs = ["decoding raises %s" % dv.exc]
                    elif dv is None:
                        diffs = ["decoder returns None"]
                    else:
                        diffs = same_value(ds, v, dv)
                    run.ob("R-CODEC-1", "%s#%s" % (r.cls.qname, label),
                           not diffs,
                           "encode -> decode is not the identity for shape "
                           "%s: %s (frame %r, case %s)" % (
                               label, "; ".join(diffs[:3]), fr,
                               cube_str(ds)), where(mod, r.cls.node),
                           sample={"rule": "R-CODEC-1", "class": r.name,
                                   "shape": label, "frame": repr(fr)}
                           if r.name in ("SetScene", "ProgramShortAddress",
                                         "LightEvent") and nleaves % 3 == 0
                           else None)
        if ok_shapes == 0 and shapes:
            run.ob("R-CODEC-1", r.cls.qname + "#no-legal-shape", False,
                   "no constructor shape of %s could be built" % r.name,
                   where(mod, r.cls.node))
    run.count(nleaves)
    run.floor("constructor shapes interpreted", nshapes, 1500)
    run.floor("encode->decode leaf cases", nleaves, 2000)
    _address_ctor_validation(run, repo, world, rx, folder)


# ---------------------------------------------------------------------------
def _shapes(world, r):
    """Yield (label, builder(I, st) -> [(Ref|Raise, state)], decode kwargs)."""
    c = r.cls
    fam = r.family
    dt = r.devicetype or 0
    dec = {"devicetype": dt}

    def with_dest(kinds, make_args, wrong=False):
        for kind in kinds:
            def b(I, st, kind=kind):
                out = []
                for (a, s1) in build_address(I, world, st, kind, "dest"):
                    args, kwargs = make_args(a)
                    out += construct(I, s1, c, args, kwargs)
                return out
            yield (("!" if wrong else "") + kind, b, dec)

    if fam == "_StandardCommand":
        extra = (lambda: [IvInt("param")]) if r.hasparam else (lambda: [])
        yield from with_dest(GEAR_DESTS, lambda a: ([a] + extra(), {}))
        yield ("int", lambda I, st: construct(
            I, st, c, [IvInt("dest")] + extra(), {}), dec)
        if r.name in ("Off", "SetScene", "QueryStatus"):
            yield from with_dest(DEVICE_DESTS + INSTANCES[:2],
                                 lambda a: ([a] + extra(), {}), wrong=True)
            yield ("!nonint", lambda I, st: construct(
                I, st, c, [NonInt()] + extra(), {}), dec)
        if r.hasparam:
            # a parameter of another type (a float, a numeric string) is
            # refused, not converted into some scene / group number
            def bp(I, st):
                out = []
                for (a, s1) in build_address(I, world, st, "GearShort",
                                             "dest"):
                    out += construct(I, s1, c, [a, NonInt()], {})
                return out
            yield ("!param=nonint", bp, dec)
    elif fam == "DAPC":
        yield from with_dest(GEAR_DESTS, lambda a: ([a, IvInt("power")], {}))
        for lit in ("OFF", "MASK"):
            yield from ((k + "/" + lit, b, d) for (k, b, d) in with_dest(
                GEAR_DESTS[:1], lambda a, lit=lit: ([a, lit], {})))
        yield from with_dest(DEVICE_DESTS[:1],
                             lambda a: ([a, IvInt("power")], {}), wrong=True)
    elif fam in ("_SpecialCommand", "_ShortAddrSpecialCommand"):
        r0 = c.lookup("__init__")
        fn = r0[2]
        params = [a.arg for a in fn.args.args][1:]
        defaults = fn.args.defaults
        if r.name == "Initialise":
            yield ("unaddressed", lambda I, st: construct(I, st, c, [], {}),
                   dec)
            yield ("broadcast", lambda I, st: construct(
                I, st, c, [], {"broadcast": True}), dec)
            yield ("address", lambda I, st: construct(
                I, st, c, [], {"address": IvInt("address")}), dec)
            # both at once contradict each other: refused (the frame of a
            # broadcast has no room for the address, which would be lost)
            yield ("!broadcast+address", lambda I, st: construct(
                I, st, c, [], {"broadcast": True,
                               "address": IvInt("address")}), dec)
        elif fam == "_ShortAddrSpecialCommand":
            yield ("address", lambda I, st: construct(
                I, st, c, [IvInt("address")], {}), dec)
            yield ("MASK", lambda I, st: construct(I, st, c, ["MASK"], {}),
                   dec)
        elif r.hasparam:
            yield ("param", lambda I, st: construct(
                I, st, c, [IvInt("param")], {}), dec)
        else:
            yield ("noarg", lambda I, st: construct(I, st, c, [], {}), dec)
    elif fam == "_StandardDeviceCommand":
        yield from with_dest(DEVICE_DESTS, lambda a: ([a], {}))
        if r.name in ("IdentifyDevice", "QueryDeviceStatus"):
            yield from with_dest(GEAR_DESTS + INSTANCES[:3] + ["Device"],
                                 lambda a: ([a], {}), wrong=True)
            yield ("!int", lambda I, st: construct(
                I, st, c, [IvInt("dest")], {}), dec)
    elif fam == "_StandardInstanceCommand":
        for ik in INSTANCES:
            if ik == "Device":
                continue     # the property's excluded combination
            for dk in (DEVICE_DESTS if r.name in (
                    "SetEventFilter", "QueryInstanceType", "SetShortTimer")
                    else DEVICE_DESTS[:2]):
                def b(I, st, ik=ik, dk=dk):
                    out = []
                    for (a, s1) in build_address(I, world, st, dk, "dest"):
                        for (i, s2) in build_address(I, world, s1, ik,
                                                     "inst"):
                            out += construct(I, s2, c, [a, i], {})
                    return out
                yield ("%s,%s" % (dk, ik), b, dec)
        if r.name == "QueryInstanceType":
            def bw(I, st):
                out = []
                for (a, s1) in build_address(I, world, st, "DeviceShort",
                                             "dest"):
                    out += construct(I, s1, c, [a, IvInt("inst")], {})
                return out
            yield ("!instance=int", bw, dec)

            # ... and an address object of the other family: it also has an
            # add_to_frame(), which writes the address bits of the frame
            def bw2(I, st):
                out = []
                for (a, s1) in build_address(I, world, st, "DeviceBroadcast",
                                             "dest"):
                    for (i, s2) in build_address(I, world, s1, "DeviceShort",
                                                 "inst"):
                        out += construct(I, s2, c, [a, i], {})
                return out
            yield ("!instance=device-address", bw2, dec)
    elif fam == "_SpecialDeviceCommand":
        names = [k.name for k in c.mro if isinstance(k, ClassInfo)]
        if "_SpecialDeviceCommandTwoParam" in names:
            yield ("a,b", lambda I, st: construct(
                I, st, c, [IvInt("a"), IvInt("b")], {}), dec)
        elif "_SpecialDeviceCommandOneParam" in names:
            yield ("param", lambda I, st: construct(
                I, st, c, [IvInt("param")], {}), dec)
        else:
            r0 = c.lookup("__init__")
            params = [a.arg for a in r0[2].args.args][1:]
            if not params:
                yield ("noarg", lambda I, st: construct(I, st, c, [], {}),
                       dec)
            else:
                # Initialise(address)-like constructors of part 103
                for form in _special_device_forms(c, r0[2]):
                    yield form + (dec,)
    elif fam == "_Event":
        it = r.instance_type
        data_forms = _event_data_forms(r)
        for (dlabel, dmk) in data_forms:
            for (slabel, kw, mm) in (
                    ("device", lambda: {"short_address": IvInt("sa")},
                     None),
                    ("device/instance", lambda: {
                        "short_address": IvInt("sa"),
                        "instance_number": IvInt("inum")}, it),
                    ("device_group", lambda: {"device_group": IvInt("dg")},
                     None),
                    ("instance_group", lambda: {
                        "instance_group": IvInt("ig")}, None),
                    ("instance", lambda: {"instance_number": IvInt("inum")},
                     None)):
                def b(I, st, kw=kw, dmk=dmk):
                    k = kw()
                    k.update(dmk())
                    return construct(I, st, c, [], k)
                d2 = dict(dec)
                if mm is not None:
                    d2.update({"mapmode": "type", "map_type": mm})
                yield ("%s%s" % (slabel, dlabel), b, d2)
        # data given to an event class that carries none: the default
        # _set_event_data ignores it, so the frame (and what it decodes to)
        # is that of the class; a constructor that writes the data over the
        # event information bits sends another event's frame
        sd = c.lookup("_set_event_data")
        if sd is not None and getattr(sd[0], "name", None) == "_Event" \
                and r.name not in ("LightEvent", "OccupancyEvent"):
            yield ("device+ignored-data", lambda I, st: construct(
                I, st, c, [], {"short_address": IvInt("sa"),
                               "data": IvInt("data")}), dec)
        # DeviceShort object instead of an int
        def bo(I, st):
            out = []
            for (a, s1) in build_address(I, world, st, "DeviceShort", "sa"):
                k = {"short_address": a}
                k.update(data_forms[0][1]())
                out += construct(I, s1, c, [], k)
            return out
        yield ("device(obj)" + data_forms[0][0], bo, dec)
        # an address object of the wrong kind as short_address: the bits a
        # group / broadcast address writes select another addressing scheme
        if r.name in ("ButtonPressed", "LightEvent", "OccupancyEvent",
                      "UnknownEvent"):
            for kind in [k for k in DEVICE_DESTS if k != "DeviceShort"] + \
                    GEAR_DESTS[:2]:
                for inum in (False, True):
                    def bw(I, st, kind=kind, inum=inum):
                        out = []
                        for (a, s1) in build_address(I, world, st, kind,
                                                     "sa"):
                            k = {"short_address": a}
                            if inum:
                                k["instance_number"] = IvInt("inum")
                            k.update(data_forms[0][1]())
                            out += construct(I, s1, c, [], k)
                        return out
                    yield ("!short_address=%s%s%s" % (
                        kind, ",inum" if inum else "", data_forms[0][0]),
                        bw, dec)


def _event_data_forms(r):
    if r.name == "LightEvent":
        return [("+data", lambda: {"data": IvInt("data")})]
    if r.name == "OccupancyEvent":
        return [("+data", lambda: {"data": IvInt("data")})]
    return [("", lambda: {})]


def _special_device_forms(c, fn):
    params = [a.arg for a in fn.args.args][1:]
    forms = []
    if params == ["address"] or params == ["broadcast", "address"] or \
            "address" in params:
        forms.append(("address", lambda I, st: construct(
            I, st, c, [], {"address": IvInt("address")})))
        forms.append(("default", lambda I, st: construct(I, st, c, [], {})))
        if "broadcast" in params:
            forms.append(("broadcast", lambda I, st: construct(
                I, st, c, [], {"broadcast": True})))
    else:
        forms.append(("params", lambda I, st: construct(
            I, st, c, [IvInt(p) for p in params], {})))
    return forms


def _address_ctor_validation(run, repo, world, rx, folder):
    """R-VALID on the address / instance constructors themselves: the
    accepted interval equals the field width."""
    want = {"GearShort": 63, "GearGroup": 15, "DeviceShort": 63,
            "DeviceGroup": 31, "InstanceNumber": 31, "InstanceGroup": 31,
            "InstanceType": 31, "FeatureInstanceNumber": 31,
            "FeatureInstanceGroup": 31, "FeatureInstanceType": 31}
    mod = repo.mod("dali.address")
    for kind, hi in want.items():
        c = world.cls(ADDR + kind)
        I = Interp(world, rx, folder)
        st = State()
        outs = construct(I, st, c, [IvInt("n")], {})
        ok = False
        rng = None
        for (v, s) in outs:
            if isinstance(v, Raise):
                if str(v.exc).startswith(MARKERS):
                    rng = str(v.exc)
                continue
            o = s.d(v)
            for val in o.f.values():
                if isinstance(val, IvInt):
                    rng = (val.lo, val.hi)
                    ok = (val.lo, val.hi) == (0, hi)
        run.ob("R-VALID", "%s%s#range" % (ADDR, kind), ok,
               "%s accepts numbers in %s, the field holds 0..%d" % (
                   kind, rng, hi), where(mod, c.node),
               sample={"rule": "R-VALID", "class": kind, "accepted": rng}
               if kind == "GearGroup" else None)
        outs = construct(I, State(), c, [NonInt()], {})
        run.ob("R-VALID", "%s%s#nonint" % (ADDR, kind),
               all(isinstance(v, Raise) for (v, s) in outs) and bool(outs),
               "%s accepts a non-integer number" % kind, where(mod, c.node),
               trivial=True)
