"""C18 - gateway wire formats: packet templates vs per-gateway spec
(R-WIRE-*), sequence-number generators (R-SEQ), bytes/str discipline of
written data (R-BYTES)."""
import ast
import json
import os
import struct

from ..core import AnalysisError, unparse, where, VERIF
from ..fold import Folder, UNKNOWN, ClassRef
from ..drv import HID, SER, call_sites

DS = "dali.driver.daliserver"
ATX = "dali.driver.atxled"
LTRI = "dali.driver.tridonic"
LHAS = "dali.driver.hasseb"
UNI = "dali.driver.unipi"


def _spec(name):
    return json.load(open(os.path.join(VERIF, "spec", "wire", name)))


def _m(world, cq, name):
    r = world.method(cq, name)
    return r[0], r[2]


def _fold(folder, owner, e):
    return folder.eval(e, {"self": ClassRef(owner), "cls": ClassRef(owner),
                           owner.name: ClassRef(owner)}, owner.mod)


def check(run, repo, world):
    run.explanation = (
        "Per driver the packet-building expressions are reduced with the "
        "constant folder to a template (constants, frame-byte lanes, flag "
        "expressions) and compared with the hand-transcribed protocol "
        "descriptions in spec/wire: struct formats and sizes, field order, "
        "mode/length codes per frame size, send-twice flag iff "
        "command.sendtwice, right/left alignment of the frame bytes, length "
        "literal vs number of payload elements, checksum span, refusal of "
        "frame lengths the gateway cannot carry before anything is written; "
        "sequence-number generators are analysed as transition systems "
        "(interval fixpoint for the range, composition of two consecutive "
        "steps for non-repetition).  Where the only description of a "
        "protocol is the driver's own docstring (legacy Tridonic, UniPi) the "
        "check is one of internal consistency (construct <-> documented "
        "layout <-> extract).")
    run.assumptions += ["spec/wire/*.json transcriptions",
                        "struct.calcsize semantics"]
    folder = Folder(world)
    _tridonic(run, repo, world, folder)
    _hasseb(run, repo, world, folder)
    _luba(run, repo, world, folder)
    _sci(run, repo, world, folder)
    _daliserver(run, repo, world, folder)
    _atx(run, repo, world, folder)
    _legacy(run, repo, world, folder)
    _seq(run, repo, world, folder)
    # reply decoding (status code -> outcome tables), shared with C16
    from .C16 import _check_stat
    _check_stat(run, repo, world, folder)


def _refusal(fn, test_texts, exc):
    """An `if <test>: raise <exc>` exists in fn before any write call."""
    for n in ast.walk(fn):
        if isinstance(n, ast.If) and unparse(n.test) in test_texts and any(
                isinstance(s, ast.Raise) and exc in unparse(s)
                for s in n.body):
            # precedes every write
            first_write = min([c.lineno for c in call_sites(fn)
                               if unparse(c.func).endswith(".write") or
                               unparse(c.func) == "os.write"] or [10 ** 9])
            return n.lineno < first_write
    return False


# ---------------------------------------------------------------------------
def _tridonic(run, repo, world, folder):
    run.rule("R-WIRE-TRIDONIC", "64-byte command/response templates, field "
             "order, mode code per frame size, send-twice control bit, "
             "right-aligned frame, refusal of other lengths")
    sp = _spec("hid.json")["tridonic"]
    mod = repo.mod(HID)
    c = world.cls(HID + ".tridonic")
    Q = HID + ".tridonic"
    fmts = {}
    for (nm, e, st) in c.attr_order:
        if nm in ("_cmdtmpl", "_resptmpl") and isinstance(e, ast.Call) and \
                unparse(e.func) == "struct.Struct" and isinstance(
                    e.args[0], ast.Constant):
            fmts[nm] = e.args[0].value
    run.ob("R-WIRE-TRIDONIC", Q + "#_cmdtmpl",
           fmts.get("_cmdtmpl") == sp["command_format"] and struct.calcsize(
               fmts.get("_cmdtmpl", "")) == sp["packet_size"],
           "command template %r (size %s), protocol %r (size %d)" % (
               fmts.get("_cmdtmpl"), struct.calcsize(fmts.get(
                   "_cmdtmpl", "")), sp["command_format"],
               sp["packet_size"]), where(mod, c.node),
           sample={"rule": "R-WIRE-TRIDONIC", "format": fmts.get("_cmdtmpl"),
                   "size": struct.calcsize(fmts.get("_cmdtmpl", ""))})
    run.ob("R-WIRE-TRIDONIC", Q + "#_resptmpl",
           fmts.get("_resptmpl") == sp["response_format"] and
           struct.calcsize(fmts.get("_resptmpl", "")) == sp["packet_size"],
           "response template %r, protocol %r" % (fmts.get("_resptmpl"),
                                                  sp["response_format"]),
           where(mod, c.node))
    o, cmdfn = _m(world, Q, "_cmd")
    # the packet builder is evaluated with one symbol per parameter, in the
    # order of its signature (callers pass cmd and the sequence number by
    # position, the rest by keyword - the packets of those callers are
    # evaluated separately below): byte k of the packet is field k
    from ..wireval import WireEval as _WE, Sym as _Sym
    params = [a.arg for a in cmdfn.args.args]
    if len(params) != 8:
        raise AnalysisError("tridonic._cmd: expected the eight packet fields "
                            "as parameters, found %s" % params)
    fr4 = [_Sym("f%d" % k) for k in range(4)]
    binds = {}
    for k, pn in enumerate(params):
        binds[pn] = fr4 if k == 4 else _Sym("p%d" % k)
    r = _WE(world, folder, c, {"nbytes": 4, "nbits": 32, "sendtwice": False}
            ).run(cmdfn, binds)
    want = [_Sym("p0"), _Sym("p1"), _Sym("p2"), _Sym("p3")] + fr4 + [
        _Sym("p5"), _Sym("p6"), _Sym("p7")] + [0] * 53
    run.ob("R-WIRE-TRIDONIC", Q + "._cmd#field-order",
           r[0] == "return" and isinstance(r[1], list) and list(r[1]) == want,
           "fields must be packed in the order cmd, seq, ctrl, mode, frame, "
           "dtr, prio, devtype and padded to 64 bytes (evaluating _cmd with "
           "one symbol per parameter gives %s...)" % (
               list(r[1])[:12] if isinstance(r[1], list) else r,),
           where(mod, cmdfn))
    o, sfn = _m(world, Q, "_send_raw")
    from ..wireval import (WireEval, CmdObj, SelfObj, FrameObj, Sym,
                           Unknown as WUnknown, require_known)
    table = {}
    o, mfn = _m(world, Q, "_command_mode")
    for bits in (8, 16, 24, 20, 32):
        case = {"nbytes": (bits + 7) // 8, "nbits": bits, "sendtwice": False}
        r = WireEval(world, folder, c, case).run(
            mfn, {"frame": FrameObj(case["nbytes"], bits)})
        if r[0] == "return":
            if isinstance(r[1], WUnknown):
                raise AnalysisError("tridonic._command_mode could not be "
                                    "evaluated for %d bits (%r)" % (bits,
                                                                   r[1]))
            table[str(bits)] = r[1]
    run.ob("R-WIRE-TRIDONIC", Q + "._command_mode", table ==
           sp["mode_by_bits"], "mode codes %s, protocol %s" % (
               table, sp["mode_by_bits"]), where(mod, mfn),
           sample={"rule": "R-WIRE-TRIDONIC", "mode_by_bits": table})
    for bits in (8, 16, 24, 20, 32):
        for tw in (False, True):
            nb = (bits + 7) // 8
            case = {"nbytes": nb, "nbits": bits, "sendtwice": tw,
                    "response": None}
            r = WireEval(world, folder, c, case).run(
                sfn, {"self": SelfObj(c), "command": CmdObj(case)})
            if bits not in sp["supported_bits"]:
                run.ob("R-WIRE-TRIDONIC", Q + "._send_raw#refusal",
                       r[0] == "raise", "a %d-bit frame must be refused "
                       "before anything is written, got %r" % (bits, r),
                       where(mod, sfn), trivial=True)
                continue
            if r[0] != "write":
                run.ob("R-WIRE-TRIDONIC", Q + "._send_raw#packet", False,
                       "nothing is written for a %d-bit frame: %r" % (bits,
                                                                      r),
                       where(mod, sfn))
                continue
            t = list(r[1][0])
            require_known(t, Q + "._send_raw", allow=(1,))
            b = [Sym("b%d" % k) for k in range(nb)]
            want = [sp["cmd_send"], None,
                    sp["ctrl_sendtwice"] if tw else 0,
                    sp["mode_by_bits"][str(bits)]] + [0] * (4 - nb) + b + \
                [0, 0, 0] + [0] * 53
            got = [None if (i_ == 1) else x for i_, x in enumerate(t)]
            run.ob("R-WIRE-TRIDONIC", Q + "._send_raw#packet",
                   len(t) == sp["packet_size"] and got == want and
                   not isinstance(t[1], int),
                   "the %d-bit%s packet is %s...; the protocol wants [SEND="
                   "0x12, seq, ctrl=0x20 iff send-twice, mode, frame right-"
                   "aligned in 4 bytes, dtr, prio, devtype = 0] padded to "
                   "64 bytes (%s...)" % (bits, " send-twice" if tw else "",
                                         t[:11], want[:11]), where(mod, sfn),
                   sample={"rule": "R-WIRE-TRIDONIC", "bits": bits,
                           "packet_head": [repr(x) for x in t[:11]]}
                   if (bits, tw) == (24, True) else None)
    # frame bytes of observed reports: ForwardFrame(n, raw_frame) uses the
    # 4-byte field right-aligned
    o, bfn = _m(world, Q, "_bus_watch")
    from ..drv import expand_method
    bfn = expand_method(world, c, bfn, aliases="params")
    from .. import astq
    if any(isinstance(n, ast.Attribute) and n.attr == "get"
           for n in ast.walk(bfn)):
        # report type -> width through a constant table: the if-chain
        from ..unroll import expand_table_lookups, class_table_resolver
        from ..inline import acopy as _ac
        bfx = _ac(bfn)
        rt_, nn_ = class_table_resolver(world, c, HID)
        if expand_table_lookups(bfx, rt_, nn_):
            ast.fix_missing_locations(bfx)
            bfn = bfx
    ctors = set()
    datas = set()
    for c_ in astq.calls(bfn):
        k = world.resolve_class(HID, c_.func)
        if k is None or k.qname not in ("dali.frame.ForwardFrame",
                                        "dali.frame.BackwardFrame"):
            continue
        if k.name == "ForwardFrame" and len(c_.args) == 2:
            ctors.add(("F", astq.canon(bfn, c_.args[0])))
            datas.add(unparse(c_.args[1]))
        elif k.name == "BackwardFrame" and len(c_.args) == 1:
            ctors.add(("B", None))
            datas.add(unparse(c_.args[0]))
    # the data argument is field 2 of the unpacked report
    field_ok = False
    for n in ast.walk(bfn):
        if isinstance(n, ast.Assign) and isinstance(
                n.targets[0], ast.Tuple) and isinstance(
                    n.value, ast.Call) and unparse(n.value.func).endswith(
                        "_resptmpl.unpack") and len(
                            n.targets[0].elts) == 5:
            field_ok = datas == {unparse(n.targets[0].elts[2])}
    run.ob("R-WIRE-TRIDONIC", Q + "._bus_watch#decode",
           ctors == {("F", "16"), ("F", "24"), ("B", None)} and field_ok,
           "reports must decode to 16/24-bit forward frames and backward "
           "frames from the report's frame field (constructors %s from %s)"
           % (sorted(ctors, key=str), sorted(datas)), where(mod, bfn))


def _hasseb(run, repo, world, folder):
    run.rule("R-WIRE-HASSEB", "2 frame bytes per report, written twice iff "
             "sendtwice, refusal of frames that are not 16 bit")
    sp = _spec("hid.json")["hasseb"]
    mod = repo.mod(HID)
    o, fn = _m(world, HID + ".hasseb", "_send_raw")
    Q = HID + ".hasseb._send_raw"
    # the encoder evaluated per case (frame size x send-twice): the writes
    # it performs, as byte templates over the frame's bytes
    from ..wireval import WireEval, CmdObj, SelfObj, Sym
    from ..drv import expand_method
    c = world.cls(HID + ".hasseb")
    xfn = expand_method(world, c, fn, aliases="params")
    nb = sp["frame_bytes"]
    for bits in (8, 16, 24):
        for tw in (False, True):
            case = {"nbytes": (bits + 7) // 8, "nbits": bits,
                    "sendtwice": tw, "response": None}
            r = WireEval(world, folder, c, case, stop_at_write=False).run(
                xfn, {"self": SelfObj(c), "command": CmdObj(case)})
            if bits != 8 * nb:
                run.ob("R-WIRE-HASSEB", Q + "#refusal", r[0] == "raise" and
                       r[1] == "UnsupportedFrameTypeError",
                       "a %d-bit frame must be refused before anything is "
                       "written, got %r" % (bits, r), where(mod, fn),
                       trivial=(bits, tw) != (24, False))
                continue
            want = [[Sym("b%d" % k) for k in range(nb)]] * (2 if tw else 1)
            got = [list(t) for t in r[1]] if r[0] == "write" else r
            run.ob("R-WIRE-HASSEB", Q + "#packet", got == want,
                   "a 16-bit%s command must be written as %s, found %s" % (
                       " send-twice" if tw else "", want, got),
                   where(mod, fn),
                   sample={"rule": "R-WIRE-HASSEB", "sendtwice": tw,
                           "writes": repr(got)}, trivial=tw)


def _list_literal(fn, name):
    for n in ast.walk(fn):
        if isinstance(n, ast.Assign) and unparse(n.targets[0]) == name and \
                isinstance(n.value, ast.List):
            return n.value
    return None


def _luba(run, repo, world, folder):
    run.rule("R-WIRE-LUBA", "'Y', command, length literal == payload "
             "elements, line, bit count, mode bits, big-endian data, pad, XOR "
             "checksum over [1:-1]")
    sp = _spec("luba.json")
    mod = repo.mod(SER)
    P = SER + ".DriverLubaRs232.LubaProtocol"
    o, fn = _m(world, P, "send_dali_command")
    from ..wireval import WireEval, CmdObj, SelfObj, Sym, xor
    cls = world.cls(P)
    ncase = 0
    prios = set()
    for nb in (1, 2, 3, 4):
        for tw in (False, True):
            for (dapc, std, resp) in ((True, False, None),
                                      (False, True, None),
                                      (False, True, "R"),
                                      (False, False, None),
                                      (False, False, "R")):
                case = {"nbytes": nb, "sendtwice": tw, "response": resp,
                        "is_DAPC": dapc, "is__StandardCommand": std,
                        # 16-bit frames are control gear commands
                        "is__GearCommand": nb == 2,
                        "is_Command": True}
                r = WireEval(world, folder, cls, case).run(
                    fn, {"self": SelfObj(cls), "tx": CmdObj(case)})
                ncase += 1
                key = "%d bytes%s%s" % (nb, ", twice" if tw else "",
                                       ", DAPC" if dapc else "")
                if 8 * nb not in sp["supported_bits"]:
                    run.ob("R-WIRE-LUBA", P + ".send_dali_command#refusal",
                           r[0] == "raise", "a %d-bit frame must be refused, "
                           "got %r" % (8 * nb, r), where(mod, fn),
                           trivial=True)
                    continue
                if r[0] != "write":
                    run.ob("R-WIRE-LUBA", P + ".send_dali_command#template",
                           False, "no frame is written for %s: %r" % (key, r),
                           where(mod, fn))
                    continue
                t = list(r[1][0])
                from ..wireval import require_known
                require_known(t, P + ".send_dali_command")
                b = [Sym("b%d" % k) for k in range(nb)]
                want_head = [sp["start"], sp["cmd_add_frame"],
                             sp["payload_length"], 0, 8 * nb]
                mode = t[5] if len(t) > 5 else None
                data = (b + [0, 0, 0, 0])[:4]
                chk = None
                if len(t) >= 3 and not any(x is None for x in t[1:-1]):
                    chk = 0
                    for x in t[1:-1]:
                        chk = xor(chk, x)
                ok = len(t) == len(sp["layout"]) and t[:5] == want_head \
                    and t[6:10] == data and t[-1] == chk and \
                    t[2] == len(t) - 4 and isinstance(mode, int) and \
                    (mode & sp["mode_sendtwice_bit"] != 0) == tw and \
                    (mode & 0x78) == 0 and (mode & 7) in sp["priority_values"]
                if isinstance(mode, int):
                    prios.add(mode & 7)
                    pol = sp.get("priority_policy")
                    if pol and nb == 2:
                        wantp = pol["dapc"] if dapc else (
                            pol["standard_plain"] if (std and not resp and
                                                      not tw)
                            else pol["other"])
                        run.ob("R-WIRE-LUBA", P + ".send_dali_command"
                               "#priority:%s%s%s" % (
                                   "DAPC" if dapc else "standard" if std
                                   else "special", "+query" if resp else "",
                                   "+twice" if tw else ""),
                               (mode & 7) == wantp,
                               "priority %d for %s; the driver's policy "
                               "(spec/wire/luba.json) is %d" % (
                                   mode & 7, key, wantp), where(mod, fn),
                               trivial=True)
                run.ob("R-WIRE-LUBA", P + ".send_dali_command#template", ok,
                       "for %s the frame written is %s; the protocol wants "
                       "%s + [mode: priority | 0x80 iff send-twice] + %s + "
                       "[XOR of bytes 1..n-2] with the length byte equal to "
                       "the payload size" % (key, t, want_head, data),
                       where(mod, fn),
                       sample={"rule": "R-WIRE-LUBA", "case": key,
                               "template": [repr(x) for x in t]}
                       if (nb, tw, dapc) == (3, True, False) else None)
    run.count(ncase)
    run.ob("R-WIRE-LUBA", P + ".send_dali_command#mode",
           prios == set(sp["priority_values"]),
           "priorities used %s, protocol %s" % (sorted(prios),
                                                sp["priority_values"]),
           where(mod, fn))
    # the other LUBA frames: length byte == payload size, checksum span
    for m in ("send_device_info_query", "send_device_settings"):
        o2, f2 = _m(world, P, m)
        case = {"nbytes": 2, "sendtwice": False}
        r = WireEval(world, folder, cls, case).run(f2, {"self": SelfObj(cls)})
        if r[0] != "write":
            raise AnalysisError("%s.%s writes nothing the evaluator can "
                                "follow: %r" % (P, m, r))
        t = list(r[1][0])
        chk = 0
        for x in t[1:-1]:
            chk = xor(chk, x)
        run.ob("R-WIRE-LUBA", "%s.%s#length" % (P, m),
               t[0] == sp["start"] and t[2] == len(t) - 4 and t[-1] == chk,
               "frame %s: length byte %s for %d payload bytes, checksum %s "
               "(XOR of bytes 1..n-2 is %s)" % (t, t[2], len(t) - 4, t[-1],
                                               chk), where(mod, f2))
    # command codes
    lc = world.cls(SER + ".DriverLubaRs232.LubaCmd")
    mem = folder.enum_members(lc)
    run.ob("R-WIRE-LUBA", SER + ".DriverLubaRs232.LubaCmd#codes",
           mem.get("EVENT_MESSAGE") == sp["event_cmd"] and mem.get(
               "ADD_DALI_FRAME_TO_TX_CMD") == sp["cmd_add_frame"] and
           mem.get("ADD_DALI_FRAME_TO_TX_RSP") == sp["tx_rsp"] and mem.get(
               "QUERY_DEVICE_INFO_RSP") == sp["info_rsp"] and mem.get(
               "READ_WRITE_SETTINGS_RSP") == sp["settings_rsp"],
           "LUBA command codes differ from the protocol document",
           where(mod, lc.node))
    # receive side: event payload -> frames
    o, efn = _m(world, P, "_process_luba_event")
    from .. import astq
    from ..unroll import fold_int_class_attrs
    # offsets named by int class constants (`self.HEADER_LEN`) read as numbers
    efn = fold_int_class_attrs(efn, folder, world.cls(P))
    rd = efn.args.args[1].arg
    puts = [c_ for c_ in astq.calls_to(efn, "put_nowait")
            if unparse(c_.func.value) == "self._queue_rx_raw_dali"]
    put_vals = {astq.canon(efn, c_.args[0]) for c_ in puts if c_.args}
    # the event type decides what the payload holds: bits 7..6 of byte 6
    et = set()
    for n in ast.walk(efn):
        if isinstance(n, ast.Compare) and len(n.ops) == 1 and isinstance(
                n.comparators[0], ast.Constant) and type(
                    n.comparators[0].value) is int:
            t_ = astq.canon(efn, n.left)
            if rd in t_:
                et.add(t_)
    mask = _fold(folder, o, ast.parse("self.EVENT_TYPE_MASK",
                                      mode="eval").body)
    et_forms = {"(%s[6] & self.EVENT_TYPE_MASK) >> 6" % rd,
                "%s[6] >> 6 & 3" % rd, "%s[6] >> 6" % rd,
                "(%s[6] & 192) >> 6" % rd}
    run.ob("R-WIRE-LUBA", P + "._process_luba_event#rx",
           put_vals == {"%s[7]" % rd} and bool(et & et_forms) and
           mask == 0xC0,
           "event decoding changed: the received backward frame must be "
           "byte 7 of the message (queued: %s) and the event type bits 7..6 "
           "of byte 6 (tested: %s, mask %s)" % (
               sorted(put_vals), sorted(et), mask), where(mod, efn))


def _sci(run, repo, world, folder):
    run.rule("R-WIRE-SCI", "5 bytes: control (flags, send-twice bit 4, mode "
             "nibble per frame size), three data bytes, XOR checksum [0:-1]")
    sp = _spec("sci.json")
    mod = repo.mod(SER)
    P = SER + ".DriverSCIRS232.SCIRS232Protocol"
    o, fn = _m(world, P, "send_dali_command")
    from ..wireval import WireEval, CmdObj, SelfObj, Sym, xor
    cls = world.cls(P)
    import itertools
    modes = {}
    ncase = 0
    for nb in (1, 2, 3, 4):
        for tw in (False, True):
            for (me, ident, echo) in itertools.product((0, 1), repeat=3):
                case = {"nbytes": nb, "sendtwice": tw, "response": None,
                        "settings": {"monitor_enable": me, "identify": ident,
                                     "echo": echo}}
                r = WireEval(world, folder, cls, case).run(
                    fn, {"self": SelfObj(cls), "tx": CmdObj(case)})
                ncase += 1
                if 8 * nb not in sp["supported_bits"]:
                    run.ob("R-WIRE-SCI", P + ".send_dali_command#refusal",
                           r[0] == "raise", "a %d-bit frame must be refused, "
                           "got %r" % (8 * nb, r), where(mod, fn),
                           trivial=True)
                    continue
                if r[0] != "write":
                    run.ob("R-WIRE-SCI", P + ".send_dali_command#template",
                           False, "no frame written for %d bytes: %r" % (
                               nb, r), where(mod, fn))
                    continue
                t = list(r[1][0])
                from ..wireval import require_known
                require_known(t, P + ".send_dali_command")
                b = [Sym("b%d" % k) for k in range(nb)]
                ctrl = t[0] if t else None
                want_ctrl = (me << 7) | (ident << 6) | (echo << 5) | (
                    sp["sendtwice_mask"] if tw else 0) | sp["mode_by_bits"][
                        str(8 * nb)]
                chk = 0
                for x in t[:-1]:
                    chk = xor(chk, x) if x is not None else None
                ok = len(t) == sp["frame_length"] and ctrl == want_ctrl and \
                    t[1:4] == (b + [0, 0, 0])[:3] and t[-1] == chk
                if isinstance(ctrl, int):
                    modes[str(8 * nb)] = ctrl & 0x0f
                run.ob("R-WIRE-SCI", P + ".send_dali_command#template", ok,
                       "for a %d-byte frame (twice=%s, settings %d%d%d) the "
                       "frame written is %s; the datasheet wants control "
                       "0x%02x, the data bytes %s and the XOR of the first "
                       "four bytes" % (nb, tw, me, ident, echo, t, want_ctrl,
                                       (b + [0, 0, 0])[:3]), where(mod, fn),
                       sample={"rule": "R-WIRE-SCI", "template":
                               [repr(x) for x in t]}
                       if (nb, tw, me, ident, echo) == (2, True, 1, 0, 1)
                       else None)
    run.count(ncase)
    run.ob("R-WIRE-SCI", P + ".send_dali_command#mode", modes ==
           sp["mode_by_bits"], "mode nibble per frame size %s, protocol %s"
           % (modes, sp["mode_by_bits"]), where(mod, fn),
           sample={"rule": "R-WIRE-SCI", "mode_by_bits": modes})
    masks = {k: folder.class_attr(o, k) for k in (
        "CONTROL_ME_MASK", "CONTROL_IDENTIFY_MASK", "CONTROL_ECHO_MASK",
        "CONTROL_SEND_TWICE_MASK", "CONTROL_MODE_MASK")}
    run.ob("R-WIRE-SCI", P + "#control-masks",
           masks == {"CONTROL_ME_MASK": 0x80, "CONTROL_IDENTIFY_MASK": 0x40,
                     "CONTROL_ECHO_MASK": 0x20,
                     "CONTROL_SEND_TWICE_MASK": sp["sendtwice_mask"],
                     "CONTROL_MODE_MASK": 0x0f},
           "control masks %s" % masks, where(mod, fn), trivial=True)
    sc = world.cls(SER + ".DriverSCIRS232.SCIRS232Code")
    mem = folder.enum_members(sc)
    want = {"STATUS_OK": 0, "STATUS_DALI_NO": 1, "SEND_DALI_8": 2,
            "SEND_DALI_16": 3, "ERROR": 7, "SEND_DALI2_24": 8}
    run.ob("R-WIRE-SCI", SER + ".DriverSCIRS232.SCIRS232Code#codes",
           all(mem.get(k) == v for k, v in want.items()),
           "status/mode codes differ from the datasheet: %s" % mem,
           where(mod, sc.node))
    # receive side dispatch: code -> byte span
    o, pfn = _m(world, P, "_process_byte")
    from .. import astq
    from ..drv import expand_method
    # helpers of the receiver (a status decoder moved out) read in place
    pfn = expand_method(world, world.cls(P), pfn, aliases="params")
    spans = {astq.canon(pfn, c_.args[0]) for c_ in astq.calls_to(
        pfn, "_process_dali_frame") if c_.args}
    for c_ in astq.calls_to(pfn, "_process_dali_frame"):
        for a_ in c_.args[:1]:
            r_ = astq.resolve(pfn, a_)
            for x_ in ast.walk(r_):
                if isinstance(x_, ast.Subscript) and unparse(
                        x_.value) == "self._buffer":
                    bs_ = [x_.slice.lower, x_.slice.upper] if isinstance(
                        x_.slice, ast.Slice) else [x_.slice]
                    if any(b_ is not None and not (isinstance(
                            b_, ast.Constant) and type(b_.value) is int)
                            for b_ in bs_):
                        raise AnalysisError(
                            "%s._process_byte takes the received frame's "
                            "bytes with a span looked up at run time (`%s`); "
                            "the rule reads spans written as constants at "
                            "the hand-over" % (P, unparse(r_, 80)))
    code = any(isinstance(n, ast.BinOp) and isinstance(n.op, ast.BitAnd)
               and astq.canon(pfn, n.left) == "self._buffer[0]" and
               unparse(n.right).endswith("STATUS_CODE_MASK")
               for n in ast.walk(pfn))
    run.ob("R-WIRE-SCI", P + "._process_byte#rx-spans",
           spans == {"(self._buffer[3],)", "self._buffer[2:4]",
                     "self._buffer[1:4]"} and code,
           "received 8/16/24-bit frames must be taken right-aligned from "
           "the three data bytes (spans passed on: %s; status code from "
           "byte 0 & STATUS_CODE_MASK: %s)" % (sorted(spans), code),
           where(mod, pfn))
    run.note("SCI: the transmitter places 8/16-bit frames LEFT-aligned in "
             "the three data bytes while the receiver reads them "
             "RIGHT-aligned; one side contradicts the other but the vendor "
             "document is not available here, so this is reported as "
             "information only (DESIGN.md section 8)")


def _daliserver(run, repo, world, folder):
    run.rule("R-WIRE-DALISERVER", "4-byte request (2, 0, address, command); "
             "frames that are not 16 bit refused")
    sp = _spec("daliserver.json")
    mod = repo.mod(DS)
    o, fn = _m(world, DS + ".DaliServer", "send")
    Q = DS + ".DaliServer.send"
    msg = [n.value for n in ast.walk(fn) if isinstance(n, ast.Assign) and
           unparse(n.targets[0]) == "message"]
    ok = len(msg) == 1 and unparse(msg[0]) == \
        "struct.pack('BB', 2, 0) + command.frame.pack"
    run.ob("R-WIRE-DALISERVER", Q + "#message", ok and
           sp["request_prefix"] == [2, 0],
           "request must be struct.pack('BB', 2, 0) + frame bytes (got %s)"
           % (unparse(msg[0]) if msg else None), where(mod, fn),
           sample={"rule": "R-WIRE-DALISERVER", "message": unparse(msg[0])
                   if msg else None})
    guard = False
    first_send = min([c.lineno for c in call_sites(fn)
                      if unparse(c.func) == "s.send"] or [10 ** 9])
    for n in ast.walk(fn):
        if isinstance(n, ast.If) and "len(command.frame)" in unparse(
                n.test) and any(isinstance(s, ast.Raise) for s in n.body) \
                and n.lineno < first_send:
            guard = True
        if isinstance(n, ast.Assert) and "len(command.frame) == 16" in \
                unparse(n.test) and n.lineno < first_send:
            guard = True
    run.ob("R-WIRE-DALISERVER", Q + "#refusal", guard,
           "a 24-bit command is packed into a 5-byte message for a 4-byte "
           "protocol: frames that are not 16 bit must be refused before "
           "anything is sent", where(mod, fn))
    # how often the request is sent, for a send-twice command and for
    # another one: the statements are walked with the flag fixed
    def sends(stmts, tw):
        n_ = 0
        for st_ in stmts:
            if isinstance(st_, ast.If):
                t_ = unparse(st_.test)
                if t_ == "command.sendtwice":
                    n_ += sends(st_.body if tw else st_.orelse, tw)
                elif t_ == "not command.sendtwice":
                    n_ += sends(st_.orelse if tw else st_.body, tw)
                elif "s.send(" in unparse(st_):
                    raise AnalysisError(
                        "%s: a send under `%s`; the rule counts sends under "
                        "tests of command.sendtwice" % (Q, t_))
            elif isinstance(st_, ast.For):
                k_ = None
                it_ = st_.iter
                if isinstance(it_, ast.Call) and unparse(
                        it_.func) == "range" and len(it_.args) == 1:
                    a_ = it_.args[0]
                    if isinstance(a_, ast.IfExp) and unparse(
                            a_.test) == "command.sendtwice":
                        a_ = a_.body if tw else a_.orelse
                    if isinstance(a_, ast.Constant) and type(
                            a_.value) is int:
                        k_ = a_.value
                inner = sends(st_.body, tw)
                if inner and k_ is None:
                    raise AnalysisError("%s: sends in a loop the rule "
                                        "cannot count" % Q)
                n_ += (k_ or 0) * inner
            elif isinstance(st_, (ast.With, ast.Try)):
                n_ += sends(st_.body, tw)
                if isinstance(st_, ast.Try):
                    n_ += sends(st_.finalbody, tw)
            elif isinstance(st_, ast.While) and "s.send(" in unparse(st_):
                raise AnalysisError("%s: sends in a while loop" % Q)
            else:
                n_ += sum(1 for c_ in ast.walk(st_) if isinstance(
                    c_, ast.Call) and unparse(c_.func) == "s.send")
        return n_
    n2, n1 = sends(fn.body, True), sends(fn.body, False)
    twice = (n2, n1) == (2, 1)
    run.ob("R-WIRE-DALISERVER", Q + "#sendtwice", twice,
           "send-twice commands must be sent twice and the others once "
           "(counted: %d and %d)" % (n2, n1), where(mod, fn))


def _atx(run, repo, world, folder):
    run.rule("R-WIRE-ATX", "ASCII line: prefix by frame size ('t' for 16-bit "
             "send-twice), upper-case hex of the frame, newline")
    sp = _spec("atx.json")
    mod = repo.mod(ATX)
    size = folder.eval(ast.parse("DALI_PACKET_SIZE", mode="eval").body, {},
                       ATX)
    pref = folder.eval(ast.parse("DALI_PACKET_PREFIX", mode="eval").body,
                       {}, ATX)
    run.ob("R-WIRE-ATX", ATX + "#prefix-table",
           isinstance(pref, dict) and {str(k): v for k, v in pref.items()} ==
           sp["prefix_by_bits"],
           "prefix table %s, protocol %s" % (pref, sp["prefix_by_bits"]),
           where(mod, mod.tree), sample={"rule": "R-WIRE-ATX",
                                         "prefix_by_bits": pref})
    o, fn = _m(world, ATX + ".DaliHatSerialDriver", "construct")
    # the line as a formula: path summaries of construct(), the returned
    # expression denoted as ascii(<prefix> + HEX(frame bytes) + "\n")
    from .. import paths, pred
    from ..denote import Denoter
    from ..normal import normalise
    nfn = normalise(fn, world, ATX, world.cls(ATX + ".DaliHatSerialDriver"),
                    aliases=False)
    cmd = fn.args.args[1].arg
    try:
        summ = paths.summaries(nfn)
    except paths.Unsupported as e:
        raise AnalysisError("R-WIRE-ATX: construct() is not loop-free: %s"
                            % e)
    size_txt = "len(%s.frame)" % cmd

    def lin(e):
        if isinstance(e, ast.Constant) and type(e.value) is int:
            return pred.Lin.const(e.value)
        if unparse(e) == size_txt:
            return pred.Lin.sym("bits")
        return None
    P = pred.Parser(lin)
    D = Denoter(raw="<none>", strsyms=True)
    cases = {}
    for pth in summ:
        trees = []
        for (t_, b_) in pth.conds:
            if unparse(t_).startswith("isinstance("):
                continue
            tr = P.tree(t_)
            trees.append(tr if b_ else ("not", tr))
        d = pred.dnf(("and", trees))
        if not d:
            continue
        if pth.kind != "return":
            key = (pth.kind,)
        else:
            key = D.den(pth.expr)
        cases[key] = pred.union(cases.get(key, frozenset()), d)
    hexd = ("hex", sp["hex"], "%s.frame.pack" % cmd)
    nl = ("lit", sp["terminator"])
    table = ("bytes-of", "ascii", ("fmt", (
        ("strsym", "DALI_PACKET_PREFIX[%s]" % size_txt), hexd, nl)))
    twice = ("bytes-of", "ascii", ("fmt", (
        ("lit", sp["sendtwice_prefix_16"]), hexd, nl)))
    tw = ("and", [("atom", ("p", "%s.sendtwice" % cmd, True)),
                  ("atom", ("le", "bits", "0", -16)),
                  ("atom", ("le", "0", "bits", 16))])
    want = {twice: pred.dnf(tw), table: pred.dnf(("not", tw))}
    problems = []
    for k, w in want.items():
        g = cases.pop(k, frozenset())
        if not pred.equivalent(g, w)[0]:
            problems.append("the line %s is produced when %s, protocol: "
                            "when %s" % (k[2], pred.show(g) or "never",
                                         pred.show(w)))
    for k, g in cases.items():
        if k[0] == "opaque":
            raise AnalysisError("R-WIRE-ATX: construct() returns `%s`, "
                                "outside the string forms read" % k[1])
        problems.append("undocumented outcome %s when %s" % (
            k, pred.show(g) or "always"))
    run.ob("R-WIRE-ATX", ATX + ".DaliHatSerialDriver.construct",
           not problems,
           "the line must be <prefix by frame size><upper-case hex of the "
           "frame>\\n, ascii, with 't' for 16-bit send-twice commands: %s"
           % "; ".join(problems), where(mod, fn),
           sample={"rule": "R-WIRE-ATX", "cases": [
               [str(k), pred.show(v) or "always"] for k, v in want.items()]})
    # R-BYTES: construct() returns bytes; .encode() must not be applied to it
    run.rule("R-BYTES", "values already encoded to bytes are written as "
             "they are (no .encode() on bytes)")
    rets = [n.value for n in ast.walk(fn) if isinstance(n, ast.Return)]
    returns_bytes = all(
        (isinstance(r, ast.Name) and any(
            isinstance(a, ast.Assign) and unparse(a.targets[0]) == r.id and
            isinstance(a.value, ast.Call) and isinstance(
                a.value.func, ast.Attribute) and a.value.func.attr == "encode"
            for a in ast.walk(fn))) or (
            isinstance(r, ast.Call) and isinstance(r.func, ast.Attribute)
            and r.func.attr == "encode") for r in rets) and bool(rets)
    o2, sfn = _m(world, ATX + ".SyncDaliHatDriver", "send")
    bytes_vars = set()
    for n in ast.walk(sfn):
        if isinstance(n, ast.Assign) and isinstance(
                n.value, ast.Call) and unparse(n.value.func) == \
                "self.construct" and returns_bytes:
            bytes_vars.add(unparse(n.targets[0]))
    bad = []
    for c in call_sites(sfn):
        if isinstance(c.func, ast.Attribute) and c.func.attr == "encode":
            recv = c.func.value
            if unparse(recv).strip("()") in bytes_vars:
                bad.append(c)
    for c in bad:
        run.ob("R-BYTES", "%s.SyncDaliHatDriver.send#%s" % (
            ATX, unparse(c)[:30]), False,
            "`%s`: %s already holds bytes (construct() encodes); the "
            "re-send path raises AttributeError: 'bytes' object has no "
            "attribute 'encode'" % (unparse(c), unparse(c.func.value)),
            where(mod, c))
    if not bad:
        run.ob("R-BYTES", ATX + ".SyncDaliHatDriver.send", True)
    # comparisons of bytes slices with str literals can never match
    for n in ast.walk(sfn):
        if isinstance(n, ast.Compare) and isinstance(
                n.left, ast.Subscript) and unparse(
                    n.left.value) in bytes_vars and isinstance(
                        n.ops[0], (ast.In, ast.NotIn, ast.Eq)):
            comp = n.comparators[0]
            strs = [e for e in ast.walk(comp) if isinstance(
                e, ast.Constant) and isinstance(e.value, str)]
            if strs:
                run.note("ATX: `%s` compares a bytes slice with str "
                         "literals - never equal (information only: the "
                         "branch it guards is dead code)" % unparse(n)[:60])


def _legacy(run, repo, world, folder):
    run.rule("R-WIRE-LEGACY", "legacy drivers: construct() <-> documented "
             "layout <-> extract() internal consistency; unsupported frame "
             "lengths refused")
    # legacy Tridonic: the packet by evaluation of construct(), the reports
    # extract() reads as frames by its path formulas over the report bytes
    mod = repo.mod(LTRI)
    from ..wireval import WireEval, CmdObj, SelfObj, Sym
    tsp = _spec("hid.json")["tridonic_legacy"]
    tc = world.cls(LTRI + ".TridonicDALIUSBDriver")
    o, fn = _m(world, LTRI + ".TridonicDALIUSBDriver", "construct")
    okc = True
    detail = ""
    for nbu in (1, 2, 3, 4):
        for tw in (False, True):
            case = {"nbytes": nbu, "nbits": 8 * nbu, "sendtwice": tw,
                    "response": None}
            r = WireEval(world, folder, tc, case).run(
                fn, {"self": SelfObj(tc), "command": CmdObj(case)})
            if nbu != 2:
                run.ob("R-WIRE-LEGACY", LTRI + ".TridonicDALIUSBDriver."
                       "construct#refusal", r[0] == "raise",
                       "a %d-bit frame must be refused (ValueError), got %r"
                       % (8 * nbu, r), where(mod, fn), trivial=True)
                continue
            got = list(r[1]) if r[0] == "return" and isinstance(
                r[1], (list, tuple, bytes)) else None
            want = [tsp["out"]["direction"], None, 0,
                    tsp["out"]["type_16bit"], 0, 0, Sym("b0"), Sym("b1")] + \
                [0] * (tsp["packet_size"] - 8)
            if got is None or len(got) != len(want) or any(
                    w is not None and g != w for g, w in zip(got, want)) \
                    or not (type(got[1]) is int and 1 <= got[1] <= 255):
                okc = False
                detail = "for sendtwice=%s the packet starts %r" % (
                    tw, got[:10] if got else r)
    run.ob("R-WIRE-LEGACY", LTRI + ".TridonicDALIUSBDriver.construct", okc,
           "64-byte packet with dr=0x12, sn, 0, ty=0x03, 0, ec=0, ad, cm at "
           "offsets 0..7 expected; %s" % detail,
           where(mod, fn), sample={"rule": "R-WIRE-LEGACY",
                                   "driver": "tridonic (legacy)"})
    _legacy_tridonic_extract(run, repo, world, folder, tc, tsp)
    _legacy_tridonic_receive(run, repo, world)
    # legacy hasseb
    mod = repo.mod(LHAS)
    c = [k for k in world.classes_in(LHAS) if "construct" in k.methods]
    if not c:
        raise AnalysisError("legacy hasseb construct vanished")
    from ..normal import normalise
    from ..wireval import WireEval, CmdObj, SelfObj, Sym
    fn = normalise(c[0].methods["construct"][1], world, LHAS, c[0],
                   aliases=False)
    ftype = folder.eval(ast.parse("HASSEB_DALI_FRAME", mode="eval").body, {},
                        LHAS)
    ok = isinstance(ftype, int)
    detail = ""
    for tw in (False, True):
        for resp in (None, "R"):
            case = {"nbytes": 2, "nbits": 16, "sendtwice": tw,
                    "response": resp}
            r = WireEval(world, folder, c[0], case).run(
                fn, {"self": SelfObj(c[0]), "command": CmdObj(case)})
            want = [0xAA, ftype, None, 16, 1 if resp else 0, 0,
                    10 if tw else 0, Sym("b0"), Sym("b1"), 0]
            got = list(r[1]) if r[0] == "return" and isinstance(
                r[1], (list, tuple)) else None
            if got is None or len(got) != 10 or any(
                    w is not None and g != w for g, w in zip(got, want)):
                ok = False
                detail = "for sendtwice=%s, query=%s the packet is %r" % (
                    tw, bool(resp), r[1] if r else None)
    run.ob("R-WIRE-LEGACY", c[0].qname + ".construct", ok,
           "10-byte packet (0xAA, type, sn, 16, expect-reply, settling, "
           "send-twice delay, two frame bytes, 0) expected; %s" % detail,
           where(mod, fn))
    _legacy_hasseb_extract(run, repo, world, folder, c[0])
    # UniPi: the register pair per case, by evaluating construct()
    mod = repo.mod(UNI)
    o, fn = _m(world, UNI + ".UnipiDALIDriver", "construct")
    from ..wireval import Word
    usp = _spec("hid.json")["unipi_registers"]
    uc = world.cls(UNI + ".UnipiDALIDriver")
    okq = True
    detail = ""
    for nbu in (1, 2, 3, 4):
        for tw in (False, True):
            case = {"nbytes": nbu, "nbits": 8 * nbu, "sendtwice": tw,
                    "response": None}
            r = WireEval(world, folder, uc, case).run(
                fn, {"self": SelfObj(uc), "command": CmdObj(case)})
            if nbu not in (2, 3):
                if r[0] != "raise":
                    okq = False
                    detail = "a %d-bit frame is not refused: %r" % (
                        8 * nbu, r)
                continue
            opt = (usp["opt_16"] if nbu == 2 else usp["opt_24"]) | (
                usp["opt_twice_bit"] if tw else 0)
            b = [Sym("b%d" % k) for k in range(nbu)]
            if nbu == 2:
                want = (Word({1: opt}), Word({1: b[0], 0: b[1]}))
            else:
                want = (Word({1: opt, 0: b[0]}), Word({1: b[1], 0: b[2]}))
            got = tuple(Word.of(x) for x in r[1]) if r[0] == "return" and \
                isinstance(r[1], (tuple, list)) and len(r[1]) == 2 else None
            if got != want:
                okq = False
                detail = "for a %d-bit%s command the registers are %r, " \
                    "expected %r" % (8 * nbu, " send-twice" if tw else "",
                                     r[1] if r else None, want)
    run.ob("R-WIRE-LEGACY", UNI + ".UnipiDALIDriver.construct", okq,
           "register pair (options | address, command bytes) per frame "
           "size and send-twice flag; %s" % detail, where(mod, fn))


def _legacy_tridonic_extract(run, repo, world, folder, c, tsp):
    """Which reports the legacy Tridonic driver reads as a forward frame, a
    backward frame or 'no response': the returning paths of extract() as
    formulas over the report's bytes (module constants folded, locals
    substituted), compared with the documented layout."""
    from .. import paths, pred
    from ..normal import normalise
    mod = repo.mod(LTRI)
    if "extract" not in c.methods:
        raise AnalysisError("legacy Tridonic extract vanished")
    fn = normalise(c.methods["extract"][1], world, LTRI, c, aliases="params")
    Q = c.qname + ".extract"
    data = fn.args.args[1].arg
    sp = tsp["in"]

    def lin(e):
        if isinstance(e, ast.Constant) and type(e.value) is int:
            return pred.Lin.const(e.value)
        if isinstance(e, ast.Subscript) and unparse(e.value) == data and \
                isinstance(e.slice, ast.Constant) and type(
                    e.slice.value) is int:
            return pred.Lin.sym("d%d" % e.slice.value)
        if isinstance(e, ast.Name):
            v = folder.eval(e, {}, LTRI)
            if type(v) is int:
                return pred.Lin.const(v)
        return None
    P = pred.Parser(lin)

    def tree(t):
        try:
            return P.tree(t)
        except pred.Unrecognised:
            return ("atom", ("p", unparse(t, 200), True))
    try:
        ps = paths.summaries(fn)
    except paths.Unsupported as e:
        raise AnalysisError("%s is not loop-free: %s" % (Q, e))

    def region(sel_):
        ds = []
        for p_ in ps:
            if sel_(p_):
                trees = []
                for (tst, b) in p_.conds:
                    tr = tree(tst)
                    trees.append(tr if b else ("not", tr))
                d_ = pred.dnf(("and", trees))
                ds.append(frozenset(frozenset(
                    a for a in cj if a[0] == "le") for cj in d_))
        return pred.union(*ds) if ds else frozenset()

    def kind(p_):
        if p_.kind == "fall":
            return "none"
        if p_.kind != "return":
            return p_.kind
        e = p_.expr
        if e is None or (isinstance(e, ast.Constant) and e.value is None):
            return "none"
        if isinstance(e, ast.Call):
            k = world.resolve_class(LTRI, e.func)
            return k.name if k is not None else "other"
        if isinstance(e, ast.Name) and e.id == "DALI_USB_NO_RESPONSE":
            return "noresp"
        return "other"

    def f(src):
        return P.dnf(ast.parse(src, mode="eval").body)
    D = data
    do, to = sp["direction_offset"], sp["type_offset"]
    want = {
        "ForwardFrame": f("%s[%d] == %d and (%s[%d] == %d or %s[%d] == %d)" % (
            D, do, sp["dir_dali"], D, to, sp["type_complete"],
            D, to, sp["type_broadcast"])),
        "BackwardFrame": f("%s[%d] == %d and %s[%d] == %d" % (
            D, do, sp["dir_usb"], D, to, sp["type_response"])),
        "noresp": f("%s[%d] == %d and %s[%d] == %d" % (
            D, do, sp["dir_usb"], D, to, sp["type_no_response"])),
    }
    run.ob("R-WIRE-LEGACY", Q + "#outcomes",
           {kind(p_) for p_ in ps} <= {"none", "ForwardFrame",
                                       "BackwardFrame", "noresp"},
           "extract() can end in %s; a report is a forward frame, a backward "
           "frame, 'no response' or nothing" % sorted(
               {kind(p_) for p_ in ps}), where(mod, fn))
    for k_, w_ in want.items():
        got = region(lambda p_, k_=k_: kind(p_) == k_)
        eq, _ = pred.equivalent(got, w_)
        run.ob("R-WIRE-LEGACY", Q + "#" + k_, eq,
               "a report is read as %s when `%s`; the documented layout "
               "(direction byte %d, type byte %d) says `%s`" % (
                   k_, pred.show(got), do, to, pred.show(w_)),
               where(mod, fn),
               sample={"rule": "R-WIRE-LEGACY", "outcome": k_,
                       "when": pred.show(got)})
    ad = "%s[%d]" % (D, sp["address_offset"])
    cm = "%s[%d]" % (D, sp["command_offset"])
    okargs = True
    seen = 0
    for p_ in ps:
        if kind(p_) == "ForwardFrame":
            seen += 1
            a_ = [unparse(x) for x in p_.expr.args]
            okargs = okargs and a_ == ["16", "[%s, %s]" % (ad, cm)]
        elif kind(p_) == "BackwardFrame":
            seen += 1
            okargs = okargs and [unparse(x) for x in p_.expr.args] == [cm]
    run.ob("R-WIRE-LEGACY", Q + "#offsets", okargs and seen >= 2,
           "the frames must be built from the documented bytes: forward "
           "frame (16, [%s, %s]), backward frame (%s)" % (ad, cm, cm),
           where(mod, fn))


def _legacy_hasseb_extract(run, repo, world, folder, c):
    """Which reports the legacy hasseb driver reads as an answer: the paths
    of extract() that return BackwardFrame(..) / BackwardFrameError(..), as
    formulas over the report's bytes (module constants folded), compared
    with the report layout."""
    from .. import paths, pred
    from ..normal import normalise
    sp = _spec("hid.json")["hasseb_legacy_report"]
    mod = repo.mod(LHAS)
    if "extract" not in c.methods:
        raise AnalysisError("legacy hasseb extract vanished")
    fn = normalise(c.methods["extract"][1], world, LHAS, c, aliases="params")
    Q = c.qname + ".extract"
    data = fn.args.args[1].arg

    def lin(e):
        if isinstance(e, ast.Constant) and type(e.value) is int:
            return pred.Lin.const(e.value)
        if isinstance(e, ast.Subscript) and unparse(e.value) == data and \
                isinstance(e.slice, ast.Constant) and type(
                    e.slice.value) is int:
            return pred.Lin.sym("d%d" % e.slice.value)
        if isinstance(e, ast.Name):
            v = folder.eval(e, {}, LHAS)
            if type(v) is int:
                return pred.Lin.const(v)
        return None
    P = pred.Parser(lin)

    def tree(t):
        try:
            return P.tree(t)
        except pred.Unrecognised:
            return ("atom", ("p", unparse(t, 200), True))
    ps = paths.summaries(fn)

    def region(sel_):
        ds = []
        for p_ in ps:
            if sel_(p_):
                trees = []
                for (tst, b) in p_.conds:
                    tr = tree(tst)
                    trees.append(tr if b else ("not", tr))
                d_ = pred.dnf(("and", trees))
                ds.append(frozenset(frozenset(
                    a for a in cj if a[0] == "le") for cj in d_))
        return pred.union(*ds) if ds else frozenset()

    def ctor(p_):
        if p_.kind == "return" and isinstance(p_.expr, ast.Call):
            return unparse(p_.expr.func).split(".")[-1]
        return None

    def f(src):
        return P.dnf(ast.parse(src, mode="eval").body)
    D = data
    want_ok = f("%s[%d] == %d and %s[%d] == %d and %s[%d] == %d" % (
        D, sp["type_offset"], sp["dali_frame_type"],
        D, sp["status_offset"], sp["status_ok"],
        D, sp["length_offset"], sp["answer_length"]))
    want_err = f("%s[%d] == %d and %s[%d] == %d" % (
        D, sp["type_offset"], sp["dali_frame_type"],
        D, sp["status_offset"], sp["status_invalid"]))
    got_ok = region(lambda p_: ctor(p_) == "BackwardFrame")
    got_err = region(lambda p_: ctor(p_) == "BackwardFrameError")
    answers = [unparse(p_.expr.args[0]) for p_ in ps
               if ctor(p_) == "BackwardFrame" and p_.expr.args]
    e1, _ = pred.equivalent(got_ok, want_ok)
    e2, _ = pred.equivalent(got_err, want_err)
    oka = bool(answers) and all(a == "%s[%d]" % (D, sp["answer_offset"])
                                for a in answers)
    run.ob("R-WIRE-LEGACY", Q + "#answer-reports", e1 and oka,
           "a report is read as the answer BackwardFrame(%s) when `%s`; the "
           "report layout makes it an answer exactly when `%s` (type, "
           "status OK, one answer byte), the byte being %s[%d]" % (
               sorted(set(answers)), pred.show(got_ok), pred.show(want_ok),
               D, sp["answer_offset"]), where(mod, fn),
           sample={"rule": "R-WIRE-LEGACY", "answer_when": pred.show(got_ok),
                   "answer_byte": sorted(set(answers))})
    run.ob("R-WIRE-LEGACY", Q + "#garbled-reports", e2,
           "a report is read as a framing error when `%s`; the layout says "
           "`%s`" % (pred.show(got_err), pred.show(want_err)),
           where(mod, fn))


# ---------------------------------------------------------------------------
# R-SEQ: sequence number generators as transition systems

class Lin:
    """a*n + b over the counter n, or a constant (a == 0)."""
    def __init__(self, a, b):
        self.a, self.b = a, b

    def __repr__(self):
        return "%s" % self.b if self.a == 0 else "n%+d" % self.b


def _seqnum_start(world, folder):
    """Interval of the value the tridonic driver starts its sequence number
    generator from: the argument of every `_seqnum(...)` call in the class
    (random.randint(a, b) is [a, b], random.randrange(n) is [0, n - 1],
    random.randrange(a, b) is [a, b - 1], a constant is itself)."""
    c = world.cls(HID + ".tridonic")
    lo = hi = None
    n = 0
    for name, (kind, f) in c.methods.items():
        for x in ast.walk(f):
            if not (isinstance(x, ast.Call) and unparse(x.func).endswith(
                    "._seqnum") and len(x.args) == 1 and not x.keywords):
                continue
            n += 1
            a = x.args[0]

            def const(e):
                v = folder.eval(e, {}, HID)
                if not isinstance(v, int) or isinstance(v, bool):
                    raise AnalysisError(
                        "R-SEQ: start of the tridonic sequence number "
                        "`%s` does not fold to an integer" % unparse(e))
                return v
            iv = None
            if isinstance(a, ast.Call) and not a.keywords:
                fnm = unparse(a.func)
                if fnm in ("random.randint", "randint") and len(a.args) == 2:
                    iv = (const(a.args[0]), const(a.args[1]))
                elif fnm in ("random.randrange", "randrange") and \
                        len(a.args) == 1:
                    iv = (0, const(a.args[0]) - 1)
                elif fnm in ("random.randrange", "randrange") and \
                        len(a.args) == 2:
                    iv = (const(a.args[0]), const(a.args[1]) - 1)
            elif not isinstance(a, ast.Call):
                v = const(a)
                iv = (v, v)
            if iv is None:
                raise AnalysisError("R-SEQ: the start value `%s` of the "
                                    "tridonic sequence number generator is "
                                    "not a form the rule reads" % unparse(a))
            lo = iv[0] if lo is None else min(lo, iv[0])
            hi = iv[1] if hi is None else max(hi, iv[1])
    if not n:
        raise AnalysisError("R-SEQ: no call of tridonic._seqnum found")
    return (lo, hi)


def _seq(run, repo, world, folder):
    run.rule("R-SEQ", "sequence numbers stay in the protocol range and two "
             "consecutive numbers differ (interval fixpoint + composition "
             "of two steps)")
    gens = []
    # (key, module, steps builder)
    o, fn = _m(world, HID + ".tridonic", "_seqnum")
    gens.append((HID + ".tridonic._seqnum", repo.mod(HID),
                 _steps_generator(fn), _seqnum_start(world, folder),
                 (1, 255), fn))
    o, fn = _m(world, LTRI + ".TridonicDALIUSBDriver", "_get_sn")
    gens.append((LTRI + ".TridonicDALIUSBDriver._get_sn", repo.mod(LTRI),
                 _steps_method(fn, "self._next_sn"), (1, 1), (1, 255), fn))
    c = [k for k in world.classes_in(LHAS) if "construct" in k.methods][0]
    from ..normal import normalise
    fn = normalise(c.methods["construct"][1], world, LHAS, c, aliases=False)
    init_sn = None
    for k in world.classes_in(LHAS):
        for name, (kind, f2) in k.methods.items():
            for n in ast.walk(f2):
                if isinstance(n, ast.Assign) and unparse(
                        n.targets[0]) == "self.sn" and isinstance(
                            n.value, ast.Constant) and name == "__init__":
                    init_sn = n.value.value
    if init_sn is None:
        init_sn = 0
    gens.append((c.qname + ".construct#sn", repo.mod(LHAS),
                 _steps_inline(fn, "self.sn"), (init_sn, init_sn), (1, 255),
                 fn))
    # the other reports of the legacy hasseb driver that carry the counter
    # (configuration, firmware query): each advances it the same way before
    # it is packed - a report that re-uses the number of the one before it
    # repeats a sequence number, and on a fresh driver sends 0
    n_other = 0
    for k in world.classes_in(LHAS):
        for name, (kind, f2) in sorted(k.methods.items()):
            if name in ("construct", "__init__"):
                continue
            f3 = normalise(f2, world, LHAS, k, aliases=False,
                           primitives=("construct", "send", "receive",
                                       "extract", "run_sequence"))
            packs = [n for n in ast.walk(f3) if isinstance(n, ast.Call) and
                     unparse(n.func).endswith("pack") and any(
                         unparse(a) == "self.sn" for a in n.args)]
            if not packs:
                continue
            n_other += 1
            stores = [n for n in ast.walk(f3) if isinstance(
                n, ast.Assign) and unparse(n.targets[0]) == "self.sn"]
            if not stores:
                run.ob("R-SEQ", "%s.%s#sn#advances" % (k.qname, name), False,
                       "%s.%s packs self.sn into a report without advancing "
                       "it: the report repeats the sequence number of the "
                       "one written before it (0 on a fresh driver, outside "
                       "1..255)" % (k.qname, name), where(repo.mod(LHAS), f2))
                continue
            run.ob("R-SEQ", "%s.%s#sn#advances" % (k.qname, name),
                   min(x.lineno for x in stores) < min(
                       x.lineno for x in packs),
                   "%s.%s advances self.sn only after it was packed"
                   % (k.qname, name), where(repo.mod(LHAS), f2))
            gens.append(("%s.%s#sn" % (k.qname, name), repo.mod(LHAS),
                         _steps_inline(f3, "self.sn"), (init_sn, init_sn),
                         (1, 255), f3))
    run.floor("legacy hasseb reports other than DALI frames that carry the "
              "sequence number", n_other, 2)
    run.floor("sequence number generators", len(gens), 3)
    for (key, mod, steps, init, rng, fn) in gens:
        if steps is None:
            raise AnalysisError("R-SEQ: unrecognised counter idiom in %s"
                                % key)
        # interval fixpoint of the state
        lo, hi = init
        for _ in range(600):
            nlo, nhi = lo, hi
            for st in steps:
                g = _feasible(st["guard"], lo, hi)
                if g is None:
                    continue
                a, b = _apply(st["next"], g)
                nlo, nhi = min(nlo, a), max(nhi, b)
            if (nlo, nhi) == (lo, hi):
                break
            lo, hi = nlo, nhi
        rets = []
        for st in steps:
            g = _feasible(st["guard"], lo, hi)
            if g is not None:
                rets.append(_apply(st["ret"], g))
        rlo = min(r[0] for r in rets)
        rhi = max(r[1] for r in rets)
        run.ob("R-SEQ", key + "#range", rng[0] <= rlo and rhi <= rng[1],
               "sequence numbers range over [%d, %d], protocol range "
               "[%d, %d]" % (rlo, rhi, rng[0], rng[1]), where(mod, fn),
               sample={"rule": "R-SEQ", "generator": key,
                       "state_interval": [lo, hi],
                       "returned_interval": [rlo, rhi],
                       "steps": [{"guard": st["guard"], "ret": repr(
                           st["ret"]), "next": repr(st["next"])}
                           for st in steps]})
        # non-repetition: compose two steps
        rep = None
        inconclusive = False
        for s1 in steps:
            g1 = _feasible(s1["guard"], lo, hi)
            if g1 is None:
                continue
            for s2 in steps:
                # n2 = next1(n1) must satisfy guard2
                n2 = _apply(s1["next"], g1)
                g2 = _feasible(s2["guard"], n2[0], n2[1])
                if g2 is None:
                    continue
                # pull g2 back to n1
                g1b = _pullback(s1["next"], g1, g2)
                if g1b is None:
                    continue
                r1 = s1["ret"]
                r2 = _compose(s2["ret"], s1["next"])
                me = _may_equal(r1, r2, g1b)
                if me is None:
                    inconclusive = True
                elif me:
                    rep = (s1, s2, g1b)
        if inconclusive and rep is None:
            if rng[0] <= rlo and rhi <= rng[1]:
                raise AnalysisError(
                    "R-SEQ: non-repetition of %s cannot be decided in the "
                    "linear counter domain (masked arithmetic)" % key)
            run.note("R-SEQ: non-repetition of %s not decided (masked "
                     "arithmetic); the range obligation already fails" % key)
            continue
        run.ob("R-SEQ", key + "#no-repeat", rep is None,
               "two consecutive calls can return the same number: first "
               "step %s (returns %s), second step %s (returns %s) for state "
               "in %s" % ((rep[0]["guard"], rep[0]["ret"], rep[1]["guard"],
                           rep[1]["ret"], rep[2]) if rep else ("",) * 5),
               where(mod, fn))
    # information: UniPi generator is unused
    run.note("UnipiDALIDriver._get_sn has no caller that puts its value into "
             "a packet; not in scope of R-SEQ")


def _feasible(guard, lo, hi):
    """guard: list of ('>', c) / ('<=', c) on the state; intersect with
    [lo, hi]."""
    for (op, c) in guard:
        if op == ">":
            lo = max(lo, c + 1)
        elif op == "<=":
            hi = min(hi, c)
        elif op == ">=":
            lo = max(lo, c)
        elif op == "<":
            hi = min(hi, c - 1)
    return (lo, hi) if lo <= hi else None


def _apply(lin, g):
    if lin.a == 0:
        return (lin.b, lin.b)
    if lin.a == "mask":
        lo, hi = g[0] + lin.b, g[1] + lin.b
        if lo >= 0 and hi <= lin.m:
            return (lo, hi)
        return (0, lin.m)
    return (g[0] + lin.b, g[1] + lin.b)


def _pullback(nxt, g1, g2):
    """states n1 in g1 with next(n1) in g2"""
    if nxt.a == 0:
        return g1 if g2[0] <= nxt.b <= g2[1] else None
    if nxt.a == "mask":
        return g1
    lo = max(g1[0], g2[0] - nxt.b)
    hi = min(g1[1], g2[1] - nxt.b)
    return (lo, hi) if lo <= hi else None


def _compose(ret2, nxt1):
    """ret2 as a function of n1 (ret2(next1(n1)))."""
    if ret2.a == 0:
        return ret2
    if nxt1.a == 0:
        return Lin(0, nxt1.b + ret2.b)
    if nxt1.a == "mask" or ret2.a == "mask":
        m = Lin("mask", 0)
        m.m = 255
        return m
    return Lin(1, nxt1.b + ret2.b)


def _may_equal(r1, r2, g):
    if r1.a == "mask" or r2.a == "mask":
        return None     # not decidable in the linear domain
    if r1.a == r2.a:
        return r1.b == r2.b
    # one constant, one n+b: equal when n = const - b within g
    c, l = (r1, r2) if r1.a == 0 else (r2, r1)
    n = c.b - l.b
    return g[0] <= n <= g[1]


def _lin_of(e, var):
    """Linear form of expression e in the counter var."""
    t = unparse(e)
    if t == var:
        return Lin(1, 0)
    if isinstance(e, ast.Constant) and isinstance(e.value, int):
        return Lin(0, e.value)
    if isinstance(e, ast.BinOp) and isinstance(e.op, (ast.Add, ast.Sub)) \
            and isinstance(e.right, ast.Constant):
        l = _lin_of(e.left, var)
        if l is not None and l.a in (0, 1):
            k = e.right.value if isinstance(e.op, ast.Add) else \
                -e.right.value
            return Lin(l.a, l.b + k)
    if isinstance(e, ast.BinOp) and isinstance(e.op, ast.BitAnd) and \
            isinstance(e.right, ast.Constant):
        l = _lin_of(e.left, var)
        if l is not None and l.a == 1:
            m = Lin("mask", l.b)
            m.m = e.right.value
            return m
    return None


def _guard_of(test, var_lin, var):
    """test on an expression linear in var -> guard on var (true branch),
    and its negation."""
    if isinstance(test, ast.Compare) and len(test.ops) == 1 and isinstance(
            test.comparators[0], ast.Constant):
        l = _lin_of(test.left, var) if var_lin is None else None
        lhs = unparse(test.left)
        c = test.comparators[0].value
        lin = var_lin if var_lin is not None and lhs == var_lin[0] else None
        off = 0
        if lin is not None:
            off = lin[1].b
            if lin[1].a != 1:
                return None
        elif l is not None and l.a == 1:
            off = l.b
        else:
            return None
        op = type(test.ops[0])
        table = {ast.Gt: (">", "<="), ast.LtE: ("<=", ">"),
                 ast.GtE: (">=", "<"), ast.Lt: ("<", ">=")}
        if op not in table:
            return None
        t, f = table[op]
        return [(t, c - off)], [(f, c - off)]
    return None


def _steps_generator(fn):
    """while True: yield i; <straight-line / branching update of i>
    (hid.tridonic._seqnum): the update is executed symbolically - one step
    per path through its if / else (conditional expressions written out),
    guard and next value linear in the value that was yielded."""
    from ..normal import _lift
    from ..inline import acopy
    fn = _lift(acopy(fn), values=True)
    ast.fix_missing_locations(fn)
    var = fn.args.args[0].arg
    loop = [s for s in fn.body if isinstance(s, ast.While)]
    if len(loop) != 1:
        return None
    body = loop[0].body
    rs = _range_cycle_steps(fn, var, loop[0])
    if rs is not None:
        return rs
    if not (isinstance(body[0], ast.Expr) and isinstance(
            body[0].value, ast.Yield) and unparse(body[0].value.value) ==
            var):
        return None

    def assign(st, value):
        lin = _lin_of(value, var)
        if lin is None:
            return False
        if lin.a == "mask":
            if st["next"].a != 1:
                return False
            m = Lin("mask", st["next"].b + lin.b)
            m.m = lin.m
            st["next"] = m
        elif lin.a == 0:
            st["next"] = lin
        elif st["next"].a in (0, 1):
            st["next"] = Lin(st["next"].a, st["next"].b + lin.b)
        else:
            return False
        return True

    def run_block(stmts, steps):
        for s in stmts:
            if steps is None:
                return None
            if isinstance(s, ast.Pass) or (isinstance(s, ast.Expr) and
                                           isinstance(s.value, ast.Constant)):
                continue
            if isinstance(s, ast.AugAssign) and unparse(s.target) == var \
                    and isinstance(s.op, (ast.Add, ast.Sub)) and isinstance(
                        s.value, ast.Constant):
                k = s.value.value if isinstance(s.op, ast.Add) else \
                    -s.value.value
                for st in steps:
                    if st["next"].a not in (0, 1):
                        return None
                    st["next"] = Lin(st["next"].a, st["next"].b + k)
            elif isinstance(s, ast.Assign) and len(s.targets) == 1 and \
                    unparse(s.targets[0]) == var:
                for st in steps:
                    if not assign(st, s.value):
                        return None
            elif isinstance(s, ast.If):
                tsteps, fsteps = [], []
                for st in steps:
                    if st["next"].a != 1:
                        return None
                    g = _guard_of(s.test, (var, st["next"]), var)
                    if g is None:
                        return None
                    tsteps.append({"guard": st["guard"] + g[0],
                                   "ret": st["ret"], "next": st["next"]})
                    fsteps.append({"guard": st["guard"] + g[1],
                                   "ret": st["ret"], "next": st["next"]})
                t_ = run_block(s.body, tsteps)
                f_ = run_block(s.orelse, fsteps)
                if t_ is None or f_ is None:
                    return None
                steps = t_ + f_
            else:
                return None
        return steps
    return run_block(body[1:], [{"guard": [], "ret": Lin(1, 0),
                                 "next": Lin(1, 0)}])


def _range_cycle_steps(fn, var, loop):
    """yield i; yield from range(i + 1, K); while True: yield from
    range(A, K) - the value after n is n + 1 while that is below K, else A
    (an empty first range when i + 1 >= K goes straight to A)."""
    def const(e):
        return e.value if isinstance(e, ast.Constant) and type(
            e.value) is int else None

    def yf_range(s):
        if isinstance(s, ast.Expr) and isinstance(
                s.value, ast.YieldFrom) and isinstance(
                    s.value.value, ast.Call) and unparse(
                        s.value.value.func) == "range" and len(
                            s.value.value.args) == 2:
            return s.value.value.args
        return None
    stmts = [s for s in fn.body if not (isinstance(s, ast.Expr) and
                                        isinstance(s.value, ast.Constant))]
    if len(stmts) != 3 or stmts[2] is not loop:
        return None
    if not (isinstance(stmts[0], ast.Expr) and isinstance(
            stmts[0].value, ast.Yield) and unparse(
                stmts[0].value.value) == var):
        return None
    r1 = yf_range(stmts[1])
    if r1 is None or unparse(r1[0]) not in ("%s + 1" % var, "1 + %s" % var):
        return None
    K = const(r1[1])
    if not (isinstance(loop.test, ast.Constant) and loop.test.value in (
            True, 1)) or len(loop.body) != 1:
        return None
    r2 = yf_range(loop.body[0])
    if r2 is None or K is None or const(r2[1]) != K or const(r2[0]) is None:
        return None
    A = const(r2[0])
    return [{"guard": [("<=", K - 2)], "ret": Lin(1, 0), "next": Lin(1, 1)},
            {"guard": [(">", K - 2)], "ret": Lin(1, 0), "next": Lin(0, A)}]


def _steps_method(fn, attr):
    """sn = self._next_sn; if sn > K: sn = self._next_sn = C
       else: self._next_sn += 1; return sn"""
    body = [s for s in fn.body if not (isinstance(s, ast.Expr) and isinstance(
        s.value, ast.Constant))]
    if len(body) != 3 or not (isinstance(body[0], ast.Assign) and unparse(
            body[0].value) == attr and isinstance(body[1], ast.If) and
            isinstance(body[2], ast.Return)):
        return None
    loc = unparse(body[0].targets[0])
    if unparse(body[2].value) != loc:
        return None
    g = _guard_of(body[1].test, (loc, Lin(1, 0)), loc)
    if g is None:
        return None

    def run_block(stmts):
        ret, nxt = Lin(1, 0), Lin(1, 0)
        for s in stmts:
            if isinstance(s, ast.Assign):
                v = _lin_of(s.value, attr) or _lin_of(s.value, loc)
                if v is None:
                    return None
                for t in s.targets:
                    if unparse(t) == loc:
                        ret = v
                    elif unparse(t) == attr:
                        nxt = v
                    else:
                        return None
            elif isinstance(s, ast.AugAssign) and unparse(
                    s.target) == attr and isinstance(s.op, ast.Add) and \
                    isinstance(s.value, ast.Constant):
                nxt = Lin(nxt.a, nxt.b + s.value.value)
            else:
                return None
        return ret, nxt
    a = run_block(body[1].body)
    b = run_block(body[1].orelse)
    if a is None or b is None:
        return None
    return [{"guard": g[0], "ret": a[0], "next": a[1]},
            {"guard": g[1], "ret": b[0], "next": b[1]}]


def _steps_inline(fn, attr):
    """self.sn = self.sn + 1; if self.sn > K: self.sn = C; ... uses self.sn"""
    body = fn.body
    i = 0
    while i < len(body) and not (isinstance(body[i], ast.Assign) and unparse(
            body[i].targets[0]) == attr):
        i += 1
    if i >= len(body) - 1:
        return None
    inc = _lin_of(body[i].value, attr)
    if inc is None or inc.a != 1:
        return None
    nxt = body[i + 1]
    if not (isinstance(nxt, ast.If) and len(nxt.body) == 1 and isinstance(
            nxt.body[0], ast.Assign) and unparse(
                nxt.body[0].targets[0]) == attr and not nxt.orelse):
        return None
    g = _guard_of(nxt.test, (attr, inc), attr)
    c = _lin_of(nxt.body[0].value, attr)
    if g is None or c is None or c.a != 0:
        return None
    # the value used in the packet is the updated counter
    return [{"guard": g[0], "ret": c, "next": c},
            {"guard": g[1], "ret": inc, "next": inc}]


def _legacy_tridonic_receive(run, repo, world):
    """What the asynchronous legacy Tridonic driver does with a decoded
    report: 'no answer' (a pending query completed with None) only for the
    report extract() reads as DALI_USB_NO_RESPONSE, a backward frame handed
    on as the answer, a forward frame dispatched - on the paths of
    receive()."""
    from .. import paths
    from ..normal import normalise
    mod = repo.mod(LTRI)
    c = world.cls(LTRI + ".AsyncTridonicDALIUSBDriver")
    if c is None or "receive" not in c.methods:
        raise AnalysisError("legacy Tridonic receive vanished")
    fn = normalise(c.methods["receive"][1], world, LTRI, c,
                   primitives=("extract", "_handle_response",
                               "_handle_dispatch"), aliases=True)
    Q = c.qname + ".receive"
    try:
        ps = paths.summaries(fn)
    except paths.Unsupported as e:
        raise AnalysisError("%s: %s" % (Q, e))
    n = 0
    for p_ in ps:
        calls = [e for e in p_.calls] if hasattr(p_, "calls") else []
        for (what, call) in _path_calls(p_):
            if what != "self._handle_response" or len(call.args) != 2:
                continue
            n += 1
            ans = call.args[1]
            conds = {(unparse(t), b) for (t, b) in p_.conds}
            fr = "self.extract(%s)" % fn.args.args[1].arg
            names = {fr} | {unparse(t_.targets[0]) for t_ in ast.walk(fn)
                            if isinstance(t_, ast.Assign) and unparse(
                                t_.value) == fr}
            if isinstance(ans, ast.Constant) and ans.value is None:
                ok = any(("%s is DALI_USB_NO_RESPONSE" % x, True) in conds or
                         ("%s == DALI_USB_NO_RESPONSE" % x, True) in conds or
                         ("%s is not DALI_USB_NO_RESPONSE" % x, False)
                         in conds for x in names)
                run.ob("R-WIRE-LEGACY", Q + "#no-answer-only-for-NO_RESPONSE",
                       ok, "receive() completes the pending query with 'no "
                       "answer' on a path that has not established that the "
                       "report is the NO_RESPONSE one (%s): any other report "
                       "- the interface's own 'transfer complete' - then "
                       "answers the query and the real answer is dropped"
                       % sorted(c_[0] for c_ in conds)[:4], where(mod, call))
            else:
                ok = any(("isinstance(%s, BackwardFrame)" % x, True) in conds
                         for x in names) and unparse(ans) in names
                run.ob("R-WIRE-LEGACY", Q + "#answer-is-the-backward-frame",
                       ok, "receive() hands `%s` on as the answer without "
                       "having established that it is a backward frame"
                       % unparse(ans), where(mod, call))
    run.floor("legacy Tridonic receive(): completions of a pending query", n,
              2)


def _path_calls(p_):
    """(callee text, Call) of the call statements on a path summary"""
    out = []
    for e in getattr(p_, "effects", []):
        if len(e) >= 2 and e[0] == "call" and isinstance(e[1], ast.Call):
            out.append((unparse(e[1].func), e[1]))
        elif len(e) == 2 and isinstance(e[1], ast.Call) and e[0] in (
                "expr", "<call>"):
            out.append((unparse(e[1].func), e[1]))
    return out
