"""C11 - memory value decoding and the memory map: R-MAP, R-MAPSTRUCT,
R-MASK, R-DECODE (total / exact flag sets / check order by abstract
interpretation), R-INVERSE (DESIGN.md section 3, C11)."""
import ast
import json
import os

from ..core import AnalysisError, unparse, where, VERIF
from ..fold import UNKNOWN, EnumMember, Record
from ..front import ClassInfo
from ..memabs import MemInterp, RAW
from ..regexec import RegExec
from ..tri import SELF, brief_bytes
from .. import memmap, paths, pred
from ..denote import Denoter, Poly, num, show as dshow, _before_nul
from ..inline import acopy
from ..lanes import Lin
from ..normal import normalise

LOC = "dali.memory.location"
RW = {"RAM_RW", "NVM_RW", "NVM_RW_L", "NVM_RW_P"}
KIND_OF_FAMILY = {
    "NumericValue": "numeric", "FixedScaleNumericValue": "fixedscale",
    "ScaledNumericValue": "scaled", "TemperatureValue": "temperature",
    "VersionNumberValue": "version", "StringValue": "string",
    "BinaryValue": "binary", "MemoryValue": "enum",
}


def check(run, repo, world):
    run.explanation = (
        "(R-MAP) the declared memory map, extracted by partial evaluation of "
        "the class bodies (banks, locations, access types, widths, "
        "MASK/TMASK support, limits, kind), is compared row by row with "
        "/verif/spec/memory_map.json, hand-transcribed from IEC 62386-102 "
        "Table 9 and DiiA parts 251-253; structural invariants (no overlap, "
        "lockable only with a lock byte, contiguous ascending, within the "
        "bank) are checked on the extracted map; (R-MASK) the metaclass code "
        "computing mask/tmask is interpreted per class and compared with the "
        "all-ones / all-ones-minus-one patterns; (R-DECODE) `check_raw(raw) "
        "or raw_to_value(raw)` is abstractly interpreted for every declared "
        "value with the first byte tracked as an exact subset of 0..255 and "
        "the other bytes symbolic: no exception escapes, MASK/TMASK/Invalid "
        "are returned on exactly the byte sets the transcribed limits give "
        "(1-byte values and scale bytes), and MASK is tested before TMASK "
        "before validity; (R-INVERSE) an overridden decoder has an encoder "
        "at least as derived; (R-DECODE-FORM) each decoder family's "
        "raw_to_value, read as an algebraic denotation of the raw bytes "
        "(big-endian atoms with signedness, scale, offset, version digits, "
        "C string) on every path, equals the documented encoding under "
        "equivalent conditions.")
    run.assumptions += ["spec/memory_map.json is a faithful transcription",
                        "bytes.decode('ascii') raises UnicodeDecodeError for "
                        "bytes >= 0x80"]
    folder = memmap.memory_folder(world)
    banks, values = memmap.extract(world, folder)
    run.floor("declared memory values", len(values), 81)
    run.floor("declared memory banks", len(banks), 9)
    spec = json.load(open(os.path.join(VERIF, "spec", "memory_map.json")))
    _check_mem_pure(run, repo, world)
    _check_map(run, repo, world, banks, values, spec)
    _check_struct(run, repo, world, banks, values)
    masks = _check_masks(run, repo, world, folder, values)
    _check_decode(run, repo, world, folder, values, masks, spec)
    _check_inverse(run, repo, world, values)
    run.attempt(_check_decode_forms, run, repo, world, values)
    _check_from_list_order(run, repo, world)
    _check_registration_guards(run, repo, world)
    # string / number -> raw conversions (shared with C10: R-MEMW-RAW)
    from .C10 import _check_value_to_raw
    _check_value_to_raw(run, repo, world, repo.mod(LOC))
    run.exhaustive = False


def _spec_rows(spec):
    rows = {}
    for bvar, lst in spec["values"].items():
        for r in lst:
            rows[r["name"]] = (bvar, r)
    return rows


def _check_map(run, repo, world, banks, values, spec):
    run.rule("R-MAP", "declared map == transcribed IEC/DiiA layout (both "
             "directions)")
    # banks
    byvar = {k.split(".")[-1]: (k, b) for k, b in banks.items()}
    for bvar, sb in spec["banks"].items():
        if bvar not in byvar:
            run.ob("R-MAP", "bank:" + bvar, False,
                   "bank %s of the standard is not declared" % bvar)
            continue
        q, b = byvar[bvar]
        got = (b.address, b.last_address, bool(b.has_lock), bool(b.has_latch))
        want = (sb["address"], sb["last"], sb["lock"], sb["latch"])
        run.ob("R-MAP", "bank:" + bvar, got == want,
               "bank %s declared (address, last, lock, latch) = %s, the "
               "standard gives %s" % (bvar, got, want),
               repo.mod(q.rsplit(".", 1)[0]).relpath,
               sample={"rule": "R-MAP", "bank": bvar, "declared": got})
    for bvar in byvar:
        if bvar not in spec["banks"]:
            raise AnalysisError(
                "UNSPECIFIED bank %s: add it to spec/memory_map.json from "
                "its standard before it can be checked" % bvar)
    rows = _spec_rows(spec)
    seen = set()
    for d in values:
        mod = repo.mod(d.cls.mod)
        if d.name not in rows:
            raise AnalysisError(
                "UNSPECIFIED memory value %s: add its row to "
                "spec/memory_map.json from the standard" % d.qname)
        seen.add(d.name)
        bvar, r = rows[d.name]
        addrs = [l.address for l in d.locations]
        types = [memmap.type_name(l.type_) for l in d.locations]
        problems = []
        if (d.bank_var or "").split(".")[-1] != bvar:
            problems.append("bank %s, standard %s" % (d.bank_var, bvar))
        if addrs != list(range(r["first"], r["last"] + 1)):
            problems.append("locations %s, standard 0x%02x..0x%02x" % (
                ["0x%02x" % a for a in addrs][:3] + (["..."] if len(
                    addrs) > 3 else []), r["first"], r["last"]))
        want_types = [r["type"]] * len(addrs)
        if r.get("scale_type"):
            want_types[0] = r["scale_type"]
        if types != want_types:
            problems.append("access types %s, standard %s" % (
                sorted(set(types)), sorted(set(want_types))))
        kind = KIND_OF_FAMILY.get(d.family)
        if kind != r["kind"]:
            problems.append("decoded as %s (%s), standard kind %s" % (
                d.family, kind, r["kind"]))
        for a, key in (("mask_supported", "mask"), ("tmask_supported",
                                                    "tmask")):
            if bool(getattr(d, a)) != bool(r[key]):
                problems.append("%s=%s, standard %s" % (
                    a, getattr(d, a), r[key]))
        for a, key in (("min_value", "min"), ("max_value", "max")):
            if getattr(d, a) != r[key]:
                problems.append("%s=%s, standard %s" % (
                    a, getattr(d, a), r[key]))
        if "scale" in r:
            sf = d.scaling_factor
            if sf is None or str(sf) != str(r["scale"]):
                problems.append("scaling factor %s, standard %s" % (
                    sf, r["scale"]))
        if bool(d.signed):
            problems.append("declared signed; no value of these parts is")
        run.ob("R-MAP", "value:" + d.name, not problems,
               "; ".join(problems), where(mod, d.cls.node),
               sample={"rule": "R-MAP", "value": d.name, "bank": bvar,
                       "locations": "0x%02x..0x%02x" % (addrs[0], addrs[-1]),
                       "type": sorted(set(types))}
               if d.name in ("GTIN", "ActiveEnergy") else None)
    for name, (bvar, r) in rows.items():
        if name not in seen:
            run.ob("R-MAP", "value:" + name, False,
                   "value %s of the standard (bank %s, 0x%02x..0x%02x) is "
                   "not declared" % (name, bvar, r["first"], r["last"]))
    run.exhaustive = True


def _check_struct(run, repo, world, banks, values):
    run.rule("R-MAPSTRUCT", "no overlap per bank; lockable locations only "
             "in banks with a lock byte; ascending contiguous; within the "
             "bank; lock byte 0x02 untouched")
    used = {}
    for d in values:
        mod = repo.mod(d.cls.mod)
        addrs = [l.address for l in d.locations]
        b = d.bank
        pr = []
        for a in addrs:
            k = (d.bank_var, a)
            if k in used:
                pr.append("location 0x%02x already belongs to %s" % (
                    a, used[k]))
            used[k] = d.name
            if a > b.last_address:
                pr.append("location 0x%02x beyond the bank's last address "
                          "0x%02x" % (a, b.last_address))
            if a < 0x03 and not (b.address == 0 and a == 0x02):
                pr.append("location 0x%02x is a bank header byte" % a)
        if addrs != list(range(addrs[0], addrs[0] + len(addrs))):
            pr.append("locations are not contiguous ascending")
        if any(memmap.type_name(l.type_) == "NVM_RW_L"
               for l in d.locations) and not b.has_lock:
            pr.append("lockable location in a bank without lock byte")
        run.ob("R-MAPSTRUCT", d.qname, not pr, "; ".join(pr),
               where(mod, d.cls.node))


def _check_masks(run, repo, world, folder, values):
    run.rule("R-MASK", "interpreted metaclass mask/tmask == all-ones / "
             "all-ones-minus-one of len(locations)+adjust bytes")
    registered = []
    rx = RegExec(world, folder, record_methods={
        ("MemoryBank", "_add_memory_value"):
        lambda bank, v: registered.append((bank, v))})
    base = world.cls(LOC + ".MemoryValue")
    rx.create_all([c for c in world.class_order if base in c.mro])
    if rx.raised:
        raise AnalysisError("memory value registration raises: %s"
                            % rx.raised[:3])
    out = {}
    regnames = {v.info.qname for (_, v) in registered}
    for d in values:
        mod = repo.mod(d.cls.mod)
        o = rx.obj(d.cls)
        n = len(d.locations) + (d.mask_length_adjust or 0)
        dyn = {}
        for attr, sup, minus in (("mask", d.mask_supported, 0),
                                 ("tmask", d.tmask_supported, 1)):
            got = o.ns.get(attr)
            if sup:
                if d.signed:
                    want = ((1 << (8 * n - 1)) - 1 - minus).to_bytes(
                        n, "big", signed=True)
                else:
                    want = ((1 << (8 * n)) - 1 - minus).to_bytes(n, "big")
                run.ob("R-MASK", "%s#%s" % (d.qname, attr), got == want,
                       "%s pattern is %s, expected %s" % (
                           attr.upper(), got.hex() if isinstance(
                               got, bytes) else got, want.hex()),
                       where(mod, d.cls.node),
                       sample={"rule": "R-MASK", "value": d.name,
                               attr: got.hex() if isinstance(got, bytes)
                               else None} if d.name == "ActivePower"
                       else None)
                dyn[attr] = got if isinstance(got, bytes) else want
        run.ob("R-MASK", d.qname + "#registered", d.qname in regnames,
               "the value is not registered with its bank by the metaclass",
               where(mod, d.cls.node), trivial=True)
        out[d.qname] = dyn
    return out


def _expected_sets(d, r, first_byte_only=False):
    """Expected first-byte sets (MASK, TMASK, Invalid) for a 1-byte value
    from the transcribed row."""
    allb = set(range(256))
    mask = {0xFF} if r["mask"] else set()
    tmask = {0xFE} if r["tmask"] else set()
    rest = allb - mask - tmask
    inv = set()
    if r["kind"] in ("numeric", "fixedscale", "temperature"):
        for b in rest:
            if r["min"] is not None and b < r["min"]:
                inv.add(b)
            if r["max"] is not None and b > r["max"]:
                inv.add(b)
    elif r["kind"] == "binary":
        inv = {b for b in rest if b not in (0, 1)}
    return mask, tmask, inv


def _check_decode(run, repo, world, folder, values, masks, spec):
    run.rule("R-DECODE", "check_raw(raw) or raw_to_value(raw): no exception "
             "escapes; flags on exactly the expected first-byte sets; MASK "
             "before TMASK before validity")
    rows = _spec_rows(spec)
    expr = "cls.check_raw(raw) or cls.raw_to_value(raw)"
    for d in values:
        mod = repo.mod(d.cls.mod)
        n = len(d.locations)
        mi = MemInterp(world, d.cls, n, folder, dyn_attrs=masks[d.qname])
        outs = mi.run_expr(expr, {"cls": SELF, "raw": RAW(0, n)})
        run.count(len(outs))
        raises = [o for o in outs if o.kind == "raise"]
        run.ob("R-DECODE", d.qname + "#total", not raises,
               "interpreting raw bytes can raise %s (first byte %s)" % (
                   raises[0].val if raises else "",
                   brief_bytes(raises[0].bytes) if raises else ""),
               where(mod, d.cls.node))
        rets = [o for o in outs if o.kind == "return"]
        r = rows.get(d.name, (None, None))[1]
        if r is None:
            continue
        fl = {"MASK": set(), "TMASK": set(), "Invalid": set()}
        other = set()
        for o in rets:
            if o.val.kind == "flag":
                fl[o.val.val] |= o.bytes
            else:
                other |= o.bytes
        if n == 1:
            cats = [fl["MASK"], fl["TMASK"], fl["Invalid"], other]
            for i in range(4):
                for j in range(i + 1, 4):
                    if cats[i] & cats[j]:
                        raise AnalysisError(
                            "R-DECODE inconclusive for %s: the abstract "
                            "interpreter could not decide a test on the raw "
                            "byte (bytes %s land in two outcome classes); "
                            "the decoder uses a construct outside the "
                            "supported subset" % (d.qname, brief_bytes(
                                cats[i] & cats[j])))
            em, et, ei = _expected_sets(d, r)
            ok = fl["MASK"] == em and fl["TMASK"] == et and \
                fl["Invalid"] == ei and other == set(range(256)) - em - et \
                - ei
            run.ob("R-DECODE", d.qname + "#flag-sets", ok,
                   "flags by byte: MASK %s (expected %s), TMASK %s (%s), "
                   "Invalid %s (%s), value %s" % (
                       brief_bytes(fl["MASK"]), brief_bytes(em),
                       brief_bytes(fl["TMASK"]), brief_bytes(et),
                       brief_bytes(fl["Invalid"]), brief_bytes(ei),
                       brief_bytes(other)), where(mod, d.cls.node),
                   sample={"rule": "R-DECODE", "value": d.name,
                           "MASK": brief_bytes(fl["MASK"]),
                           "TMASK": brief_bytes(fl["TMASK"]),
                           "Invalid": brief_bytes(fl["Invalid"]),
                           "value_bytes": brief_bytes(other)}
                   if d.name in ("WeekOfManufacture",
                                 "ControlGearOverallFailureCondition")
                   else None)
        elif r["kind"] == "scaled":
            # scale byte: exponent -6..+6 as a signed byte
            bad_scale = set(range(7, 250))
            direct = set()
            for o in rets:
                if o.val.kind == "flag" and o.val.val == "Invalid" and \
                        len(o.trail) == 1:
                    direct |= o.bytes
            good = set(range(256)) - bad_scale
            if any(o.bytes & direct for o in rets if not (
                    o.val.kind == "flag" and o.val.val == "Invalid"
                    and len(o.trail) == 1)):
                raise AnalysisError(
                    "R-DECODE inconclusive for %s: the scale-byte test could "
                    "not be decided by the abstract interpreter" % d.qname)
            tm_bytes = set()
            val_bytes = set()
            for o in rets:
                if o.val.kind == "flag" and o.val.val == "TMASK":
                    tm_bytes |= o.bytes
                if o.val.kind != "flag":
                    val_bytes |= o.bytes
            ok = direct == bad_scale and tm_bytes == good and \
                val_bytes == good and not fl["MASK"]
            run.ob("R-DECODE", d.qname + "#scale-byte", ok,
                   "scale bytes rejected as Invalid: %s (expected %s); "
                   "TMASK reachable for scale bytes %s, values for %s "
                   "(expected %s)" % (
                       brief_bytes(direct), brief_bytes(bad_scale),
                       brief_bytes(tm_bytes), brief_bytes(val_bytes),
                       brief_bytes(good)), where(mod, d.cls.node),
                   sample={"rule": "R-DECODE", "value": d.name,
                           "invalid_scale_bytes": brief_bytes(direct)}
                   if d.name == "ActivePower" else None)
        else:
            # multi-byte: which flags are reachable at all
            want = set()
            if r["mask"]:
                want.add("MASK")
            if r["tmask"]:
                want.add("TMASK")
            got = {k for k in ("MASK", "TMASK") if fl[k]}
            run.ob("R-DECODE", d.qname + "#flags-reachable", got == want,
                   "flags reachable %s, expected %s" % (sorted(got),
                                                        sorted(want)),
                   where(mod, d.cls.node))
            lim = r["min"] is not None or r["max"] is not None
            run.ob("R-DECODE", d.qname + "#invalid-reachable",
                   bool(fl["Invalid"]) == (lim or r["kind"] == "string"),
                   "Invalid reachable: %s; limits declared: %s" % (
                       bool(fl["Invalid"]), lim), where(mod, d.cls.node))
        # flag <-> fact agreement on every outcome (multi-byte values carry
        # the comparison with the all-ones / all-ones-minus-one pattern as an
        # equality fact on raw): MASK only where raw == ff..ff, TMASK only
        # where raw == ff..fe and not ff..ff, a value / Invalid never where
        # a supported pattern matched
        import re as _re
        bad_order = None
        pat = _re.compile(r"^raw(\[\d+:\d+\])? == ([0-9a-f]+)$")
        for o in rets:
            ones = tm = None
            for (txt, val) in o.trail:
                m_ = pat.match(txt)
                if not m_:
                    continue
                hx = m_.group(2)
                if set(hx) == {"f"}:
                    ones = val if ones is None else (ones or val)
                elif set(hx[:-1]) <= {"f"} and hx[-1] == "e":
                    tm = val if tm is None else (tm or val)
            if o.val.kind == "flag" and o.val.val == "MASK":
                if ones is False:
                    bad_order = o.trail
            elif o.val.kind == "flag" and o.val.val == "TMASK":
                if tm is False or ones is True:
                    bad_order = o.trail
            else:
                if (ones is True and r["mask"]) or (tm is True and
                                                    r["tmask"]):
                    bad_order = o.trail
        run.ob("R-DECODE", d.qname + "#check-order", bad_order is None,
               "checks are not made in the order MASK, TMASK, validity or a "
               "flag is returned on the wrong branch: %s" % (bad_order,),
               where(mod, d.cls.node))


def _definer(cls, name):
    r = cls.lookup(name)
    return r[0] if r is not None else None


def _check_inverse(run, repo, world, values):
    run.rule("R-INVERSE", "for writable values: the class defining the "
             "effective raw_to_value is not more derived than the one "
             "defining value_to_raw; numeric codec pair agrees on byte order "
             "and sign")
    nw = 0
    for d in values:
        types = {memmap.type_name(l.type_) for l in d.locations}
        if not types <= RW:
            continue
        nw += 1
        mod = repo.mod(d.cls.mod)
        dec = _definer(d.cls, "raw_to_value")
        enc = _definer(d.cls, "value_to_raw")
        mro = [k for k in d.cls.mro if isinstance(k, ClassInfo)]
        ok = dec is not None and enc is not None and \
            mro.index(enc) <= mro.index(dec)
        if enc is not None and not any(
                isinstance(n, ast.Return) for n in ast.walk(
                    enc.methods["value_to_raw"][1])):
            # the effective encoder refuses every value (raises): nothing is
            # ever converted, so there is no round trip to get wrong
            ok = True
        if not ok and dec is not None:
            # named exception: an override that only adds marker constants
            # and delegates the numeric path to super()
            fn = dec.methods["raw_to_value"][1]
            try:
                rets = [p_.expr for p_ in paths.summaries(fn)
                        if p_.kind == "return" and p_.expr is not None]
            except paths.Unsupported:
                rets = [n.value for n in ast.walk(fn) if isinstance(
                    n, ast.Return) and n.value is not None]
            deleg = [r for r in rets if unparse(r) ==
                     "super().raw_to_value(raw)"]
            consts = [r for r in rets if isinstance(r, ast.Constant)]
            if len(deleg) == 1 and len(deleg) + len(consts) == len(rets):
                ok = True
        run.ob("R-INVERSE", d.qname, ok,
               "writable value decodes with %s.raw_to_value but encodes with "
               "the inherited %s.value_to_raw: writing a value and reading "
               "it back does not give the value written" % (
                   dec.name if dec else None, enc.name if enc else None),
               where(mod, d.cls.node),
               sample={"rule": "R-INVERSE", "value": d.name,
                       "decoder": dec.qname if dec else None,
                       "encoder": enc.qname if enc else None})
    run.floor("writable memory values", nw, 20)
    # byte order and sign of the numeric codec pair: the decoder by
    # R-DECODE-FORM, the encoder by R-MEMW-RAW (both on formulas)


# ---------------------------------------------------------------------------
# documented encodings as formulas (denote.py): expected outcome -> condition
def _be(lo, hi, signed):
    return Poly.atom("be[%s:%s;%s]" % (lo, hi, signed))


LDT_NAMES = ["not specified", "Type I", "Type II", "Type III", "Type IV",
             "Type V"]          # DiiA part 251 Table 1, 0x23; 6..254 reserved


def _expected_forms(family, definer=None):
    """[(denotation, condition tree over the symbols n (= len(raw)) and the
    be[..] atoms)] for the decoder family (or for a value class that
    overrides the decoder: CCT, LightDistributionType)."""
    T = ("and", [])
    if definer == "dali.memory.oem.CCT":
        p209 = ("atom", ("p", "fffe == raw", True))
        return [(("str", ("lit", "Part 209 implemented")), p209),
                (num(_be("0", "n", "cls.signed")), ("not", p209))]
    if definer == "dali.memory.oem.LightDistributionType":
        b = "be[0:1;False]"
        out = []
        for i, name in enumerate(LDT_NAMES):
            out.append((("str", ("lit", name)), ("and", [
                ("atom", ("le", b, "0", -i)), ("atom", ("le", "0", b, i))])))
        out.append((("str", ("lit", "reserved")), ("or", [
            ("atom", ("le", b, "0", 1)),
            ("atom", ("le", "0", b, len(LDT_NAMES)))])))
        return out
    n_is_1 = ("and", [("atom", ("le", "n", "0", -1)),
                      ("atom", ("le", "0", "n", 1))])

    def eq(sym, k):
        return ("and", [("atom", ("le", sym, "0", -k)),
                        ("atom", ("le", "0", sym, k))])
    if family == "NumericValue":
        return [(num(_be("0", "n", "cls.signed")), T)]
    if family == "FixedScaleNumericValue":
        return [(num(Poly.atom("cls.scaling_factor") *
                     _be("0", "n", "cls.signed")), T)]
    if family == "TemperatureValue":
        return [(num(_be("0", "n", "False") - Poly.atom("cls.offset")), T)]
    if family == "ScaledNumericValue":
        e = _be("0", "1", "True")
        return [(num(_be("1", "n", "False") *
                     Poly.atom("pow10d(%r)" % e)), T)]
    if family == "BinaryValue":
        b = "be[0:1;False]"
        return [(("bool", True), eq(b, 1)),
                (("bool", False), ("not", eq(b, 1)))]
    if family == "VersionNumberValue":
        b1 = "be[0:1;False]"
        v = Poly.atom(b1)
        two = ("str", ("fmt", (num(Poly.atom("fdiv(%r,4)" % v)),
                               ("lit", "."),
                               num(Poly.atom("mod(%r,4)" % v)))))
        return [(("str", ("lit", "not implemented")),
                 ("and", [n_is_1, eq(b1, 255)])),
                (two, ("and", [n_is_1, ("not", eq(b1, 255))])),
                (("str", ("join", ".", "raw")), ("not", n_is_1))]
    if family == "StringValue":
        asc = ("atom", ("p", "cstring.isascii()", True))
        return {"alternatives": [
            [(("try", ("str", ("cstring", "ascii")),
               (("UnicodeDecodeError", ("flag", "Invalid")),)), T)],
            [(("str", ("cstring", "ascii")), asc),
             (("flag", "Invalid"), ("not", asc))]]}
    if family == "MemoryValue":
        return [(("rawslice", "0", "n"), T)]
    return None


def _const_bytes(e):
    if isinstance(e, ast.Constant) and isinstance(e.value, bytes):
        return e.value
    if isinstance(e, ast.Call) and unparse(e.func) == "bytes" and len(
            e.args) == 1 and isinstance(e.args[0], (ast.List, ast.Tuple)) \
            and all(isinstance(x, ast.Constant) and isinstance(x.value, int)
                    and 0 <= x.value < 256 for x in e.args[0].elts):
        return bytes(x.value for x in e.args[0].elts)
    if isinstance(e, ast.Call) and unparse(e.func) == "bytes.fromhex" and \
            len(e.args) == 1 and isinstance(e.args[0], ast.Constant):
        try:
            return bytes.fromhex(e.args[0].value)
        except (ValueError, TypeError):
            return None
    return None


def _decode_cases(world, cls, name, unsigned, depth=0):
    """[(denotation, DNF)] of cls's effective `name` classmethod."""
    r = cls.lookup(name)
    if r is None or depth > 4:
        return None
    definer = r[0]
    fn = definer.methods[name][1]
    fn = normalise(fn, world, definer.mod, definer, aliases=False)
    from ..normal import drop_logging
    fn = drop_logging(fn, world, definer.mod)
    # a lookup in a class-level table of names reads as the if-chain
    from ..unroll import expand_table_lookups, class_table_resolver
    fx = acopy(fn)
    rt, nn = class_table_resolver(world, definer, definer.mod)
    if expand_table_lookups(fx, rt, nn):
        ast.fix_missing_locations(fx)
        fn = fx
    params = [a.arg for a in fn.args.args]
    if len(params) != 2:
        return None
    raw = params[1]
    mro = [k for k in definer.mro if isinstance(k, ClassInfo)]
    nxt = None
    for k in mro[1:]:
        if name in k.methods:
            nxt = k
            break

    def super_call(meth, args):
        if meth != name or nxt is None or len(args) != 1 or not (
                isinstance(args[0], ast.Name) and args[0].id == raw):
            return None
        sub = _decode_cases(world, nxt, name, unsigned, depth + 1)
        if sub is None or len(sub) != 1:
            return None
        return sub[0][0]

    body = [s for s in fn.body if not (isinstance(s, ast.Expr) and isinstance(
        s.value, ast.Constant))]
    # `x = A(raw); try: v = B(x) / except E: return H / else: return v`
    # (or `return v` after the try) is `try: return B(A(raw)) / except E:
    # return H`: locals bound once before the try written out, the value
    # returned where it is computed
    pre_env = {}
    k_ = 0
    while k_ < len(body) and isinstance(body[k_], ast.Assign) and len(
            body[k_].targets) == 1 and isinstance(
                body[k_].targets[0], ast.Name) and not any(
                    isinstance(n_, (ast.Yield, ast.Await, ast.NamedExpr))
                    for n_ in ast.walk(body[k_].value)):
        pre_env[body[k_].targets[0].id] = body[k_].value
        k_ += 1
    rest_ = body[k_:]
    if pre_env and rest_ and isinstance(rest_[0], ast.Try) and len(
            rest_) <= 2 and not rest_[0].finalbody:
        t0 = rest_[0]
        val = None
        if len(t0.body) == 1 and isinstance(t0.body[0], ast.Return) and \
                len(rest_) == 1 and not t0.orelse:
            val = t0.body[0].value
        elif len(t0.body) == 1 and isinstance(t0.body[0], ast.Assign) and \
                len(t0.body[0].targets) == 1 and isinstance(
                    t0.body[0].targets[0], ast.Name):
            v_ = t0.body[0].targets[0].id
            tail = list(t0.orelse) + rest_[1:]
            if len(tail) == 1 and isinstance(tail[0], ast.Return) and \
                    isinstance(tail[0].value, ast.Name) and \
                    tail[0].value.id == v_:
                val = t0.body[0].value
        if val is not None:
            class _S(ast.NodeTransformer):
                def visit_Name(self, n_):
                    if isinstance(n_.ctx, ast.Load) and n_.id in pre_env:
                        return self.visit(acopy(pre_env[n_.id]))
                    return n_
            t1 = acopy(t0)
            t1.body = [ast.copy_location(ast.Return(_S().visit(acopy(val))),
                                         t0.body[0])]
            t1.orelse = []
            ast.fix_missing_locations(t1)
            body = [t1]
    elif not pre_env and len(body) in (1, 2) and isinstance(
            body[0], ast.Try) and not body[0].finalbody and len(
                body[0].body) == 1 and isinstance(
                    body[0].body[0], ast.Assign) and len(
                        body[0].body[0].targets) == 1 and isinstance(
                            body[0].body[0].targets[0], ast.Name):
        t0 = body[0]
        v_ = t0.body[0].targets[0].id
        tail = list(t0.orelse) + body[1:]
        if len(tail) == 1 and isinstance(tail[0], ast.Return) and isinstance(
                tail[0].value, ast.Name) and tail[0].value.id == v_:
            t1 = acopy(t0)
            t1.body = [ast.copy_location(ast.Return(acopy(
                t0.body[0].value)), t0.body[0])]
            t1.orelse = []
            ast.fix_missing_locations(t1)
            body = [t1]
        elif len(tail) == 1 and isinstance(tail[0], ast.Return) and \
                tail[0].value is not None and sum(
                    1 for n_ in ast.walk(tail[0].value)
                    if isinstance(n_, ast.Name) and n_.id == v_) >= 1 and \
                not any(isinstance(n_, (ast.Await, ast.Yield, ast.YieldFrom,
                                        ast.NamedExpr))
                        for n_ in ast.walk(tail[0].value)):
            # the value is worked on after the try: read as the expression
            # over the converted value (what the handlers catch is only
            # compared as a label, so moving the tail inside loses nothing
            # the comparison of denotations looks at)
            bound = t0.body[0].value

            class _S2(ast.NodeTransformer):
                def visit_Name(self, n_):
                    if isinstance(n_.ctx, ast.Load) and n_.id == v_:
                        return acopy(bound)
                    return n_
            t1 = acopy(t0)
            t1.body = [ast.copy_location(ast.Return(_S2().visit(acopy(
                tail[0].value))), t0.body[0])]
            t1.orelse = []
            ast.fix_missing_locations(t1)
            body = [t1]
    if len(body) == 1 and isinstance(body[0], ast.Try) and \
            not body[0].finalbody and not body[0].orelse:
        t = body[0]
        D = Denoter(raw, super_call)
        if len(t.body) == 1 and isinstance(t.body[0], ast.Return) and all(
                len(h.body) == 1 and isinstance(h.body[0], ast.Return) and
                h.type is not None and h.name is None for h in t.handlers):
            hs = tuple((unparse(h.type), D.den(h.body[0].value))
                       for h in t.handlers)
            d = ("try", D.den(t.body[0].value), hs)
            return [(d, pred.dnf(("and", [])), repr(d))]
        return None
    tmpfn = acopy(fn)
    tmpfn.body = body
    cases = {}
    order = []
    for pth in paths.summaries(tmpfn):
        # a path that fixes the length reads `raw` as that many bytes
        nfix = None
        for (t, b) in pth.conds:
            if isinstance(t, ast.Compare) and len(t.ops) == 1 and \
                    isinstance(t.ops[0], ast.Eq if b else ast.NotEq):
                l, r_ = unparse(t.left), t.comparators[0]
                if l == "len(%s)" % raw and isinstance(r_, ast.Constant) \
                        and isinstance(r_.value, int):
                    nfix = r_.value
        D = Denoter(raw, super_call)

        def canon(d):
            txt = repr(d)
            if nfix is not None:
                txt = txt.replace(":n;", ":%d;" % nfix)
            if unsigned:
                txt = txt.replace(";cls.signed]", ";False]")
            return txt

        def lin(e):
            d = D.den(e)
            if d[0] != "num":
                return None
            la = d[1].linear_atoms()
            if la is None:
                return None
            c, k = la
            out = Lin.const(k)
            for a, v in c.items():
                a2 = canon(("x", a))[7:-2] if False else a
                if nfix is not None:
                    a2 = a2.replace(":n;", ":%d;" % nfix)
                if unsigned:
                    a2 = a2.replace(";cls.signed]", ";False]")
                term = Lin.sym(a2)
                for _ in range(abs(v)):
                    out = out + term if v > 0 else out - term
            return out
        def prop(e):
            if isinstance(e, ast.Name) and e.id == raw:
                return "raw"
            b = _const_bytes(e)
            if b is not None:
                return b.hex()
            if isinstance(e, ast.Call) and isinstance(
                    e.func, ast.Attribute) and e.func.attr == "isascii" \
                    and not e.args and _before_nul(e.func.value, raw):
                return "cstring.isascii()"
            return None
        P = pred.Parser(lin, prop)
        trees = []
        for (t, b) in pth.conds:
            tr = P.tree(t)
            trees.append(tr if b else ("not", tr))
        cond = pred.dnf(("and", trees))
        if not cond:
            continue           # contradictory path
        if pth.kind == "return" and isinstance(pth.expr, (
                ast.Compare, ast.BoolOp)) or (isinstance(
                    pth.expr, ast.UnaryOp) and isinstance(
                        pth.expr.op, ast.Not)):
            # a returned comparison: True on its region, False on the rest
            tr = P.tree(pth.expr)
            for (val, t2) in ((True, tr), (False, ("not", tr))):
                c2 = pred.dnf(("and", trees + [t2]))
                if c2:
                    d = ("bool", val)
                    key = canon(d)
                    if key not in cases:
                        cases[key] = [d, frozenset()]
                        order.append(key)
                    cases[key][1] = pred.union(cases[key][1], c2)
            continue
        if pth.kind == "return":
            d = D.den(pth.expr) if pth.expr is not None else ("none",)
        elif pth.kind == "raise":
            d = ("raise", paths.exc_name(pth.expr))
        else:
            d = ("none",)
        key = canon(d)
        if key not in cases:
            cases[key] = [d, frozenset()]
            order.append(key)
        cases[key][1] = pred.union(cases[key][1], cond)
    return [(cases[k][0], cases[k][1], k) for k in order]


def _check_decode_forms(run, repo, world, values):
    run.rule("R-DECODE-FORM", "each decoder family computes its documented "
             "formula: the path summaries of raw_to_value, read as algebraic "
             "denotations of the raw bytes (big-endian / signedness / scale / "
             "offset / version digits / C string), equal the transcribed "
             "encoding case by case, under equivalent conditions")
    groups = {}
    for d in values:
        dec = _definer(d.cls, "raw_to_value")
        if dec is None or d.family is None:
            continue
        groups.setdefault((dec.qname, d.family), []).append(d)
    n = 0
    for (decq, family), ds in sorted(groups.items()):
        dec = _definer(ds[0].cls, "raw_to_value")
        mod = repo.mod(dec.mod)
        exp = _expected_forms(family, decq)
        if exp is None:
            continue
        n += 1
        # NumericValue's contract includes `signed` (sign-aware decoding is
        # part of the property); a version is never signed, so there a
        # decoder may as well read the bytes unsigned
        unsigned = family == "VersionNumberValue" and all(
            not d.signed for d in ds)
        try:
            got = _decode_cases(world, dec, "raw_to_value", unsigned)
        except (paths.Unsupported, pred.Unrecognised) as e:
            raise AnalysisError("R-DECODE-FORM: %s.raw_to_value is outside "
                                "the forms read: %s" % (decq, e))
        if got is None:
            raise AnalysisError("R-DECODE-FORM: cannot read %s.raw_to_value"
                                % decq)
        key = "%s#%s" % (decq, family)
        alts = exp["alternatives"] if isinstance(exp, dict) else [exp]
        best = None
        for exp in alts:
            problems = _match_forms(exp, got, unsigned, decq)
            if best is None or len(problems) < len(best):
                best = problems
        problems = best
        run.ob("R-DECODE-FORM", key, not problems, "; ".join(problems),
               where(mod, dec.methods["raw_to_value"][1]),
               sample={"rule": "R-DECODE-FORM", "decoder": decq,
                       "cases": [[dshow(g[0]), pred.show(g[1]) or "always"]
                                 for g in got]})
    run.floor("decoder families", n, 7)


def _match_forms(exp, got, unsigned, decq):
    if True:
        def canon_exp(d):
            t = repr(d)
            if unsigned:
                t = t.replace(";cls.signed]", ";False]")
            return t
        gotmap = {g[2]: g for g in got}
        problems = []
        # the expected forms speak about 1-byte versions through be[0:1];
        # an unsigned read is never negative
        syms = {a[i] for g in got for c in g[1] for a in c
                if a[0] == "le" for i in (1, 2)}
        hyp = (("le", "0", "n", 1),) + tuple(
            ("le", "0", s_, 0) for s_ in sorted(syms)
            if s_.startswith("be[") and s_.endswith(";False]"))
        for (d, condtree) in exp:
            k = canon_exp(d)
            want = pred.dnf(condtree)
            g = gotmap.pop(k, None)
            if g is None:
                alt = [x for x in gotmap.values()]
                problems.append("no path computes %s (when %s); found %s" % (
                    dshow(d), pred.show(want) or "always",
                    "; ".join("%s when %s" % (dshow(x[0]), pred.show(x[1])
                                              or "always") for x in alt)
                    or "nothing else"))
                continue
            eq, wit = pred.equivalent(g[1], want, hyp)
            if not eq:
                problems.append("%s is returned when %s, documented: when %s"
                                % (dshow(d), pred.show(g[1]) or "always",
                                   pred.show(want) or "always"))
        for k, g in gotmap.items():
            if any(pred.sat(c, hyp) for c in g[1]):
                if g[0][0] == "opaque":
                    raise AnalysisError(
                        "R-DECODE-FORM: %s.raw_to_value computes `%s`, which "
                        "is outside the expression forms read" % (
                            decq, g[0][1]))
                problems.append("undocumented outcome %s when %s" % (
                    dshow(g[0]), pred.show(g[1]) or "always"))
        return problems


def _over_locations(it):
    """The loop visits cls.locations in order: the tuple itself, or a zip /
    enumerate that pairs it with something else."""
    if unparse(it) == "cls.locations":
        return True
    return isinstance(it, ast.Call) and unparse(it.func) in (
        "zip", "enumerate") and bool(it.args) and unparse(
            it.args[0]) == "cls.locations" and not it.keywords


def _check_from_list_order(run, repo, world):
    """read_raw and from_list build the raw bytes in cls.locations order."""
    mv = world.cls(LOC + ".MemoryValue")
    mod = repo.mod(LOC)
    for m in ("read_raw", "from_list"):
        fn = mv.methods[m][1]
        # a for loop or the generator of a comprehension
        loops = [n for n in ast.walk(fn) if isinstance(n, ast.For)] + [
            g for n in ast.walk(fn) if isinstance(
                n, (ast.ListComp, ast.GeneratorExp)) for g in n.generators]
        run.ob("R-DECODE", "%s.MemoryValue.%s#location-order" % (LOC, m),
               len(loops) == 1 and _over_locations(loops[0].iter),
               "%s must assemble the bytes in cls.locations order" % m,
               where(mod, fn), trivial=True)
    # ... and what the decoders are handed is a bytes object: MASK / TMASK
    # are recognised by `raw == cls.mask` (bytes), strings by bytes methods
    from ..cfg import CFG, reaching_defs, defs_reaching, explicit_raise_only

    def bytes_expr(fnx, cfg, rd, node, e, depth=0):
        """True when `e`, evaluated at `node`, can only be a bytes object."""
        if depth > 6:
            return False
        if isinstance(e, ast.Constant):
            return isinstance(e.value, bytes)
        if isinstance(e, ast.Call):
            t = unparse(e.func)
            if t in ("bytes", "bytearray"):
                return True
            if isinstance(e.func, ast.Attribute) and e.func.attr in (
                    "to_bytes", "encode", "join") and (
                        e.func.attr != "join" or bytes_expr(
                            fnx, cfg, rd, node, e.func.value, depth + 1)):
                return True
            return False
        if isinstance(e, (ast.YieldFrom, ast.Await)):
            c = e.value
            if isinstance(c, ast.Call) and isinstance(
                    c.func, ast.Attribute) and c.func.attr == "read_raw":
                return True        # checked on read_raw itself, below
            return False
        if isinstance(e, ast.IfExp):
            return bytes_expr(fnx, cfg, rd, node, e.body, depth + 1) and \
                bytes_expr(fnx, cfg, rd, node, e.orelse, depth + 1)
        if isinstance(e, ast.BinOp) and isinstance(e.op, ast.Add):
            return bytes_expr(fnx, cfg, rd, node, e.left, depth + 1) and \
                bytes_expr(fnx, cfg, rd, node, e.right, depth + 1)
        if isinstance(e, ast.Subscript) and isinstance(e.slice, ast.Slice):
            return bytes_expr(fnx, cfg, rd, node, e.value, depth + 1)
        if isinstance(e, ast.Name):
            ds = defs_reaching(rd, node, e.id)
            if not ds:
                return False
            for d in ds:
                dn = cfg.nodes[d]
                a = dn.ast
                if dn.kind == "stmt" and isinstance(a, ast.Assign) and len(
                        a.targets) == 1 and isinstance(
                            a.targets[0], ast.Name):
                    if not bytes_expr(fnx, cfg, rd, dn, a.value, depth + 1):
                        return False
                else:
                    return False
            return True
        return False
    n_sites = 0
    for m in ("read", "from_list", "read_raw"):
        if m not in mv.methods:
            raise AnalysisError("MemoryValue.%s is gone" % m)
        fnx = normalise(mv.methods[m][1], world, LOC, mv, primitives=(
            "read_raw", "read", "from_list", "check_raw", "raw_to_value",
            "is_valid"), aliases=False)
        cfg = CFG(fnx, may_raise=explicit_raise_only,
                  name="MemoryValue." + m)
        rd = reaching_defs(cfg, [a.arg for a in fnx.args.args])
        for n in cfg.reachable:
            if n.ast is None or n.kind not in ("stmt", "test"):
                continue
            if m == "read_raw":
                if isinstance(n.ast, ast.Return):
                    n_sites += 1
                    run.ob("R-DECODE", "%s.MemoryValue.read_raw#returns-bytes"
                           % LOC, n.ast.value is not None and bytes_expr(
                               fnx, cfg, rd, n, n.ast.value),
                           "read_raw returns `%s`, which is not (only) a "
                           "bytes object: `raw == cls.mask` is then never "
                           "true and MASK / TMASK decode as numbers" % (
                               unparse(n.ast.value) if n.ast.value
                               is not None else None), where(mod, n))
                continue
            for c in paths_calls(n.ast):
                if not (isinstance(c.func, ast.Attribute) and c.func.attr in (
                        "check_raw", "raw_to_value") and len(c.args) == 1):
                    continue
                n_sites += 1
                run.ob("R-DECODE", "%s.MemoryValue.%s#%s-gets-bytes" % (
                    LOC, m, c.func.attr),
                       bytes_expr(fnx, cfg, rd, n, c.args[0]),
                       "%s is handed `%s`, which is not (only) a bytes "
                       "object on some path: `raw == cls.mask` compares a "
                       "list with bytes and is never true, so MASK / TMASK "
                       "are decoded as numbers; bytes methods such as "
                       "split() are missing" % (c.func.attr,
                                                unparse(c.args[0])),
                       where(mod, n))
    run.floor("decoder hand-over sites (bytes)", n_sites, 5)


def paths_calls(stmt):
    from ..cfg import _walk_no_nested
    return [x for x in _walk_no_nested(stmt) if isinstance(x, ast.Call)]


def _check_registration_guards(run, repo, world):
    """MemoryBank._add_memory_value refuses an overlapping location and a
    lockable location in a bank without a lock byte - for every value that
    is ever declared, not only the shipped ones."""
    run.rule("R-MAP-GUARD", "registration refuses overlapping locations and "
             "lockable locations in banks without a lock byte")
    c = world.cls(LOC + ".MemoryBank")
    fn = normalise(c.methods["_add_memory_value"][1], world, LOC, c,
                   aliases="params")
    mod = repo.mod(LOC)
    guards = []
    for n in ast.walk(fn):
        if isinstance(n, ast.If) and any(isinstance(x, ast.Raise)
                                         for x in n.body):
            exc = [unparse(x.exc.func if isinstance(x.exc, ast.Call)
                           else x.exc) for x in n.body
                   if isinstance(x, ast.Raise)][0]
            guards.append((n.test, exc))
    lock = [t for (t, e) in guards if e == "LockingNotSupported"]
    over = [t for (t, e) in guards if e == "MemoryLocationOverlap"]
    if not lock or not over:
        raise AnalysisError("MemoryBank._add_memory_value: refusal guards "
                            "not found in a recognisable form")
    okl = False
    for t in lock:
        parts = [unparse(v) for v in (t.values if isinstance(
            t, ast.BoolOp) and isinstance(t.op, ast.And) else [t])]
        known = {"location.type_ == MemoryType.NVM_RW_L",
                 "MemoryType.NVM_RW_L == location.type_",
                 "location.type_ is MemoryType.NVM_RW_L"}
        lk = {"not self.has_lock", "self.has_lock is False",
              "self.has_lock == False"}
        if set(parts) & known and set(parts) & lk and len(parts) == 2:
            okl = True
        elif not (set(parts) & known) and any(
                "locations[" in p_ and "NVM_RW_L" in p_ for p_ in parts):
            # one fixed location tested instead of each of them
            okl = False
        elif not (set(parts) & known):
            raise AnalysisError("MemoryBank._add_memory_value: lock guard "
                                "`%s` not in a recognisable form"
                                % unparse(t))
    run.ob("R-MAP-GUARD", LOC + ".MemoryBank._add_memory_value#lockable",
           okl, "a lockable (NVM_RW_L) location must be refused exactly when "
           "the bank has no lock byte (`not self.has_lock`); the guard is "
           "`%s` (a latch-only bank also owns a LockByte object)"
           % " / ".join(unparse(t) for t in lock), where(mod, fn))
    # (a local bound once to the address is that address)
    from .. import astq as _aq
    oko = any(_aq.canon(fn, t) in (
        "self.locations[location.address]",
        "self.locations[location.address] is not None") for t in over)
    run.ob("R-MAP-GUARD", LOC + ".MemoryBank._add_memory_value#overlap",
           oko, "an already occupied location must be refused (guard `%s`)"
           % " / ".join(unparse(t) for t in over), where(mod, fn))


def _check_mem_pure(run, repo, world):
    """R-MEM-PURE: what a memory value is decoded to is a function of the
    bytes read: no method of the memory classes writes to state shared
    between calls (a class-level memo, a module global); the registration
    done by the metaclass aside."""
    from ..seq import shared_state_writes
    run.rule("R-MEM-PURE", "no method of the memory value / bank classes "
             "writes to state shared between calls (class-level container, "
             "module global); registration by the metaclass aside")
    n = 0
    for modname in sorted(repo.modules):
        if not modname.startswith("dali.memory"):
            continue
        mod = repo.mod(modname)
        for c in world.classes_in(modname):
            if c.has_ext_base("type"):
                continue
            for name, (kind, f) in sorted(c.methods.items()):
                n += 1
                bad = shared_state_writes(world, c, f)
                run.ob("R-MEM-PURE", "%s.%s" % (c.qname, name), not bad,
                       "%s.%s writes to state shared between calls (%s): "
                       "what one unit's bytes decode to then depends on "
                       "what was decoded before" % (c.qname, name,
                                                    "; ".join(bad[:3])),
                       where(mod, f), trivial=True)
    run.floor("memory class methods examined for shared writes", n, 30)
