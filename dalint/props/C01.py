"""C01 - every forward frame decodes and re-encodes to itself; decoding is
pure: R-CODEC / R-WIDTH / R-FALLBACK (abstract interpretation of the whole
decoder chain on symbolic frames), R-PURE, R-TRUTHY, R-ATTRDEF."""
import ast

from ..core import AnalysisError, unparse, where
from ..fold import Folder
from ..front import ClassInfo
from .. import cmdtable
from ..codec import (Interp, State, Raise, Obj, AFrame, ClsRef, Ref,
                     Unsupported, Opaque)
from ..codec_run import decode_all, frame_of, lanes_match, cube_str

CMD = "dali.command.Command"
MUTATORS = ("append", "add", "update", "pop", "setdefault", "clear",
            "remove", "insert", "extend", "discard", "popitem",
            "__setitem__", "__delitem__")
REGISTRY_ATTRS = ("_framesizes", "_gearcommands", "_opcodes",
                  "_devicecommands", "_instance_types", "_event_classes",
                  "_addrtypes", "_commands", "_supported_devicetypes",
                  "_bit_properties")


def check(run, repo, world):
    run.explanation = (
        "The whole decoder chain reachable from dali.command.from_frame is "
        "abstractly interpreted on a frame of n symbolic provenance lanes "
        "in[n-1..0], with the device type and the mapped instance type "
        "symbolic and the decode registries taken from the interpreted "
        "registration code.  Every comparison, bit test and registry "
        "look-up on lanes splits the case (trace partitioning: one cube per "
        "registry key plus the miss case); for every leaf case the returned "
        "object's frame must be, lane by lane, the input lane or a constant "
        "the case's cube forces that lane to - which proves bit-identical "
        "re-encoding for ALL frames of the case at once (n = 16 with every "
        "device type; n = 24 without map, with a map answering None and with "
        "a map answering any instance type; every other width 1..64).  An "
        "exception on any decode path, a None result, or an attribute read "
        "by __str__ that the decode path never assigns is a violation.  "
        "Purity: the interpreter records every store; stores may only "
        "target objects allocated during the decode, and the registries are "
        "written only by registration code (who-may-write scan).")
    run.assumptions += [
        "CPython attribute lookup / MRO / classmethod semantics as modelled "
        "by the interpreter; classes are not monkey-patched at run time",
        "the interpreted Python subset is listed in codec.py; constructs "
        "outside it give ANALYSIS-ERROR"]
    folder = Folder(world)
    rx = cmdtable.registries(world, folder)
    # syntactic rules first: a store into a registry on a decode path is
    # reported by R-PURE even though the interpreter refuses to go on
    _pure(run, repo, world)
    _truthy(run, repo, world)
    try:
        _codec(run, repo, world, folder, rx)
    except AnalysisError as e:
        if not run.findings:
            raise
        run.note("decoder interpretation stopped (%s); the violations "
                 "already found are reported" % e)


def _codec(run, repo, world, folder, rx):
    cmd = world.cls(CMD)
    run.rule("R-CODEC", "decode then re-encode is the identity, lane by "
             "lane, for every leaf case")
    run.rule("R-WIDTH", "no exception can be raised on a decode path")
    run.rule("R-FALLBACK", "every case returns a command object; unknown "
             "frames come back as generic commands carrying the same bits")
    total = 0
    classes_seen = {}
    leaf_objs = {}
    str_skipped = [0]
    modes = [(16, "nomap"), (24, "nomap"), (24, "none"), (24, "type")]
    for (width, mm) in modes:
        I, res = decode_all(world, rx, folder, width, mm)
        total += len(res)
        want = [("in", j) for j in range(width)]
        key = "%d-bit/%s" % (width, mm)
        nbad = 0
        for v, st in res:
            if isinstance(v, Raise):
                nbad += 1
                run.ob("R-WIDTH", "%s#raise:%s" % (key, str(v.exc)[:60]),
                       False, "decoding raises `%s` for frames with %s" % (
                           v.exc, cube_str(st) or "any bits"),
                       _where(repo, v))
                continue
            o = st.d(v) if isinstance(v, Ref) else v
            if not isinstance(o, Obj) or o.cls is None or \
                    cmd not in o.cls.mro:
                nbad += 1
                run.ob("R-FALLBACK", "%s#result:%r" % (key, o), False,
                       "decoding returns %r instead of a command object for "
                       "frames with %s" % (o, cube_str(st)),
                       repo.mod("dali.command").relpath)
                continue
            fr = frame_of(st, v)
            if fr is None or not isinstance(fr, AFrame):
                nbad += 1
                run.ob("R-CODEC", "%s#%s#no-frame" % (key, o.cls.qname),
                       False, "decoded %s carries no frame" % o.cls.name,
                       where(repo.mod(o.cls.mod), o.cls.node))
                continue
            errs = lanes_match(st, fr.lanes, want)
            if errs or fr.w != width:
                nbad += 1
                run.ob("R-CODEC", "%s#%s" % (key, o.cls.qname), False,
                       "re-encoding %s differs from the input in bits %s "
                       "(decoded lane vs input) for frames with %s" % (
                           o.cls.name, [(e[0], _ls(e[1])) for e in errs[:6]],
                           cube_str(st)),
                       where(repo.mod(o.cls.mod), o.cls.node))
            # the textual form of what was decoded exists: str() of the
            # object does not raise for any frame of the leaf
            if mm == "nomap":
                rs = o.cls.lookup("__str__")
                if rs is not None and rs[1] not in ("attr", "class"):
                    try:
                        outs = list(I.call_fn(rs[2], rs[0], [], {},
                                              st.fork(), self_=v,
                                              kind="inst"))
                    except (Unsupported, AnalysisError):
                        outs = []
                        str_skipped[0] += 1
                    for (sv, s2) in outs:
                        if isinstance(sv, Raise):
                            run.ob("R-STR-WIDTH", "%s#%s#str-raises" % (
                                key, o.cls.qname), False,
                                "str() of the decoded %s raises `%s` for "
                                "frames with %s" % (o.cls.name, sv.exc,
                                                    cube_str(s2)),
                                where(repo.mod(o.cls.mod), o.cls.node))
            classes_seen[o.cls] = classes_seen.get(o.cls, 0) + 1
            shape = (o.cls, frozenset(o.f))
            if shape not in leaf_objs:
                leaf_objs[shape] = (I, v, st)
        nraise = sum(1 for v, _ in res if isinstance(v, Raise))
        run.ob("R-WIDTH", key + "#no-raise-leaf", nraise == 0,
               "%d of %d leaf cases end in an exception" % (nraise,
                                                            len(res)))
        run.ob("R-CODEC", key + "#all-cases", nbad == 0,
               "%d of %d leaf cases fail" % (nbad, len(res)),
               sample={"rule": "R-CODEC", "mode": key, "leaf_cases":
                       len(res), "forks": I.stats["forks"],
                       "example": _example(res)})
        run.count(len(res))
        run.analysed["leaf cases %s" % key] = len(res)
    run.analysed["leaf cases whose __str__ is outside the interpreter"] = \
        str_skipped[0]
    run.floor("decode leaf cases", total, 8000)
    run.floor("distinct decoded classes", len(classes_seen), 300)
    # other widths: the generic fallback
    nw = 0
    for width in range(1, 65):
        if width in (16, 24):
            continue
        I, res = decode_all(world, rx, folder, width, "nomap")
        nw += 1
        ok = len(res) == 1 and not isinstance(res[0][0], Raise)
        if ok:
            v, st = res[0]
            fr = frame_of(st, v)
            o = st.d(v)
            ok = fr is not None and not lanes_match(
                st, fr.lanes, [("in", j) for j in range(width)]) and \
                o.cls is cmd
        run.ob("R-FALLBACK", "%d-bit" % width, ok,
               "a %d-bit forward frame does not come back as a bare "
               "Command carrying the same bits: %s" % (width, res[:1]),
               repo.mod("dali.command").relpath, trivial=width not in (8, 25))
    run.analysed["other frame widths checked"] = nw

    _attrdef(run, repo, world, leaf_objs)


def _ls(l):
    from ..codec import _lane_str
    return _lane_str(l)


def _where(repo, r):
    n = getattr(r, "node", None)
    return "line %s" % getattr(n, "lineno", "?") if n is not None else None


def _example(res):
    for v, st in res:
        if not isinstance(v, Raise) and st.cube:
            o = st.d(v)
            if isinstance(o, Obj) and o.cls is not None and len(st.cube) > 6:
                fr = frame_of(st, v)
                return {"class": o.cls.name, "cube": cube_str(st),
                        "frame": repr(fr)}
    return None


def _attrdef(run, repo, world, leaf_objs):
    """R-ATTRDEF: str() of each decodable class reads only attributes the
    decode path has assigned (or class attributes)."""
    run.rule("R-ATTRDEF", "__str__ of every decoded class reads only "
             "defined attributes (text rendering cannot raise "
             "AttributeError)")
    n = 0
    seen_cls = set()
    for (c, shape), (I, v, st) in sorted(
            leaf_objs.items(), key=lambda kv: (kv[0][0].qname,
                                               sorted(kv[0][1]))):
        r = c.lookup("__str__")
        if r is None:
            continue
        owner, kind, fn = r
        if c not in seen_cls:
            n += 1
            seen_cls.add(c)
        st2 = st.fork()
        bad = None
        try:
            outs = I.call_fn(fn, owner, [], {}, st2, self_=v, kind="inst")
            for val, s3 in outs:
                if isinstance(val, Raise) and "AttributeError" in str(
                        val.exc):
                    bad = val.exc
        except Unsupported as e:
            # rendering code outside the codec subset (string methods...):
            # fall back to a syntactic attribute check
            bad = _syntactic_attr_check(c, fn, st.d(v))
        run.ob("R-ATTRDEF", c.qname + ".__str__", bad is None,
               "str() of a decoded %s raises %s for frames with %s (the "
               "decoder set only %s)" % (c.name, bad, cube_str(st),
                                         sorted(shape)),
               where(repo.mod(owner.mod), fn), trivial=True)
    run.floor("decodable classes with a __str__", n, 100)
    # fixed-width byte renderings inside __str__: wide enough for every
    # frame length (pack_len / to_bytes raise OverflowError otherwise)
    from .. import pred
    run.rule("R-STR-WIDTH", "a byte count handed to pack_len()/to_bytes() "
             "while rendering is >= ceil(bits / 8) for every frame length "
             "(closed form in n = 8q + r, all residues)")
    done = set()
    for c in sorted(seen_cls, key=lambda k: k.qname):
        r = c.lookup("__str__")
        owner, kind, fn = r
        if id(fn) in done:
            continue
        done.add(id(fn))
        for call in ast.walk(fn):
            if not (isinstance(call, ast.Call) and isinstance(
                    call.func, ast.Attribute) and call.func.attr in (
                        "pack_len", "to_bytes") and call.args):
                continue
            recv = unparse(call.func.value)
            if call.func.attr == "to_bytes" and not recv.endswith("._data"):
                continue
            names = ("len(%s)" % recv, "len(self._data)", "len(self.frame)",
                     "len(self)")
            short = None
            for res in range(8):
                try:
                    q = pred.residue_eval(call.args[0], names, 8, res)
                except pred.Unrecognised as e:
                    raise AnalysisError(
                        "R-STR-WIDTH: %s.__str__ renders with a byte count "
                        "`%s` outside the width forms read (%s)" % (
                            owner.qname, unparse(call.args[0]), e))
                need_b = 1 if res else 0
                # q.a*q + q.b >= q + need_b for all q >= 0
                if q.a < 1 or q.b < need_b:
                    short = (res, q)
                    break
            run.ob("R-STR-WIDTH", "%s.__str__#%s" % (owner.qname,
                                                     call.func.attr),
                   short is None,
                   "frames of 8q+%s bits are rendered into %s bytes: "
                   "%s raises OverflowError when a bit above that is set, so "
                   "str() of the decoded command fails" % (
                       short[0] if short else "", short[1] if short else "",
                       call.func.attr), where(repo.mod(owner.mod), call))


def _syntactic_attr_check(c, fn, obj):
    for n in ast.walk(fn):
        if isinstance(n, ast.Attribute) and isinstance(
                n.value, ast.Name) and n.value.id == "self" and isinstance(
                    n.ctx, ast.Load):
            if n.attr in obj.f or c.lookup(n.attr) is not None or \
                    n.attr.startswith("__"):
                continue
            return "AttributeError: %s.%s" % (c.name, n.attr)
    return None


def _reachable_decode_functions(world):
    """Functions reachable from Command.from_frame by name-based resolution
    inside the codec modules (over-approximation)."""
    mods = set(cmdtable.CODEC_MODS) | {"dali.frame", "dali.device.helpers"}
    fns = []
    for q, (modname, fn, cls) in world.funcs.items():
        if modname not in mods:
            continue
        if fn.name in ("from_frame", "__init__", "instance_from_frame",
                       "from_event_data", "_set_event_data", "get_type",
                       "_check_destination", "add_to_frame",
                       "_register_subclass") or fn.name.startswith(
                           "_parse") or (cls is not None and
                                         fn.name == "__getitem__"):
            fns.append((q, modname, fn, cls))
    return fns


def _pure(run, repo, world):
    run.rule("R-PURE", "decode paths do not write module globals, class "
             "attributes, registries, the input frame or the instance map; "
             "registries are written only by registration code")
    nf = 0
    for (q, modname, fn, cls) in _reachable_decode_functions(world):
        if fn.name in ("_register_subclass",):
            continue
        if cls is not None and any(isinstance(b, str) and b.endswith(
                "builtins.type") for b in cls.mro):
            continue       # metaclasses run at class-creation time only
        nf += 1
        mod = repo.mod(modname)
        bad = []
        is_init = fn.name in ("__init__", "_set_event_data", "__setitem__")
        params = [a.arg for a in fn.args.args]
        for n in ast.walk(fn):
            if isinstance(n, (ast.Global, ast.Nonlocal)):
                bad.append("global/nonlocal statement")
            if isinstance(n, ast.Attribute) and isinstance(
                    n.ctx, (ast.Store, ast.Del)):
                recv = unparse(n.value)
                if recv == "self" and is_init:
                    continue
                if recv == "self" and fn.name == "add_to_frame":
                    bad.append("add_to_frame writes self.%s" % n.attr)
                    continue
                if recv == "cls" or recv[:1].isupper():
                    bad.append("class attribute store %s.%s" % (recv,
                                                                n.attr))
                elif recv != "self":
                    bad.append("attribute store %s.%s" % (recv, n.attr))
            if isinstance(n, ast.Subscript) and isinstance(
                    n.ctx, (ast.Store, ast.Del)):
                recv = unparse(n.value)
                # writing the frame being built is the encoder's job; a
                # decoder (from_frame) must not write its input `f`
                if fn.name.startswith("from_") and recv in params:
                    bad.append("decoder writes into its argument %s" % recv)
                if any(r in recv for r in REGISTRY_ATTRS):
                    bad.append("registry item store %s" % recv)
            if isinstance(n, ast.Call) and isinstance(
                    n.func, ast.Attribute) and n.func.attr in MUTATORS:
                recv = unparse(n.func.value)
                if any(r in recv for r in REGISTRY_ATTRS) or recv in (
                        "dev_inst_map", "f", "frame") or "_mapping" in recv \
                        or recv.startswith("dev_inst_map."):
                    bad.append("%s.%s()" % (recv, n.func.attr))
            # a decoder asks the instance map one question, get_type(): what
            # else it reads from the map makes the result depend on entries
            # that are not this frame's
            if fn.name.startswith("from_") and isinstance(
                    n, ast.Attribute) and isinstance(
                        n.ctx, ast.Load) and unparse(
                            n.value) == "dev_inst_map" and \
                    n.attr != "get_type":
                bad.append("decoder reads dev_inst_map.%s" % n.attr)
        if cls is not None and hasattr(cls, "mro") and \
                fn.name not in ("add_to_frame",):
            # a class-level container that is not one of the registries (a
            # memo of decoded frames) is shared state all the same
            from ..seq import shared_state_writes
            for t_ in shared_state_writes(world, cls, fn):
                bad.append("write to shared state `%s`" % t_)
        run.ob("R-PURE", q, not bad,
               "decode-path function has a side effect on shared state: %s"
               % "; ".join(sorted(set(bad))), where(mod, fn),
               sample={"rule": "R-PURE", "function": q} if nf == 1 else None,
               trivial=True)
    run.floor("decode-path functions scanned for effects", nf, 60)
    # who may write the registries
    for modname in cmdtable.CODEC_MODS:
        m = repo.mod(modname)
        for n in ast.walk(m.tree):
            target = None
            if isinstance(n, ast.Call) and isinstance(
                    n.func, ast.Attribute) and n.func.attr in MUTATORS:
                target = unparse(n.func.value)
            elif isinstance(n, ast.Subscript) and isinstance(
                    n.ctx, (ast.Store, ast.Del)):
                target = unparse(n.value)
            if target is None or not any(
                    target.endswith("." + r) for r in REGISTRY_ATTRS):
                continue
            fn = n
            while fn is not None and not isinstance(
                    fn, (ast.FunctionDef, ast.AsyncFunctionDef)):
                fn = getattr(fn, "_parent", None)
            cl = getattr(fn, "_parent", None) if fn is not None else None
            ok = fn is not None and (
                fn.name == "_register_subclass" or (
                    fn.name == "__init__" and isinstance(cl, ast.ClassDef)
                    and any(unparse(b) == "type" for b in cl.bases)))
            run.ob("R-PURE", "%s#writes:%s@%s" % (
                modname, target, fn.name if fn else "module"), ok,
                "registry %s is modified outside registration code (in "
                "%s): the result of decoding then depends on what was "
                "decoded or constructed before" % (
                    target, fn.name if fn else "module level"),
                where(m, n), trivial=True)


def _truthy(run, repo, world):
    run.rule("R-TRUTHY", "`if r: return r` dispatch is sound: no Command / "
             "Address / Instance class defines __bool__ or __len__")
    roots = [world.cls(CMD), world.cls("dali.address.Address"),
             world.cls("dali.address.Instance")]
    n = 0
    for c in world.class_order:
        if not any(r in c.mro for r in roots):
            continue
        n += 1
        for m in ("__bool__", "__len__"):
            if m in c.methods:
                run.ob("R-TRUTHY", "%s.%s" % (c.qname, m), False,
                       "%s defines %s: a decoded object can be falsy and the "
                       "dispatcher then falls through to the generic "
                       "fallback" % (c.name, m),
                       where(repo.mod(c.mod), c.methods[m][1]))
    run.ob("R-TRUTHY", "hierarchies", True, trivial=True)
    run.floor("classes in Command/Address/Instance hierarchies", n, 340)
    # the dispatch idiom sites
    sites = 0
    for q, (modname, fn, cls) in world.funcs.items():
        if fn.name != "from_frame":
            continue
        for node in ast.walk(fn):
            if isinstance(node, ast.If) and isinstance(
                    node.test, ast.Name) and len(node.body) == 1 and \
                    isinstance(node.body[0], ast.Return) and unparse(
                        node.body[0].value) == node.test.id:
                sites += 1
            # the same dispatch written with filter(None, ..) / `or`
            if isinstance(node, ast.Call) and unparse(
                    node.func) == "filter" and node.args and unparse(
                        node.args[0]) == "None":
                sites += 1
    run.floor("`if r: return r` dispatch sites", sites, 1)
