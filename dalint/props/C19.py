"""C19 - serial receivers: R-BOUND (interval analysis of buffer writes),
R-FSM-TOTAL, R-FSM-RESET, R-FSM-CHUNK, R-FSM-CHK, R-FSM-ESC,
R-FSM-DISPATCH."""
import ast

from ..core import AnalysisError, unparse, where
from ..cfg import CFG, explicit_raise_only, _walk_no_nested, forward_worlds
from ..fold import Folder, UNKNOWN, ClassRef
from ..seq import cond_edge_transfer, kill_conds_on_assign

SER = "dali.driver.serial"
PROTOS = [SER + ".DriverLubaRs232.LubaProtocol",
          SER + ".DriverSCIRS232.SCIRS232Protocol"]


class Iv:
    """Integer interval."""
    __slots__ = ("lo", "hi")

    def __init__(self, lo, hi):
        self.lo, self.hi = lo, hi

    def __repr__(self):
        return "[%s, %s]" % (self.lo, self.hi)


def iv_eval(e, env, folder, owner):
    """Interval of expression e; env maps unparsed sub-expressions to Iv."""
    t = unparse(e)
    if t in env:
        return env[t]
    v = folder.eval(e, {"self": ClassRef(owner), "cls": ClassRef(owner)},
                    owner.mod)
    if isinstance(v, int) and not isinstance(v, bool):
        return Iv(v, v)
    if isinstance(e, ast.BinOp):
        l = iv_eval(e.left, env, folder, owner)
        r = iv_eval(e.right, env, folder, owner)
        if l is None or r is None:
            return None
        if isinstance(e.op, ast.Add):
            return Iv(l.lo + r.lo, l.hi + r.hi)
        if isinstance(e.op, ast.Sub):
            return Iv(l.lo - r.hi, l.hi - r.lo)
        if isinstance(e.op, ast.Mult) and l.lo >= 0 and r.lo >= 0:
            return Iv(l.lo * r.lo, l.hi * r.hi)
    return None


def _branches(fn):
    """The state dispatch chain of _process_byte: [(state name, body)] and
    the final else body."""
    chain = None
    for s in fn.body:
        if isinstance(s, ast.If) and "_rx_state ==" in unparse(s.test):
            chain = s
    if chain is None:
        raise AnalysisError("_process_byte has no state dispatch chain")
    out = []
    cur = chain
    while True:
        t = cur.test
        if not (isinstance(t, ast.Compare) and unparse(t.left) in (
                "self._rx_state", "self.rx_state") and isinstance(
                    t.ops[0], ast.Eq)):
            raise AnalysisError("unrecognised state test `%s`" % unparse(t))
        state = unparse(t.comparators[0]).split(".")[-1]
        out.append((state, cur.body, cur))
        if len(cur.orelse) == 1 and isinstance(cur.orelse[0], ast.If):
            cur = cur.orelse[0]
        else:
            return out, cur.orelse


def check(run, repo, world):
    run.explanation = (
        "(R-BOUND) interval analysis of the receive buffers: the length "
        "accepted in the length state bounds the payload counter, which is "
        "incremented by one per byte from 0 (reset) up to the accepted "
        "length, and every `self._buffer[e] = ...` must satisfy max(e) < "
        "buffer size for every byte stream; (R-FSM-TOTAL) one dispatch "
        "branch per state of the ReadState enum and an unreachable-state "
        "raise; (R-FSM-RESET) in the terminal state every path - bad "
        "checksum, unknown type, each handled type, unexpected type - ends in "
        "reset(), as does the invalid-length path; (R-FSM-CHUNK) "
        "data_received is a plain loop feeding _process_byte and all "
        "inter-byte state lives in self attributes, so chunking cannot "
        "matter; (R-FSM-CHK) checksum span and start byte agree with the "
        "transmitter; (R-FSM-ESC) enum conversions outside the per-type "
        "handlers are guarded; (R-FSM-NEXT) per state, the set of next "
        "states over all paths (exceptions of try bodies included) equals "
        "the framing's transition table, so a frame is consumed to its end "
        "and reception resumes at the next frame boundary.  NOT decided: "
        "equality with a reference deframer on all streams (which frames "
        "are delivered is a value property).")
    run.assumptions += ["bytes iteration yields ints 0..255",
                        "per-type handlers may raise deliberately for "
                        "malformed payloads (set aside by the property)"]
    folder = Folder(world)
    mod = repo.mod(SER)
    for pq in PROTOS:
        c = world.cls(pq)
        _check_proto(run, world, folder, mod, c)
    _check_sci_reply(run, world, folder, mod,
                     world.cls(SER + ".DriverSCIRS232.SCIRS232Protocol"))


def _check_defassign(run, world, mod, c):
    """No UnboundLocalError on the receive path: in every method reachable
    from data_received, a local variable is assigned on every path to each
    of its reads (definite assignment, must-analysis on the CFG)."""
    run.rule("R-FSM-DEF", "receive path: every local is assigned on all "
             "paths before it is read (no UnboundLocalError for any input)")
    from ..cfg import forward, _stored_names
    reach, stack = set(), ["data_received"]
    while stack:
        m = stack.pop()
        if m in reach or m not in c.methods:
            continue
        reach.add(m)
        for n in ast.walk(c.methods[m][1]):
            # called directly or taken as a bound method first
            # (`step = self._process_byte; step(rx)`)
            if isinstance(n, ast.Attribute) and isinstance(
                    n.ctx, ast.Load) and isinstance(
                        n.value, ast.Name) and n.value.id in ("self", "cls"):
                stack.append(n.attr)
    run.analysed["receive-path methods of %s" % c.name] = len(reach)
    if len(reach) < 3:
        raise AnalysisError("%s: receive path not found from data_received"
                            % c.qname)

    def loads(node):
        a = node.ast
        if a is None:
            return []
        roots = [a]
        if node.kind == "for":
            roots = [a.iter]
        elif node.kind == "with_enter":
            roots = [i.context_expr for i in a.items]
        elif node.kind == "except":
            roots = [a.type] if a.type is not None else []
        out = []
        for r in roots:
            comp = set()
            for n in ast.walk(r):
                if isinstance(n, (ast.ListComp, ast.SetComp, ast.DictComp,
                                  ast.GeneratorExp)):
                    for g in n.generators:
                        for t in ast.walk(g.target):
                            if isinstance(t, ast.Name):
                                comp.add(t.id)
            for n in _walk_no_nested(r):
                if isinstance(n, ast.Name) and isinstance(
                        n.ctx, ast.Load) and n.id not in comp:
                    out.append(n)
        return out
    for m in sorted(reach):
        fn = c.methods[m][1]
        cfg = CFG(fn, may_raise=explicit_raise_only, name=c.qname + "." + m)
        params = {a.arg for a in fn.args.args + fn.args.kwonlyargs}
        if fn.args.vararg:
            params.add(fn.args.vararg.arg)
        if fn.args.kwarg:
            params.add(fn.args.kwarg.arg)
        locals_ = set()
        for n in cfg.reachable:
            if n.kind in ("stmt", "for", "with_enter", "except"):
                locals_ |= _stored_names(n)

        def tr(node, st):
            return st | frozenset(_stored_names(node))
        IN = forward(cfg, tr, init=frozenset(params), must=True)
        bad = {}
        for n in cfg.reachable:
            st = IN.get(n.id)
            if st is None:
                continue
            for x in loads(n):
                if x.id in locals_ and x.id not in st:
                    bad.setdefault(x.id, n)
        for name, n in sorted(bad.items()):
            run.ob("R-FSM-DEF", "%s.%s#%s" % (c.qname, m, name), False,
                   "`%s` is read at line %s but is not assigned on every "
                   "path leading there: an input taking the other path "
                   "raises UnboundLocalError inside the receiver"
                   % (name, n.lineno), where(mod, n))
        run.ob("R-FSM-DEF", "%s.%s" % (c.qname, m), not bad,
               "locals possibly unassigned: %s" % sorted(bad),
               where(mod, fn), trivial=bool(not bad))


LUBA_EVENT_STATUS_BYTE = 6     # start, command, length, tick(2), line, status
LUBA_EVENT_DELIVERS = {
    # queue attribute -> event type (status bits 7..6) whose messages feed it
    "_queue_tx_conf": 0,         # 'DALI frame was sent'
    "_queue_rx_raw_dali": 2,     # 'DALI frame was received', 8 bit
    "_queue_rx_dali": 2,         # ... 16 / 24 bit
}


def _fold_int_class_consts(fn, folder, c):
    from ..unroll import fold_int_class_attrs
    return fold_int_class_attrs(fn, folder, c)


LUBA_RX_EVENT_INFO = (1, 32)


def _ranges(xs):
    out, i = [], 0
    while i < len(xs):
        j = i
        while j + 1 < len(xs) and xs[j + 1] == xs[j] + 1:
            j += 1
        out.append("%d" % xs[i] if i == j else "%d..%d" % (xs[i], xs[j]))
        i = j + 1
    return ", ".join(out) or "none"


def _check_luba_dispatch(run, world, folder, mod, c):
    """Which LUBA event messages deliver an item: per delivery site, the
    conditions of the paths reaching it are evaluated for every value of the
    message's status byte (constant folder, locals resolved); the event
    types (bits 7..6) for which some path stays possible must be exactly
    the type the framing assigns to that queue."""
    run.rule("R-FSM-DISPATCH", "LUBA event messages deliver an item only "
             "for the event type the framing assigns to the queue "
             "(0: sent -> confirmation, 2: received -> answer / command)")
    if "_process_luba_event" not in c.methods:
        return
    from .. import astq
    from ..normal import normalise
    from ..pathcond import path_conds
    P = c.qname + "._process_luba_event"
    fn = normalise(c.methods["_process_luba_event"][1], world, SER, c,
                   aliases="params")
    fn = _fold_int_class_consts(fn, folder, c)
    cfg = CFG(fn, may_raise=explicit_raise_only, name=P)
    param = fn.args.args[1].arg
    defs = astq._defs(fn)
    tests = {}

    def tree(t):
        k = unparse(t, 400)
        tests[k] = t
        return ("atom", ("p", k, True))
    status = "%s[%d]" % (param, LUBA_EVENT_STATUS_BYTE)
    cache = {}

    resolved = {}

    def value(k, sbyte):
        if (k, sbyte) in cache:
            return cache[(k, sbyte)]
        if k not in resolved:
            r_ = astq.resolve(fn, tests[k], defs=defs)
            resolved[k] = r_ if any(
                isinstance(x, ast.Subscript) and unparse(x) == status
                for x in ast.walk(r_)) else None
        if resolved[k] is None:       # does not read the status byte
            cache[(k, sbyte)] = UNKNOWN
            return UNKNOWN
        from ..inline import acopy
        e = acopy(resolved[k])

        class S(ast.NodeTransformer):
            def visit_Subscript(self, n):
                if isinstance(n.ctx, ast.Load) and unparse(n) == status:
                    return ast.copy_location(ast.Constant(sbyte), n)
                return self.generic_visit(n)
        e = ast.fix_missing_locations(S().visit(e))
        try:
            v = folder.eval(e, {"self": ClassRef(c)}, SER, c)
        except Exception:
            v = UNKNOWN
        if v is not UNKNOWN:
            v = bool(v)
        cache[(k, sbyte)] = v
        return v
    nsites = 0
    for n in cfg.reachable:
        if n.kind != "stmt" or n.ast is None:
            continue
        for x in _walk_no_nested(n.ast):
            if not (isinstance(x, ast.Call) and isinstance(
                    x.func, ast.Attribute) and x.func.attr in (
                        "put_nowait", "distribute", "put") and isinstance(
                            x.func.value, ast.Attribute) and unparse(
                                x.func.value.value) == "self" and
                    x.func.value.attr in LUBA_EVENT_DELIVERS):
                continue
            q = x.func.value.attr
            want = LUBA_EVENT_DELIVERS[q]
            nsites += 1
            d = path_conds(cfg, n, tree, what="R-FSM-DISPATCH")
            # of the message's bytes only the status byte decides whether an
            # event is delivered: a test of another byte (the time tick, the
            # DALI line, a data byte) withholds well-formed events
            other = set()
            for conj in d:
                for a in conj:
                    if a[0] != "p" or a[1] not in tests:
                        continue
                    r_ = astq.resolve(fn, tests[a[1]], defs=defs)
                    for x_ in ast.walk(r_):
                        if isinstance(x_, ast.Subscript) and unparse(
                                x_.value) == param and isinstance(
                                    x_.slice, ast.Constant) and type(
                                        x_.slice.value) is int and \
                                unparse(x_) != status:
                            other.add(unparse(x_))
            run.ob("R-FSM-DISPATCH", "%s#%s[only the status byte decides]"
                   % (P, q), not other,
                   "whether self.%s is fed depends on %s of the message, "
                   "not only on its status byte: checksum-valid events with "
                   "other values there deliver nothing" % (q, sorted(other)),
                   where(mod, n))
            types = set()
            sbytes = set()
            decided = False
            for sbyte in range(256):
                for conj in d:
                    vals = [(value(a[1], sbyte), a[2]) for a in conj
                            if a[0] == "p"]
                    if any(v is not UNKNOWN for v, _ in vals):
                        decided = True
                    if all(v is UNKNOWN or v == pol for v, pol in vals):
                        types.add(sbyte >> 6)
                        sbytes.add(sbyte)
                        break
            if decided and types == {want} and want == 2:
                # a received frame's Event Info is its number of bits, 1..32
                # (62 / 63 report errors): each of those lengths is delivered
                infos = sorted(b & 0x3f for b in sbytes)
                lo_, hi_ = LUBA_RX_EVENT_INFO
                run.ob("R-FSM-DISPATCH", "%s#%s[event info]" % (P, q),
                       infos == list(range(lo_, hi_ + 1)),
                       "self.%s is fed by received-frame events with Event "
                       "Info %s; the protocol delivers a frame for every "
                       "Event Info %d..%d (the number of bits) and for no "
                       "other" % (q, _ranges(infos), lo_, hi_),
                       where(mod, n))
            run.ob("R-FSM-DISPATCH", "%s#%s" % (P, q),
                   decided and types == {want},
                   "self.%s is fed by event messages of type %s (bits 7..6 "
                   "of the status byte, all 256 values evaluated); the "
                   "framing delivers there for type %d only%s" % (
                       q, sorted(types), want, "" if decided else
                       " (no path condition depends on the status byte)"),
                   where(mod, n),
                   sample={"rule": "R-FSM-DISPATCH", "queue": q,
                           "event_types": sorted(types)})
    run.floor("LUBA event delivery sites", nsites, 3)


def _check_handler_guards(run, world, folder, mod, c):
    """The handlers of a complete LUBA message re-check the message type and
    raise ValueError when it is not theirs; the receiver is reset only after
    the handler returns.  So the dispatch may hand a handler nothing its own
    guard refuses: with the handlers written out in _process_byte, the
    message types that satisfy every condition that must hold at a type
    guard's raise (the dispatch test, the guard itself) are evaluated over
    the members of the message-type enumeration; none may remain."""
    if "_process_luba_event" not in c.methods:
        return
    run.rule("R-FSM-GUARD", "LUBA: no message type the dispatch sends to a "
             "handler is refused by the handler's own type guard (the raise "
             "would skip reset())")
    from ..normal import normalise
    from ..cfg import forward
    from ..inline import acopy
    from .. import astq
    P = c.qname + "._process_byte"
    # dispatch through a table of bound methods is the if-chain first
    # (aliases of the enumeration written out, the lookup expanded), then
    # the handlers are written out in place
    fn0 = normalise(c.methods["_process_byte"][1], world, SER, c,
                    inline=False, aliases=True)
    if any(isinstance(n, ast.Attribute) and n.attr == "get"
           for n in ast.walk(fn0)):
        from ..unroll import expand_table_lookups, class_table_resolver
        fx = acopy(fn0)
        rt0_, nn_ = class_table_resolver(world, c, SER)
        ldefs = astq._defs(fx)

        def rt_(e_):
            # a table kept in a local bound once to a dict display
            if isinstance(e_, ast.Name) and isinstance(
                    ldefs.get(e_.id), ast.Dict):
                return ldefs[e_.id]
            return rt0_(e_)
        if expand_table_lookups(fx, rt_, nn_):
            ast.fix_missing_locations(fx)
            fn0 = fx
    fn = normalise(fn0, world, SER, c,
                   primitives=("reset", "_process_byte", "data_received"),
                   aliases="params")
    # a local bound once to <enum>(self._buffer[1]) is the message type
    asg = {}
    for n in ast.walk(fn):
        if isinstance(n, ast.Assign):
            for t in n.targets:
                if isinstance(t, ast.Name):
                    asg.setdefault(t.id, []).append(n.value)
    # (every assignment converts a byte with the same enumeration, and one
    # of them converts the message-type byte of the buffer: the name is the
    # message type wherever the dispatch reads it)
    tdefs = {k: [v for v in vs if unparse(v.args[0]) ==
                 "self._buffer[1]"][0]
             for k, vs in asg.items() if all(
        isinstance(v, ast.Call) and len(v.args) == 1 for v in vs) and
        len({unparse(v.func) for v in vs}) == 1 and any(
            unparse(v.args[0]) == "self._buffer[1]" for v in vs)}
    enum = None
    for v in list(tdefs.values()) + [
            n for n in ast.walk(fn) if isinstance(n, ast.Call) and len(
                n.args) == 1 and unparse(n.args[0]) == "self._buffer[1]"]:
        k = world.resolve_class(SER, v.func)
        if k is not None:
            enum = k
            break
    if enum is None:
        raise AnalysisError("R-FSM-GUARD: the message type (an enumeration "
                            "of self._buffer[1]) is not found in %s" % P)
    members = folder.enum_members(enum)

    def is_type(e):
        if isinstance(e, ast.Name) and e.id in tdefs:
            return True
        return isinstance(e, ast.Call) and len(e.args) == 1 and unparse(
            e.args[0]) == "self._buffer[1]"

    def member_of(e):
        if isinstance(e, ast.Attribute) and e.attr in members:
            k = world.resolve_class(SER, e.value)
            if k is enum:
                return e.attr
        return None

    def admits(test, pol):
        """set of member names for which `test` has truth value pol, or None
        when the test is not about the message type"""
        if not (isinstance(test, ast.Compare) and len(test.ops) == 1):
            return None
        l, op, r = test.left, test.ops[0], test.comparators[0]
        if is_type(r) and not is_type(l) and isinstance(
                op, (ast.Eq, ast.NotEq, ast.Is, ast.IsNot)):
            l, r = r, l
        if not is_type(l):
            return None
        if isinstance(op, (ast.Eq, ast.NotEq, ast.Is, ast.IsNot)):
            m = member_of(r)
            if m is None:
                return None
            yes = {m}
            if isinstance(op, (ast.NotEq, ast.IsNot)):
                yes = set(members) - yes
        elif isinstance(op, (ast.In, ast.NotIn)) and isinstance(
                r, (ast.Tuple, ast.List, ast.Set)):
            ms = [member_of(x) for x in r.elts]
            if any(x is None for x in ms):
                return None
            yes = set(ms)
            if isinstance(op, ast.NotIn):
                yes = set(members) - yes
        else:
            return None
        return yes if pol else set(members) - yes
    cfg = CFG(fn, may_raise=explicit_raise_only, name=P)

    def edge(src, label, dst, st):
        if src.kind == "test" and label in ("T", "F"):
            return st | {(src.id, label == "T")}
        return st
    IN = forward(cfg, lambda n, st: st, must=True, edge_transfer=edge)
    nguards = 0
    for n in cfg.reachable:
        if not (n.kind == "stmt" and isinstance(n.ast, ast.Raise)):
            continue
        facts = IN.get(n.id, frozenset())
        # the guard: the nearest test before the raise is about the type
        about = [(cfg.nodes[i], b) for (i, b) in facts
                 if admits(cfg.nodes[i].ast, b) is not None]
        direct = [p_ for (l_, p_) in n.pred if p_.kind == "test" and
                  admits(p_.ast, True) is not None]
        if not direct:
            continue
        nguards += 1
        left = set(members)
        for (tn, b) in about:
            left &= admits(tn.ast, b)
        run.ob("R-FSM-GUARD", "%s#%s" % (P, unparse(direct[0].ast, 80)),
               not left,
               "a complete, checksum-valid message of type %s is sent to a "
               "handler whose own guard `%s` refuses it: the ValueError "
               "leaves _process_byte before reset(), the receiver stays in "
               "its last state and discards the next well-formed frame" % (
                   sorted(left), unparse(direct[0].ast, 80)),
               where(mod, n),
               sample={"rule": "R-FSM-GUARD", "guard": unparse(
                   direct[0].ast, 80), "types_reaching_the_raise":
                   sorted(left)})
    run.floor("LUBA handler type guards", nguards, 3)


def _member_test(test, arg, enum_expr):
    """`any(<arg> == m.value for m in <Enum>)` (either side order), or
    `<arg> in [m.value for m in <Enum>]` / `in <Enum>._value2member_map_`:
    the value is one the enumeration defines."""
    a, e = unparse(arg), unparse(enum_expr)
    if isinstance(test, ast.Call) and unparse(test.func) == "any" and len(
            test.args) == 1 and isinstance(test.args[0], ast.GeneratorExp):
        g = test.args[0]
        if len(g.generators) == 1 and not g.generators[0].ifs and unparse(
                g.generators[0].iter) == e and isinstance(
                    g.generators[0].target, ast.Name) and isinstance(
                        g.elt, ast.Compare) and len(g.elt.ops) == 1 and \
                isinstance(g.elt.ops[0], ast.Eq):
            v = g.generators[0].target.id + ".value"
            return {unparse(g.elt.left), unparse(g.elt.comparators[0])} == \
                {a, v}
    if isinstance(test, ast.Compare) and len(test.ops) == 1 and isinstance(
            test.ops[0], ast.In) and unparse(test.left) == a:
        r = test.comparators[0]
        if unparse(r) == e + "._value2member_map_":
            return True
        if isinstance(r, (ast.ListComp, ast.SetComp, ast.GeneratorExp)) and \
                len(r.generators) == 1 and unparse(
                    r.generators[0].iter) == e and isinstance(
                        r.generators[0].target, ast.Name) and unparse(
                            r.elt) == r.generators[0].target.id + ".value":
            return True
    return False


def _check_proto(run, world, folder, mod, c):
    _check_defassign(run, world, mod, c)
    _check_luba_dispatch(run, world, folder, mod, c)
    _check_handler_guards(run, world, folder, mod, c)
    P = c.qname
    fn = c.methods["_process_byte"][1]
    rfn = c.methods["reset"][1]
    dfn = c.methods["data_received"][1]
    arg = fn.args.args[1].arg
    # one residual body per state: _process_byte specialised for each
    # ReadState member (an if/elif chain, a match, a table or arithmetic on
    # the enum's order all specialise to the same statements)
    from ..special import specialise
    from ..fold import EnumMember
    rs_ = c.nested.get("ReadState")
    if rs_ is None:
        raise AnalysisError("%s.ReadState vanished" % c.qname)
    rs_expr = ast.parse("self.ReadState", mode="eval").body
    attrs = {"self._rx_state", "self.rx_state"}
    # ---- buffer size ----------------------------------------------------------
    size = None
    for s in ast.walk(rfn):
        if isinstance(s, ast.Assign) and unparse(s.targets[0]) == \
                "self._buffer":
            v = s.value
            if isinstance(v, ast.BinOp) and isinstance(v.op, ast.Mult) and \
                    unparse(v.left) == "[None]":
                iv = iv_eval(v.right, {}, folder, c)
                size = iv.lo if iv else None
    if size is None:
        raise AnalysisError("buffer size of %s not found in reset()" % P)
    from .. import unroll as _un
    _saved_len = _un.SEQ_LEN[0]
    _un.SEQ_LEN[0] = lambda e_: size if unparse(e_) == "self._buffer" \
        else None
    from ..normal import normalise
    nfn = normalise(fn, world, c.mod, c, primitives=(
        "reset", "_process_dali_frame", "_process_error",
        "_process_system_message", "_process_luba_event",
        "_process_luba_response", "_process_luba_info", "_insert_checksum",
        "_calc_checksum"), aliases=False)
    _un.SEQ_LEN[0] = _saved_len
    branches = []
    ndec = 0
    for name, val in folder.enum_members(rs_).items():
        body_, dec, _ = specialise(nfn, folder, c, attrs, rs_expr,
                                   EnumMember(rs_, name, val))
        ndec += dec
        branches.append((name, body_, fn))
    if ndec == 0:
        raise AnalysisError("_process_byte has no state dispatch chain")
    final_else, _, _ = specialise(nfn, folder, c, attrs, rs_expr,
                                  EnumMember(rs_, "__no_such_state__",
                                             -999983))
    unknown_txt = [unparse(x) for x in final_else]
    handled = [s_ for (s_, b_, _) in branches
               if [unparse(x) for x in b_] != unknown_txt]
    states = handled

    # ---- R-FSM-TOTAL --------------------------------------------------------
    run.rule("R-FSM-TOTAL", "one branch per ReadState member + raise for an "
             "impossible state")
    rs = c.nested.get("ReadState")
    if rs is None:
        raise AnalysisError("%s.ReadState vanished" % P)
    members = list(folder.enum_members(rs).keys())
    run.ob("R-FSM-TOTAL", P + "._process_byte#states",
           sorted(states) == sorted(members) and len(set(states)) ==
           len(states),
           "dispatch covers %s, enum has %s" % (states, members),
           where(mod, fn), sample={"rule": "R-FSM-TOTAL", "states": states})
    run.ob("R-FSM-TOTAL", P + "._process_byte#else-raises",
           bool(final_else) and isinstance(final_else[-1], ast.Raise),
           "an unknown state must raise", where(mod, fn))

    # ---- R-FSM-NEXT ---------------------------------------------------------
    run.rule("R-FSM-NEXT", "per state, the set of next states over all "
             "paths (exceptions included) is the protocol's: a frame is "
             "consumed to its end, whatever it contains")
    want_next = FSM_NEXT.get(c.name)
    if want_next is None:
        raise AnalysisError("no transition table transcribed for %s" % P)
    for (state, body, node) in branches:
        got = _next_states(body, arg)
        if got is None:
            raise AnalysisError("R-FSM-NEXT: state %s of %s is not loop-free"
                                % (state, P))
        run.ob("R-FSM-NEXT", "%s#%s" % (P, state),
               got == want_next.get(state),
               "from %s the receiver can go to %s; the framing wants %s "
               "(leaving a frame early makes the rest of it be scanned for "
               "a start byte)" % (state, sorted(got), sorted(
                   want_next.get(state, []))), where(mod, node),
               sample={"rule": "R-FSM-NEXT", "state": state,
                       "next": sorted(got)})

    reset_zero = any(unparse(s) == "self._rx_received_len = 0"
                     for s in rfn.body)
    reset_state = any(unparse(s).startswith("self.rx_state = self.ReadState.")
                      or unparse(s).startswith(
                          "self._rx_state = self.ReadState.")
                      for s in rfn.body)
    start_state = members[0]
    run.ob("R-FSM-RESET", P + ".reset",
           reset_zero and reset_state and any(
               unparse(s).endswith("ReadState." + start_state)
               for s in rfn.body),
           "reset() must return to %s with a fresh buffer and a zero "
           "payload counter" % start_state, where(mod, rfn))

    # ---- R-BOUND ---------------------------------------------------------------
    run.rule("R-BOUND", "every write into the fixed receive buffer has "
             "max(index) < buffer size (interval analysis)")
    # accepted length interval
    exp_iv = None
    len_guard = None
    for (state, body, node) in branches:
        for s in ast.walk(node) if False else body:
            pass
    for (state, body, node) in branches:
        for x in _walk_stmts(body):
            if isinstance(x, ast.If):
                iv = _guard_interval(x.test, arg, folder, c)
                if iv is not None and any(
                        unparse(y) == "self._rx_expected_len = %s" % arg
                        for y in x.body):
                    exp_iv = iv
                    len_guard = x
    if exp_iv is None:
        # the same, independent of how the test is written: the values of
        # the byte for which some path stores it as the expected length
        for (state, body, node) in branches:
            iv = _accept_interval(body, arg, folder, c)
            if iv is not None:
                exp_iv = iv
                len_guard = node
    if exp_iv is not None and _loop_state(branches) is not None:
        # the payload counter is compared for equality after counting a
        # byte: an accepted length below 1 is never reached
        run.ob("R-BOUND", P + "#accepted-length-at-least-one",
               exp_iv.lo >= 1,
               "a length byte of %d is accepted as the payload length: the "
               "counter is 1 after the first payload byte and never equals "
               "it, so the receiver swallows everything that follows and "
               "then indexes past the buffer" % exp_iv.lo,
               where(mod, len_guard if isinstance(len_guard, ast.AST)
                     else fn))
    if exp_iv is not None:
        # the handlers state which payload lengths they expect (tests of the
        # length byte against constants); the length state must let each of
        # them through, or the packet is dropped before its handler runs
        stated = _stated_lengths(c)
        run.floor("%s payload lengths stated by handlers" % c.name,
                  len(stated), 1)
        for (k_, hn, hnode) in stated:
            run.ob("R-BOUND", "%s#handler-length-accepted:%s=%d" % (
                P, hn, k_), exp_iv.lo <= k_ <= exp_iv.hi,
                "%s expects packets with a payload of %d bytes but the "
                "length state accepts %s only: the well-formed packet is "
                "discarded as noise and never decoded" % (hn, k_, exp_iv),
                where(mod, len_guard if isinstance(len_guard, ast.AST)
                      else fn))
    n_sites = 0
    for (state, body, node) in branches:
        for x in _walk_stmts(body):
            if not isinstance(x, ast.Assign):
                continue
            for t in x.targets:
                if isinstance(t, ast.Subscript) and unparse(t.value) == \
                        "self._buffer":
                    n_sites += 1
                    env = {}
                    if exp_iv is not None:
                        # counter invariant: 0 at reset, += 1 per payload
                        # byte *before* the write, state left when it equals
                        # the accepted length
                        inc_before = _incremented_before(body, x)
                        if state == _loop_state(branches):
                            env["self._rx_received_len"] = Iv(
                                1 if inc_before else 0,
                                exp_iv.hi if inc_before else exp_iv.hi - 1)
                        else:
                            env["self._rx_received_len"] = Iv(exp_iv.lo,
                                                              exp_iv.hi)
                        env["self._rx_expected_len"] = exp_iv
                    iv = iv_eval(t.slice, env, folder, c)
                    if iv is None:
                        raise AnalysisError(
                            "R-BOUND: cannot bound index `%s` in state %s of "
                            "%s" % (unparse(t.slice), state, P))
                    ok = iv.hi < size and iv.lo >= 0
                    run.ob("R-BOUND", "%s#%s:_buffer[%s]" % (
                        P, state, unparse(t.slice)), ok,
                        "index %s ranges over %s but the buffer has %d "
                        "entries (accepted payload length %s): IndexError "
                        "out of data_received and the receiver stays in "
                        "this state" % (unparse(t.slice), iv, size, exp_iv),
                        where(mod, x),
                        sample={"rule": "R-BOUND", "state": state,
                                "index": unparse(t.slice),
                                "interval": repr(iv), "buffer": size})
    run.floor("%s buffer write sites" % c.name, n_sites, 5)
    if exp_iv is not None:
        # structural premises of the counter invariant
        ls = _loop_state(branches)
        body = [b for (s, b, n) in branches if s == ls][0]
        sem = _counter_semantics(body, arg, folder, c)
        if sem is None:
            inc = [unparse(s) for s in body]
            sem = "self._rx_received_len += 1" in inc and any(
                isinstance(s, ast.If) and unparse(s.test) ==
                "self._rx_received_len == self._rx_expected_len"
                for s in body)
        run.ob("R-BOUND", P + "#counter-invariant",
               sem and _single_def(world, c, "_rx_expected_len", fn),
               "the payload counter must be incremented by one per byte and "
               "compared for equality with the accepted length, which is "
               "assigned only under the length guard", where(mod, fn))
        lstate = [b_ for (s_, b_, n_) in branches if any(
            isinstance(x, ast.Assign) and unparse(x) ==
            "self._rx_expected_len = %s" % arg for x in _walk_stmts(b_))]
        resets = None
        if lstate:
            resets = _refused_length_resets(lstate[0], arg)
        if resets is None:
            resets = isinstance(len_guard, ast.If) and any(
                unparse(s) == "self.reset()" for s in len_guard.orelse)
        run.ob("R-BOUND", P + "#length-guard-else-resets", resets,
               "a length that cannot fit must reset the receiver",
               where(mod, len_guard or fn))

    # ---- R-FSM-RESET -----------------------------------------------------------
    run.rule("R-FSM-RESET", "terminal state: every path ends in reset()")
    term = branches[-1]
    # on the residual body of each state, over all paths (exceptions of try
    # bodies included: the handlers of the enum conversions are real paths)
    tnext = _next_states(term[1], arg)
    if tnext is None:
        raise AnalysisError("R-FSM-RESET: terminal state %s of %s is not "
                            "loop-free" % (term[0], P))
    run.ob("R-FSM-RESET", P + "._process_byte#terminal", tnext == {"reset"},
           "a frame can be completed (state %s) without the receiver being "
           "reset (next states %s): it stays in %s and swallows the start of "
           "the next frame" % (term[0], sorted(tnext), term[0]),
           where(mod, fn), sample={"rule": "R-FSM-RESET",
                                   "terminal_next": sorted(tnext)})
    # non-terminal states: each path either advances the state, resets, or
    # (start state, payload loop) stays
    stay_ok = True
    for (state, body, node) in branches[:-1]:
        nx = _next_states(body, arg)
        if nx is None:
            raise AnalysisError("R-FSM-RESET: state %s of %s is not "
                                "loop-free" % (state, P))
        counts = any(isinstance(x, ast.AugAssign) and unparse(
            x.target) == "self._rx_received_len" for x in _walk_stmts(body))
        if "stay" in nx and state != start_state and not counts:
            stay_ok = False
    # reset() empties the receive buffer (every slot None): nothing reads a
    # slot after it on the same pass - a log line formatting
    # `self._buffer[0]:02x` there raises TypeError out of data_received
    from ..cfg import forward as _fwd
    for (state, body, node) in branches:
        stub_ = ast.FunctionDef(name="state_" + state, args=ast.arguments(
            posonlyargs=[], args=[ast.arg("self"), ast.arg(arg)],
            kwonlyargs=[], kw_defaults=[], defaults=[]), body=list(body) or
            [ast.Pass()], decorator_list=[], returns=None, type_comment=None,
            type_params=[])
        ast.fix_missing_locations(stub_)
        from ..cfg import default_may_raise as _dmr
        scfg = CFG(stub_, may_raise=_dmr, name=P + "#" + state)

        def tr_(n_, st_):
            a_ = n_.ast
            if a_ is None or n_.kind not in ("stmt", "test"):
                return st_
            if any(isinstance(x, ast.Subscript) and isinstance(
                    x.ctx, ast.Store) and unparse(x.value) == "self._buffer"
                    for x in ast.walk(a_)):
                st_ = st_ - {"emptied"}
            if any(isinstance(x, ast.Call) and unparse(x.func) ==
                   "self.reset" for x in ast.walk(a_)):
                st_ = st_ | {"emptied"}
            return st_
        IN_ = _fwd(scfg, tr_, must=False)
        for n_ in scfg.reachable:
            if n_.ast is None or n_.kind not in ("stmt", "test"):
                continue
            if "emptied" not in IN_.get(n_.id, frozenset()):
                continue
            rd_ = [x for x in ast.walk(n_.ast) if isinstance(
                x, ast.Subscript) and isinstance(x.ctx, ast.Load) and
                unparse(x.value) == "self._buffer"]
            run.ob("R-FSM-RESET", "%s._process_byte#%s:no-read-after-reset"
                   % (P, state), not rd_,
                   "`%s` reads the receive buffer after reset() has emptied "
                   "it on this pass: the slot is None (formatting it with "
                   ":02x, or arithmetic on it, raises TypeError out of "
                   "data_received and the rest of the read is lost)" % (
                       unparse(rd_[0], 40) if rd_ else ""),
                   where(mod, n_)) if rd_ else None
    run.ob("R-FSM-RESET", P + "._process_byte#progress", stay_ok,
           "a byte can be consumed in a middle state without advancing or "
           "resetting the state machine", where(mod, fn))

    # ---- R-FSM-CHUNK -----------------------------------------------------------
    run.rule("R-FSM-CHUNK", "data_received == for b in data: "
             "_process_byte(b); no inter-byte state outside self")
    from .. import astq
    dfn = astq.propagate(dfn)     # `step = self._process_byte; step(b)`

    def _effect_free(s):
        if isinstance(s, ast.Expr) and (isinstance(
                s.value, ast.Constant) or "_LOG." in unparse(s)):
            return True
        # a local bound to a name / attribute chain
        if isinstance(s, ast.Assign) and all(
                isinstance(t, ast.Name) for t in s.targets):
            v = s.value
            while isinstance(v, ast.Attribute):
                v = v.value
            return isinstance(v, ast.Name)
        return False
    body = [s for s in dfn.body if not _effect_free(s)]
    ok = len(body) == 1 and isinstance(body[0], ast.For) and unparse(
        body[0].iter) == dfn.args.args[1].arg and len(body[0].body) == 1 \
        and unparse(body[0].body[0]) == "self._process_byte(%s)" % unparse(
            body[0].target) and not body[0].orelse
    run.ob("R-FSM-CHUNK", P + ".data_received", ok,
           "data_received must feed every byte, in order, to _process_byte "
           "and do nothing else", where(mod, dfn))
    glob = [n for n in ast.walk(fn) if isinstance(n, (ast.Global,
                                                      ast.Nonlocal))]
    stores = set()
    for n in ast.walk(fn):
        if isinstance(n, ast.Attribute) and isinstance(
                n.ctx, ast.Store) and unparse(n.value) != "self":
            stores.add(unparse(n))
    run.ob("R-FSM-CHUNK", P + "._process_byte#state-in-self",
           not glob and not stores,
           "state is kept outside self: %s" % (sorted(stores) or "global"),
           where(mod, fn))

    # ---- R-FSM-CHK -------------------------------------------------------------
    run.rule("R-FSM-CHK", "receiver checksum span / start byte == "
             "transmitter's")
    if "_insert_checksum" not in c.methods:
        raise AnalysisError("%s._insert_checksum vanished: the transmitter's "
                            "checksum span cannot be read" % P)
    ifn = c.methods["_insert_checksum"][1]
    # the transmitter's span, by evaluating _insert_checksum on a list of
    # symbols: which elements are XOR-ed into the last slot
    from ..wireval import WireEval, SelfObj, Sym, Xor
    tx = None
    syms = [Sym("s%d" % i) for i in range(6)]
    lst = list(syms) + [None]
    r_ = WireEval(world, folder, c, {"nbytes": 2, "sendtwice": False}).run(
        ifn, {ifn.args.args[0].arg: lst} if ifn.args.args[0].arg != "self"
        else {"self": SelfObj(c), ifn.args.args[1].arg: lst})
    chk = lst[-1]
    if isinstance(chk, Xor) and chk.const == 0:
        idx = sorted(int(x.name[1:]) for x in chk.syms)
        if idx == list(range(idx[0], idx[-1] + 1)) and idx[-1] == 5:
            tx = "X[%d:-1]" % idx[0]
    # the receiver's span: the terminal state's residual body evaluated on
    # a buffer of symbols (payload length fixed at 2 for the length-prefixed
    # protocol) up to the comparison with the received byte - what is
    # XOR-ed there, whatever the spelling (reduce, a loop, a helper)
    rx = None
    norm = None
    rx_node = None
    tbody = branches[-1][1]
    L_ = 2

    class _Stop(Exception):
        pass

    class _Prep(ast.NodeTransformer):
        def visit_Attribute(self, n):
            t_ = unparse(n)
            if isinstance(n.ctx, ast.Load) and t_ == "self._buffer":
                return ast.copy_location(ast.Name("__buf", ast.Load()), n)
            if isinstance(n.ctx, ast.Load) and t_ in (
                    "self._rx_received_len", "self._rx_expected_len"):
                return ast.copy_location(ast.Constant(L_), n)
            return self.generic_visit(n)
    from ..inline import acopy
    stub = ast.FunctionDef(name="terminal", args=ast.arguments(
        posonlyargs=[], args=[ast.arg("self"), ast.arg(arg)], kwonlyargs=[],
        kw_defaults=[], defaults=[]), body=[
            _Prep().visit(acopy(x)) for x in tbody
            if not (isinstance(x, ast.If) and "isinstance(%s, int)" % arg
                    in unparse(x.test))],
        decorator_list=[], returns=None, type_comment=None, type_params=[])
    ast.fix_missing_locations(stub)
    buf = [Sym("s%d" % i) for i in range(size)]
    seen_cmp = []

    def on_cmp(op, l, r, node):
        for (x, y) in ((l, r), (r, l)):
            if isinstance(y, Sym) and y.name == "rx" and isinstance(
                    x, (Xor, Sym)):
                seen_cmp.append((x, node))
                raise _Stop()
    we = WireEval(world, folder, c, {"nbytes": 2, "sendtwice": False})
    we.on_cmp = on_cmp
    try:
        we.run(stub, {"self": SelfObj(c), arg: Sym("rx"), "__buf": buf})
    except _Stop:
        pass
    except AnalysisError as e_:
        raise AnalysisError("R-FSM-CHK: the checksum test of %s cannot be "
                            "evaluated: %s" % (P, e_))
    if seen_cmp:
        x, rx_node = seen_cmp[0]
        syms_ = {x.name} if isinstance(x, Sym) else (
            {q.name for q in x.syms} if x.const == 0 else set())
        idx = sorted(int(q[1:]) for q in syms_ if q.startswith("s"))
        rx = "buffer%s" % idx
        # the frame is the buffer up to and including the checksum slot
        n_frame = (L_ + 4) if c.name == "LubaProtocol" else size
        if idx and idx == list(range(idx[0], idx[-1] + 1)) and \
                idx[-1] == n_frame - 2:
            norm = "X[%d:-1]" % idx[0]
    run.ob("R-FSM-CHK", P + "#checksum-span", tx is not None and norm == tx,
           "receiver verifies XOR over %s, transmitter computes it over %s"
           % (rx, tx), where(mod, rx_node or fn),
           sample={"rule": "R-FSM-CHK", "rx": rx, "tx": tx})
    # comparison with the received checksum byte, mismatch -> reset + return
    # decided on the paths of the terminal state: where the comparison of
    # the computed checksum with the received byte comes out unequal, the
    # path resets the receiver and hands nothing on (logging aside)
    tps = _state_paths(tbody, arg, try_prefixes=True)
    if tps is None:
        raise AnalysisError("R-FSM-CHK: terminal state of %s is not "
                            "loop-free" % P)
    n_bad = 0
    okc = True
    why = ""
    for p_ in tps:
        mism = None
        for (t_, b_) in p_.conds:
            if isinstance(t_, ast.Compare) and len(t_.ops) == 1 and \
                    isinstance(t_.ops[0], (ast.Eq, ast.NotEq)) and any(
                        isinstance(x, ast.Name) and x.id == arg
                        for x in (t_.left, t_.comparators[0])):
                ne = isinstance(t_.ops[0], ast.NotEq)
                mism = (ne == b_)
                break
        if mism is not True or p_.kind == "raise":
            continue
        n_bad += 1
        exprs = [unparse(e_[1], 80) for e_ in p_.effects
                 if e_[0] == "expr"]
        resets = "self.reset()" in exprs
        hands_on = [x for x in exprs if x != "self.reset()" and
                    not x.startswith(("_LOG.", "logging.", "self._log."))]
        stores = [e_[0] for e_ in p_.effects if len(e_) == 2 and
                  e_[0] not in ("expr",) and e_[0].startswith("self.") and
                  not e_[0].startswith("self._buffer")]
        if not resets or hands_on or stores:
            okc = False
            why = "reset=%s, also does %s %s" % (resets, hands_on, stores)
    run.ob("R-FSM-CHK", P + "#bad-checksum-drops", okc and n_bad >= 1,
           "a frame with a bad checksum must be dropped (reset and nothing "
           "handed on); on the mismatch paths: %s" % (
               why or "no path compares the checksum with the received "
               "byte"), where(mod, fn))
    if c.name == "LubaProtocol":
        start_tests = [unparse(n.test) for n in ast.walk(fn)
                       if isinstance(n, ast.If)]
        tx_start = []
        for m in ("send_dali_command", "send_device_info_query",
                  "send_device_settings"):
            f2 = c.methods[m][1]
            for n in ast.walk(f2):
                if isinstance(n, ast.Assign) and unparse(
                        n.targets[0]) == "tx_ints" and isinstance(
                            n.value, ast.List):
                    v = folder.eval(n.value.elts[0], {}, SER)
                    tx_start.append(v)
        # receiver start byte: a test `<byte> == K` / `!= K` in state
        # WAIT_START whose constant folds to the transmitted start byte
        rx_start = set()
        for n in ast.walk(fn):
            if isinstance(n, ast.Compare) and len(n.ops) == 1 and isinstance(
                    n.ops[0], (ast.Eq, ast.NotEq)) and unparse(
                        n.left) == arg:
                try:
                    v_ = folder.eval(n.comparators[0],
                                     {"self": ClassRef(c), "cls": ClassRef(c)},
                                     SER, c)
                except Exception:
                    v_ = UNKNOWN
                if v_ is UNKNOWN and isinstance(
                        n.comparators[0], ast.Call) and unparse(
                            n.comparators[0].func) == "ord" and isinstance(
                                n.comparators[0].args[0], ast.Constant):
                    v_ = ord(n.comparators[0].args[0].value)
                if isinstance(v_, int):
                    rx_start.add(v_)
        run.ob("R-FSM-CHK", P + "#start-byte",
               0x59 in rx_start and set(tx_start) == {0x59},
               "receiver start byte test %s vs transmitted start bytes %s"
               % ([t for t in start_tests if arg in t][:2], tx_start),
               where(mod, fn))

    # ---- R-FSM-ESC -------------------------------------------------------------
    run.rule("R-FSM-ESC", "enum conversions in _process_byte are inside "
             "try/except ValueError")
    n_enum = 0
    from .. import astq
    edefs = astq._defs(fn)

    def converts_to_enum(call):
        """The callee, with a local alias resolved (`codes = X.Code;
        codes(b)`), is an enum class of the repository."""
        f_ = call.func
        if isinstance(f_, ast.Name) and f_.id in edefs:
            f_ = edefs[f_.id]
        if isinstance(f_, ast.Attribute) and f_.attr in (
                "LubaCmd", "SCIRS232Code", "ErrorType"):
            return True
        try:
            k_ = world.resolve_class(SER, f_)
        except Exception:
            k_ = None
        return k_ is not None and folder.is_enum(k_)
    # every byte goes through the state machine once: the function does
    # not feed a byte to itself a second time
    refeed = [n for n in ast.walk(fn) if isinstance(n, ast.Call) and unparse(
        n.func) in ("self._process_byte", "self.data_received")]
    run.ob("R-FSM-CHUNK", P + "._process_byte#each-byte-once", not refeed,
           "_process_byte hands a byte to the state machine again (`%s`): "
           "the byte is consumed twice - as the end of one frame and as "
           "the start of the next - and the frame that really starts next "
           "is read one byte out of step" % (
               unparse(refeed[0])[:60] if refeed else ""), where(
                   mod, refeed[0]) if refeed else where(mod, fn))
    # _process_byte and the helpers it calls that are not per-type
    # handlers (a status decoder extracted into a method of its own)
    scan = [fn]
    for n in ast.walk(fn):
        if isinstance(n, ast.Call) and isinstance(
                n.func, ast.Attribute) and isinstance(
                    n.func.value, ast.Name) and n.func.value.id == "self" \
                and n.func.attr in c.methods and not \
                n.func.attr.startswith("_process") and \
                n.func.attr != "reset":
            hf = c.methods[n.func.attr][1]
            if hf not in scan:
                scan.append(hf)
    for (sfn_, n) in [(f_, x) for f_ in scan for x in ast.walk(f_)]:
        if isinstance(n, ast.Call) and isinstance(
                n.func, (ast.Attribute, ast.Name)) and converts_to_enum(n):
            n_enum += 1
            p = getattr(n, "_parent", None)
            guarded = False
            child = n
            while p is not None and p is not sfn_:
                if isinstance(p, ast.Try) and any(
                        child is s or any(child is y for y in ast.walk(s))
                        for s in p.body):
                    if any(h.type is not None and unparse(h.type) ==
                           "ValueError" for h in p.handlers):
                        guarded = True
                if isinstance(p, ast.If) and any(
                        child is s or any(child is y for y in ast.walk(s))
                        for s in p.body) and n.args and _member_test(
                            p.test, n.args[0], n.func):
                    # converted only where the value was found among the
                    # enumeration's values: cannot raise
                    guarded = True
                child = p
                p = getattr(p, "_parent", None)
            run.ob("R-FSM-ESC", "%s._process_byte#%s" % (P, unparse(n)[:50]),
                   guarded, "an unknown code byte raises ValueError out of "
                   "data_received", where(mod, n))
    run.floor("%s enum conversions in _process_byte" % c.name, n_enum, 1)
    # a code byte the protocol does not define is an unknown frame type: the
    # frame is dropped, nothing is delivered for it
    for mname, (kind_, mfn) in sorted(c.methods.items()):
        if not (mname.startswith("_process") or mname == "data_received"):
            continue
        mdefs = astq._defs(mfn)

        def conv(call, mdefs=mdefs):
            f_ = call.func
            if isinstance(f_, ast.Name) and f_.id in mdefs:
                f_ = mdefs[f_.id]
            try:
                k_ = world.resolve_class(SER, f_)
            except Exception:
                k_ = None
            return k_ is not None and folder.is_enum(k_)
        for t_ in ast.walk(mfn):
            if not isinstance(t_, ast.Try):
                continue
            if not any(isinstance(x_, ast.Call) and isinstance(
                    x_.func, (ast.Name, ast.Attribute)) and conv(x_)
                    for b_ in t_.body for x_ in ast.walk(b_)):
                continue
            for h_ in t_.handlers:
                names_ = [] if h_.type is None else [
                    unparse(e_) for e_ in (h_.type.elts if isinstance(
                        h_.type, ast.Tuple) else [h_.type])]
                if h_.type is not None and "ValueError" not in names_:
                    continue
                deliver = [unparse(x_.func) for b_ in h_.body
                           for x_ in ast.walk(b_) if isinstance(
                               x_, ast.Call) and isinstance(
                                   x_.func, ast.Attribute) and (
                    x_.func.attr in ("put_nowait", "distribute", "put") or
                    (x_.func.attr.startswith("_process") and unparse(
                        x_.func.value) == "self"))]
                run.ob("R-FSM-DISPATCH", "%s.%s#unknown-code-delivers-"
                       "nothing" % (P, mname), not deliver,
                       "the handler for a code byte outside the enum calls "
                       "%s: a frame of unknown type must be dropped, not "
                       "turned into an item" % deliver, where(mod, h_))
    # frames built from received bytes: Frame(bits, data) raises ValueError
    # for a length that is not positive, so such a construction is either
    # under a test of that length or inside a handler that catches it
    nctor = 0
    for mname, (kind_, mfn) in sorted(c.methods.items()):
        if not mname.startswith("_process"):
            continue
        parent_ = {}
        for x in ast.walk(mfn):
            for ch in ast.iter_child_nodes(x):
                parent_[id(ch)] = x
        for n in ast.walk(mfn):
            if not (isinstance(n, ast.Call) and len(n.args) == 2):
                continue
            k_ = world.resolve_class(SER, n.func)
            if k_ is None or k_.qname not in ("dali.frame.ForwardFrame",
                                              "dali.frame.Frame"):
                continue
            # the width with locals that hold a count written out
            # (`nb = len(x); bits = 8 * nb` ... `Frame(bits, x)`), the
            # argument of len() left as it is spelled
            d_ = astq._defs(mfn)

            class _RS(ast.NodeTransformer):
                def visit_Call(self, c_):
                    if unparse(c_.func) == "len":
                        return c_
                    return self.generic_visit(c_)

                def visit_Name(self, x):
                    v_ = d_.get(x.id)
                    if isinstance(x.ctx, ast.Load) and v_ is not None and \
                            "len(" in unparse(v_, 300):
                        from ..inline import acopy as _ac
                        return self.visit(_ac(v_))
                    return x
            from ..inline import acopy as _ac0
            size_ = _RS().visit(_ac0(n.args[0]))
            lens = [unparse(x.args[0]) for x in ast.walk(size_)
                    if isinstance(x, ast.Call) and unparse(x.func) == "len"
                    and x.args]
            if not lens:
                # a constant width is fine; a width taken from another
                # received field (the announced bit count) need not match
                # the bytes that follow
                free = [x.id for x in ast.walk(n.args[0])
                        if isinstance(x, ast.Name)]
                if free:
                    run.ob("R-FSM-ESC", "%s.%s#%s" % (
                        P, mname, unparse(n)[:40]), False,
                        "`%s` takes the frame width from `%s`, not from the "
                        "number of bytes received (8 * len(%s)): a frame "
                        "whose announced width disagrees raises ValueError "
                        "out of data_received or is decoded at the wrong "
                        "size" % (unparse(n)[:60], unparse(n.args[0]),
                                  unparse(n.args[1])), where(mod, n))
                continue          # fixed size
            nctor += 1
            # other spellings of the count: locals bound to len(<bytes>)
            d2_ = astq._defs(mfn)
            count_names = ["len(%s)" % l_ for l_ in lens] + [
                k_ for k_, v_ in d2_.items() if isinstance(
                    v_, ast.Call) and unparse(v_.func) == "len" and
                v_.args and unparse(v_.args[0]) in lens]
            caught = tested = False
            child, p_ = n, parent_.get(id(n))
            while p_ is not None and p_ is not mfn:
                if isinstance(p_, ast.Try) and any(
                        child is s_ for s_ in p_.body):
                    for h in p_.handlers:
                        ts = [] if h.type is None else (
                            h.type.elts if isinstance(h.type, ast.Tuple)
                            else [h.type])
                        if h.type is None or any(unparse(t_) in (
                                "ValueError", "Exception", "BaseException")
                                for t_ in ts):
                            caught = True
                if isinstance(p_, ast.If):
                    # the construction sits in a branch of a chain that
                    # tests the same length
                    q_ = p_
                    while q_ is not None:
                        if isinstance(q_, ast.If) and any(
                                cn_ in unparse(q_.test, 300)
                                for cn_ in count_names):
                            tested = True
                        nxt_ = parent_.get(id(q_))
                        q_ = nxt_ if isinstance(nxt_, ast.If) and q_ in \
                            nxt_.orelse else None
                child, p_ = p_, parent_.get(id(p_))
            decided_short = False
            params_ = {a_.arg for a_ in mfn.args.args}
            if tested and not caught and not (set(lens) & params_):
                # (for a parameter the lengths are what the callers pass -
                # fixed-size slices of the buffer - and the structural test
                # below stands)
                # which lengths actually reach the construction: the path
                # conditions as formulas in n = len(<bytes>); they must
                # exclude n = 0 (a test like `n == 1 ... else` does not)
                from ..pathcond import path_conds
                from .. import pred as _pred
                mcfg0 = CFG(mfn, may_raise=explicit_raise_only,
                            name=P + "." + mname)
                site0 = [x for x in mcfg0.reachable if x.ast is not None and
                         x.kind in ("stmt", "test") and any(
                             y is n for y in ast.walk(x.ast))]
                Pn = _pred.Parser(_pred.lin_of(
                    {cn_: "n" for cn_ in count_names}))

                def ntree(t_):
                    try:
                        return Pn.tree(t_)
                    except _pred.Unrecognised:
                        return None
                if site0:
                    try:
                        d0 = path_conds(mcfg0, site0[0], ntree,
                                        what="R-FSM-ESC")
                        want0 = Pn.dnf(ast.parse("len(%s) >= 1" % lens[0],
                                                 mode="eval").body)
                        nonneg = Pn.dnf(ast.parse(
                            "len(%s) >= 0" % lens[0], mode="eval").body)
                        hyp0 = tuple(next(iter(nonneg))) if nonneg else ()
                        tested = _pred.implies(d0, want0, hyp=hyp0)[0]
                        decided_short = not tested
                    except AnalysisError:
                        pass
            if not (caught or tested) and not decided_short:
                # guard clauses: every path to the construction passes a
                # test of that length
                from ..pathcond import path_conds
                mcfg = CFG(mfn, may_raise=explicit_raise_only,
                           name=P + "." + mname)
                site = [x for x in mcfg.reachable if x.ast is not None and
                        x.kind in ("stmt", "test") and any(
                            y is n for y in ast.walk(x.ast))]

                def ltree(t_, lens=lens, count_names=count_names):
                    if any(cn_ in unparse(t_, 300)
                           for cn_ in count_names):
                        return ("atom", ("p", "length test", True))
                    return None
                if site:
                    d_ = path_conds(mcfg, site[0], ltree, what="R-FSM-ESC")
                    tested = bool(d_) and all(len(cj) > 0 for cj in d_)
            run.ob("R-FSM-ESC", "%s.%s#%s" % (P, mname, unparse(n)[:40]),
                   caught or tested,
                   "`%s` is built from received bytes with neither a test of "
                   "their number nor a handler for ValueError around it: a "
                   "frame announcing no data bytes raises out of "
                   "data_received and the receiver is not reset" % unparse(
                       n)[:60], where(mod, n))
    run.floor("%s frames built from received bytes" % c.name, nctor, 1)
    # argument type check is the only other raise
    raises = [unparse(r.exc.func if isinstance(r.exc, ast.Call) else r.exc)
              for r in ast.walk(fn) if isinstance(r, ast.Raise) and
              r.exc is not None]
    run.ob("R-FSM-ESC", P + "._process_byte#raises",
           sorted(raises) == ["RuntimeError", "TypeError"],
           "explicit raises in _process_byte are %s; expected only the "
           "non-int TypeError and the impossible-state RuntimeError"
           % raises, where(mod, fn))


def _walk_stmts(stmts):
    for s in stmts:
        yield s
        for f in ("body", "orelse", "finalbody"):
            for x in _walk_stmts(getattr(s, f, []) or []):
                yield x
        for h in getattr(s, "handlers", []) or []:
            for x in _walk_stmts(h.body):
                yield x


FSM_NEXT = {
    # next-state sets per state, transcribed from the framing of the two
    # serial protocols ('reset' = back to the first state through reset(),
    # 'stay' = state unchanged); a frame is always consumed to its end
    "LubaProtocol": {
        "WAIT_START": {"WAIT_COMMAND", "stay"},
        "WAIT_COMMAND": {"WAIT_LENGTH"},
        "WAIT_LENGTH": {"LOOP_READ", "reset"},
        "LOOP_READ": {"WAIT_CHECKSUM", "stay"},
        "WAIT_CHECKSUM": {"reset"}},
    "SCIRS232Protocol": {
        "WAIT_STATUS": {"WAIT_DATA_HI"},
        "WAIT_DATA_HI": {"WAIT_DATA_MI"},
        "WAIT_DATA_MI": {"WAIT_DATA_LO"},
        "WAIT_DATA_LO": {"WAIT_CHECKSUM"},
        "WAIT_CHECKSUM": {"reset"}},
}


def _next_states(body, arg):
    """{next state | 'reset' | 'stay'} over all paths of a state's branch
    (exceptions of try bodies included)."""
    from .. import paths
    f2 = ast.FunctionDef(name="state", args=ast.arguments(
        posonlyargs=[], args=[ast.arg("self"), ast.arg(arg)], kwonlyargs=[],
        kw_defaults=[], defaults=[]), body=list(body), decorator_list=[],
        returns=None, type_comment=None, type_params=[])
    ast.fix_missing_locations(f2)
    try:
        ps = paths.summaries(f2, try_prefixes=True, max_paths=20000)
    except paths.Unsupported:
        return None
    out = set()
    for p_ in ps:
        if p_.kind == "raise":
            continue
        nxt = "stay"
        for e_ in p_.effects:
            if e_[0] == "expr" and unparse(e_[1]) == "self.reset()":
                nxt = "reset"
            elif len(e_) == 2 and e_[0] in ("self._rx_state",
                                            "self.rx_state"):
                if not (isinstance(e_[1], ast.Attribute) and
                        e_[1].attr.isupper()):
                    # the next state looked up in a table / computed: not a
                    # member written where the transition is made
                    raise AnalysisError(
                        "the receiver's next state is computed (`%s`), not "
                        "a ReadState member named at the transition; the "
                        "transition rules read named members"
                        % unparse(e_[1], 60))
                nxt = unparse(e_[1]).split(".")[-1]
        out.add(nxt)
    return out


def _state_paths(body, arg, try_prefixes=False):
    from .. import paths
    f2 = ast.FunctionDef(name="state", args=ast.arguments(
        posonlyargs=[], args=[ast.arg("self"), ast.arg(arg)], kwonlyargs=[],
        kw_defaults=[], defaults=[]), body=list(body), decorator_list=[],
        returns=None, type_comment=None, type_params=[])
    ast.fix_missing_locations(f2)
    try:
        return paths.summaries(f2, try_prefixes=try_prefixes,
                               max_paths=20000)
    except paths.Unsupported:
        return None


def _counter_semantics(body, arg, folder, c):
    """Loop state: every path adds one to the payload counter, and the state
    is left exactly when the new count equals the expected length."""
    from .. import pred
    ps = _state_paths(body, arg)
    if ps is None:
        return None

    def lin(e):
        t = unparse(e)
        if t == "self._rx_received_len":
            return pred.Lin.sym("r")
        if t == "self._rx_expected_len":
            return pred.Lin.sym("e")
        if isinstance(e, ast.Constant) and type(e.value) is int:
            return pred.Lin.const(e.value)
        if isinstance(e, ast.BinOp) and isinstance(e.op, (ast.Add, ast.Sub)):
            a, b = lin(e.left), lin(e.right)
            if a is None or b is None:
                return None
            return a + b if isinstance(e.op, ast.Add) else a - b
        return None
    P = pred.Parser(lin)
    adv = frozenset()
    stay = frozenset()
    for p_ in ps:
        if p_.kind == "raise":
            continue            # refusals (argument type) are not bytes
        new = p_.env.get("self._rx_received_len")
        if new is None or lin(new) != pred.Lin.sym("r") + 1:
            return False
        trees = []
        for (t, b) in p_.conds:
            try:
                tr = P.tree(t)
            except pred.Unrecognised:
                continue
            trees.append(tr if b else ("not", tr))
        d = pred.dnf(("and", trees))
        d = frozenset(frozenset(a for a in cj if a[0] == "le") for cj in d)
        leaves = any(e_[0] in ("self._rx_state", "self.rx_state")
                     for e_ in p_.effects if len(e_) == 2)
        if leaves:
            adv = pred.union(adv, d)
        else:
            stay = pred.union(stay, d)
    eq = pred.dnf(("and", [("atom", ("le", "r", "e", 1)),
                           ("atom", ("le", "e", "r", -1))]))
    return pred.equivalent(adv, eq)[0] and not any(
        pred.sat(cj | next(iter(eq))) for cj in stay)


def _refused_length_resets(body, arg):
    """Length state: every path that does not accept the byte as the
    expected length calls self.reset()."""
    ps = _state_paths(body, arg)
    if ps is None:
        return None
    for p_ in ps:
        stored = any(e_[0] == "self._rx_expected_len" for e_ in p_.effects
                     if len(e_) == 2)
        reset = any(e_[0] == "expr" and unparse(e_[1]) == "self.reset()"
                    for e_ in p_.effects)
        if not stored and not reset and p_.kind != "raise":
            return False
    return True


def _accept_interval(body, arg, folder, c):
    """Interval hull of the values of `arg` for which a path through `body`
    executes `self._rx_expected_len = arg` (path summaries + bounds)."""
    from .. import paths, pred
    if not any(isinstance(x, ast.Assign) and unparse(x) ==
               "self._rx_expected_len = %s" % arg
               for x in _walk_stmts(body)):
        return None
    f2 = ast.FunctionDef(name="state", args=ast.arguments(
        posonlyargs=[], args=[ast.arg("self"), ast.arg(arg)], kwonlyargs=[],
        kw_defaults=[], defaults=[]), body=list(body), decorator_list=[],
        returns=None, type_comment=None, type_params=[])
    ast.fix_missing_locations(f2)
    # a local naming a range (`valid = range(1, n)`; `x in valid`) reads as
    # the range
    from .. import astq
    from ..inline import acopy
    rdefs = {k: v for k, v in astq._defs(f2).items() if isinstance(
        v, ast.Call) and unparse(v.func) == "range"}
    if rdefs:
        f2 = acopy(f2)

        class R(ast.NodeTransformer):
            def visit_Compare(self, n):
                self.generic_visit(n)
                n.comparators = [acopy(rdefs[x.id]) if isinstance(
                    x, ast.Name) and x.id in rdefs else x
                    for x in n.comparators]
                return n
        R().visit(f2)
        ast.fix_missing_locations(f2)
    try:
        ps = paths.summaries(f2)
    except paths.Unsupported:
        return None

    def lin(e):
        if isinstance(e, ast.Name) and e.id == arg:
            return pred.Lin.sym("x")
        iv = iv_eval(e, {}, folder, c)
        if iv is not None and iv.lo == iv.hi:
            return pred.Lin.const(iv.lo)
        return None
    P = pred.Parser(lin)
    lo = hi = None
    found = False
    for p_ in ps:
        if not any(e_[0] == "self._rx_expected_len" and unparse(
                e_[1]) == arg for e_ in p_.effects if len(e_) == 2):
            continue
        trees = []
        for (t, b) in p_.conds:
            try:
                tr = P.tree(t)
            except pred.Unrecognised:
                continue
            trees.append(tr if b else ("not", tr))
        for conj in pred.dnf(("and", trees)):
            clo = chi = None
            for a in conj:
                if a[0] != "le":
                    continue
                _, x, y, k = a
                if x == "x" and y == "0":        # x + k <= 0
                    chi = -k if chi is None else min(chi, -k)
                elif x == "0" and y == "x":      # -x + k <= 0
                    clo = k if clo is None else max(clo, k)
            # a received byte is 0..255 whatever the tests say
            clo = 0 if clo is None else max(clo, 0)
            chi = 255 if chi is None else min(chi, 255)
            found = True
            lo = clo if lo is None else min(lo, clo)
            hi = chi if hi is None else max(hi, chi)
    return Iv(lo, hi) if found else None


def _guard_interval(test, arg, folder, c):
    """lo < arg < hi (and <=, chained or and-ed) -> Iv of accepted values."""
    def cst(e):
        iv = iv_eval(e, {}, folder, c)
        return iv.lo if iv is not None and iv.lo == iv.hi else None
    lo, hi = None, None
    comps = []
    if isinstance(test, ast.Compare):
        comps = [test]
    elif isinstance(test, ast.BoolOp) and isinstance(test.op, ast.And):
        comps = [v for v in test.values if isinstance(v, ast.Compare)]
        if len(comps) != len(test.values):
            return None
    else:
        return None
    for cmp_ in comps:
        items = [cmp_.left] + list(cmp_.comparators)
        for i, op in enumerate(cmp_.ops):
            l, r = items[i], items[i + 1]
            if unparse(r) == arg and cst(l) is not None:
                if isinstance(op, ast.Lt):
                    lo = cst(l) + 1
                elif isinstance(op, ast.LtE):
                    lo = cst(l)
                else:
                    return None
            elif unparse(l) == arg and cst(r) is not None:
                if isinstance(op, ast.Lt):
                    hi = cst(r) - 1
                elif isinstance(op, ast.LtE):
                    hi = cst(r)
                elif isinstance(op, ast.Gt):
                    lo = cst(r) + 1
                elif isinstance(op, ast.GtE):
                    lo = cst(r)
                else:
                    return None
            else:
                return None
    if lo is None or hi is None:
        return None
    return Iv(lo, hi)


def _loop_state(branches):
    for (s, body, n) in branches:
        if any(unparse(x) == "self._rx_received_len += 1" for x in body):
            return s
    return None


def _incremented_before(body, stmt):
    for s in body:
        if s is stmt:
            return False
        if unparse(s) == "self._rx_received_len += 1":
            return True
    return False


def _single_def(world, c, attr, fn):
    """self.<attr> is assigned a non-None value only inside fn (once)."""
    n = 0
    for name, (kind, f2) in c.methods.items():
        for x in ast.walk(f2):
            if isinstance(x, ast.Assign) and unparse(x.targets[0]) == \
                    "self." + attr and not (isinstance(
                        x.value, ast.Constant) and x.value.value is None):
                if f2 is not fn:
                    return False
                n += 1
    return n == 1


def _check_sci_reply(run, world, folder, mod, c):
    """R-SCI-REPLY: the device reply delivered for a status byte carries the
    byte's two nibbles - id the upper, code the lower - for each of the 256
    bytes.  The two field expressions are folded (class constants resolved)
    once per byte value."""
    run.rule("R-SCI-REPLY", "SCI status byte -> device reply: id is the "
             "upper nibble and code the lower, for all 256 bytes")
    r = c.lookup("_process_system_message")
    if r is None or not isinstance(r[2], ast.FunctionDef):
        raise AnalysisError("SCIRS232Protocol._process_system_message "
                            "vanished")
    fn = _fold_int_class_consts(r[2], folder, c)
    params = [a.arg for a in fn.args.args][1:]
    if len(params) != 1:
        raise AnalysisError("_process_system_message: expected one "
                            "parameter (the status byte)")
    p = params[0]
    calls = [n for n in ast.walk(fn) if isinstance(n, ast.Call) and unparse(
        n.func).endswith("SCIRS232DeviceReply")]
    if len(calls) != 1:
        raise AnalysisError("_process_system_message: expected exactly one "
                            "SCIRS232DeviceReply(...) (found %d); the form "
                            "is not one the rule can read" % len(calls))
    call = calls[0]
    rc = world.cls(SER + ".DriverSCIRS232.SCIRS232DeviceReply")
    fields = [st.target.id for st in rc.node.body if isinstance(
        st, ast.AnnAssign) and isinstance(st.target, ast.Name)]
    args = dict(zip(fields, call.args))
    for k in call.keywords:
        if k.arg is None:
            raise AnalysisError("_process_system_message: **kwargs reply")
        args[k.arg] = k.value
    # locals computed from the byte before the reply is built
    env_defs = []
    for st in fn.body:
        if isinstance(st, ast.Assign) and len(st.targets) == 1 and \
                isinstance(st.targets[0], ast.Name):
            env_defs.append((st.targets[0].id, st.value))
        elif isinstance(st, ast.Assign) and len(st.targets) == 1 and \
                isinstance(st.targets[0], ast.Tuple) and isinstance(
                    st.value, ast.Tuple) and len(st.value.elts) == len(
                        st.targets[0].elts) and all(isinstance(
                            t, ast.Name) for t in st.targets[0].elts):
            for (t, v) in zip(st.targets[0].elts, st.value.elts):
                env_defs.append((t.id, v))
    # ... and every status byte is passed on: no path of the handler ends
    # without the put (a reply equal to the one before it is still the
    # confirmation somebody is waiting for)
    from .. import paths as _pp
    try:
        ps_ = _pp.summaries(fn)
    except _pp.Unsupported as e_:
        raise AnalysisError("_process_system_message: %s" % e_)
    silent_ = [p_ for p_ in ps_ if p_.kind != "raise" and not any(
        len(e_) == 2 and e_[0] == "expr" and isinstance(
            e_[1], ast.Call) and unparse(e_[1].func).endswith(
                "_queue_rx_info.put_nowait") for e_ in p_.effects)]
    run.ob("R-SCI-REPLY", c.qname + "._process_system_message#always-queued",
           not silent_,
           "a device reply is dropped when %s: the sender waiting for this "
           "confirmation gets none" % (" and ".join(
               ("" if b_ else "not ") + unparse(t_, 50)
               for (t_, b_) in silent_[0].conds) if silent_ else ""),
           where(mod, r[2]))
    want = {"id": lambda b: b >> 4, "code": lambda b: b & 0xF}
    for fld in ("id", "code"):
        e = args.get(fld)
        if e is None:
            raise AnalysisError("_process_system_message: reply field %s "
                                "not given" % fld)
        bad = None
        for b in range(256):
            env = {p: b}
            for (nm, ve) in env_defs:
                if any(isinstance(x, ast.Call) and unparse(x.func).endswith(
                        "SCIRS232DeviceReply") for x in ast.walk(ve)):
                    continue
                v = folder.eval(ve, env, c.mod, cls=c)
                if v is not UNKNOWN:
                    env[nm] = v
            v = folder.eval(e, env, c.mod, cls=c)
            if v is UNKNOWN:
                raise AnalysisError(
                    "_process_system_message: reply field %s = `%s` is not "
                    "an expression of the status byte the rule can fold"
                    % (fld, unparse(e, 60)))
            if isinstance(v, tuple) or v != want[fld](b):
                bad = (b, v)
                break
        run.ob("R-SCI-REPLY", c.qname + "._process_system_message#" + fld,
               bad is None, "status byte 0x%02x: the reply's %s is %r, the "
               "%s nibble is %d" % (
                   bad[0] if bad else 0, fld, bad[1] if bad else None,
                   "upper" if fld == "id" else "lower",
                   want[fld](bad[0]) if bad else 0),
               where(mod, r[2]))


def _stated_lengths(c):
    """[(length, handler name, node)]: integer constants the per-type
    handlers compare the packet's length byte (`self._buffer[2]`, directly
    or through a local) with."""
    out = []
    for (mn, (kind, f)) in sorted(c.methods.items()):
        if not mn.startswith("_process_") or mn == "_process_byte":
            continue
        al = {"self._buffer[2]"}
        for n in ast.walk(f):
            if isinstance(n, ast.Assign) and len(n.targets) == 1 and \
                    isinstance(n.targets[0], ast.Name) and unparse(
                        n.value) in al:
                al.add(n.targets[0].id)
        for n in ast.walk(f):
            if not isinstance(n, ast.Compare) or len(n.ops) != 1:
                continue
            l, r = n.left, n.comparators[0]
            if unparse(r) in al and not unparse(l) in al:
                l, r = r, l
            if unparse(l) not in al:
                continue
            if not isinstance(n.ops[0], (ast.Eq, ast.NotEq, ast.In,
                                         ast.NotIn)):
                continue
            elts = r.elts if isinstance(r, (ast.List, ast.Tuple, ast.Set)) \
                else [r]
            for e in elts:
                if isinstance(e, ast.Constant) and type(e.value) is int:
                    if (e.value, mn) not in [(a, b) for (a, b, _) in out]:
                        out.append((e.value, mn, n))
    return out
