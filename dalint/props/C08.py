"""C08 - gear query/set sequences (QueryDeviceTypes, QueryGroups, SetGroups):
R-MONO, R-RDISC, R-CONCAT, R-SETGRP (DESIGN.md section 3, C08)."""
import ast

from ..core import AnalysisError, unparse, where
from ..cfg import forward, dominators, _walk_no_nested, path_str
from ..seq import (gen_cfg, yields_of, check_rdisc, assigned_names,
                   _is_attr_chain)
from ..normal import normalise
from .. import pred

MOD = "dali.sequences"
GEAR = "dali.gear.general."


def _is(y, name):
    return y.cls is not None and y.cls.qname == GEAR + name


def check(run, repo, world):
    run.explanation = (
        "Decides on the generator CFGs of QueryDeviceTypes / QueryGroups / "
        "SetGroups: (R-MONO) the device-type loop has a strictly-increasing "
        "ranking guard whose tracker is updated on every iteration and starts "
        "below 0, which bounds the loop for every answer stream; (R-RDISC) no "
        "answer is read as data without a None check and a framing-error "
        "check; (R-CONCAT) the two group masks are joined high|low and bit i "
        "is group i; (R-SETGRP) adds/removes are the set differences against "
        "the state read from the same address, else all 16 groups written. "
        "NOT decided: the final membership as a set value.")
    run.assumptions += [
        "an 8-bit backward frame carries values 0..255",
        "Frame.__add__ puts the left operand in the high bits (C05)"]
    mod = repo.mod(MOD)
    from ..seq import check_stateless
    check_stateless(run, "R-SEQ-STATELESS", mod, [
        (MOD + "." + n_.name, n_) for n_ in mod.tree.body
        if isinstance(n_, ast.FunctionDef)], 4)

    # ---- QueryDeviceTypes -------------------------------------------------
    m, fn, _ = world.func(MOD + ".QueryDeviceTypes")
    # a poll loop counted up to a bound no ascending run of bytes can reach
    # (R-MONO bounds the passes at 254) reads as the unbounded loop
    from ..normal import unbound_counted_poll_loops
    fn = unbound_counted_poll_loops(fn, 256)
    fn = normalise(fn, world, MOD, lift_values=True)
    Q = MOD + ".QueryDeviceTypes"
    cfg = gen_cfg(fn, Q)
    ys = yields_of(cfg, world, MOD)
    run.floor("QueryDeviceTypes yields", len(ys), 2)
    first = [y for y in ys if _is(y, "QueryDeviceType")]
    nxt = [y for y in ys if _is(y, "QueryNextDeviceType")]
    run.ob("R-DT-ORDER", Q + "#first-query", len(first) == 1 and len(nxt) >= 1
           and not _reaches(nxt[0].node, first[0].node),
           "QueryDeviceType must be issued once, before QueryNextDeviceType",
           where(mod, fn))
    n_r = check_rdisc(run, world, MOD, Q, cfg, ys, mod)
    loop_ids_ = set()
    for h_ in _loops(cfg):
        loop_ids_ |= set(_loop_body_ids(h_))
    peeled = [y for y in ys if _is(y, "QueryNextDeviceType") and
              y.node.id not in loop_ids_]
    def _handled_before_loop(y):
        # (a priming read of a rotated loop goes straight to the loop head;
        # a peeled iteration tests its answer first)
        seen_, stack_ = set(), [m_ for (l_, m_) in y.node.succ
                                if l_ != "exc"]
        while stack_:
            x_ = stack_.pop()
            if x_.id in seen_ or x_.id in loop_ids_:
                continue
            seen_.add(x_.id)
            if x_.kind == "test":
                return True
            stack_ += [m_ for (l_, m_) in x_.succ if l_ != "exc"]
        return False
    peeled = [y for y in peeled if _handled_before_loop(y)]
    if peeled and any(_is(y, "QueryNextDeviceType") and
                      y.node.id in loop_ids_ for y in ys):
        # the first poll step written out in front of the loop: tracker and
        # accumulator then start from an answer instead of from constants,
        # and what the loop may assume is a property of that first step
        raise AnalysisError(
            "QueryDeviceTypes polls once in front of its loop (a peeled "
            "first iteration); the ordering and emptiness rules read a loop "
            "whose tracker and list start from constants")
    _check_mono(run, mod, Q, cfg, ys)
    _check_dt_cases(run, mod, Q, cfg, ys, first)

    # ---- QueryGroups ------------------------------------------------------
    m, fn, _ = world.func(MOD + ".QueryGroups")
    fn = normalise(fn, world, MOD)
    G = MOD + ".QueryGroups"
    gcfg = gen_cfg(fn, G)
    gys = yields_of(gcfg, world, MOD)
    n_r += check_rdisc(run, world, MOD, G, gcfg, gys, mod)
    _check_concat(run, mod, G, gcfg, gys, fn)

    # ---- SetGroups --------------------------------------------------------
    m, fn, _ = world.func(MOD + ".SetGroups")
    from ..normal import pull_tests_through_conversion, thread_none_sentinel
    fn = pull_tests_through_conversion(fn, world, MOD)
    fn = thread_none_sentinel(fn, world, MOD)
    fn = normalise(fn, world, MOD, primitives=("QueryGroups",))
    S = MOD + ".SetGroups"
    scfg = gen_cfg(fn, S)
    sys_ = yields_of(scfg, world, MOD)
    n_r += check_rdisc(run, world, MOD, S, scfg, sys_, mod)
    _check_setgroups(run, world, mod, S, scfg, sys_, fn)
    run.floor("R-RDISC response-use sites", n_r, 8)


def _reaches(a, b):
    seen, stack = set(), [a]
    while stack:
        n = stack.pop()
        if n.id in seen:
            continue
        seen.add(n.id)
        if n is b:
            return True
        stack += [m for (_, m) in n.succ]
    return False


# ---------------------------------------------------------------------------
def _loops(cfg):
    """while-loop heads (join nodes with info['loop'])."""
    return [n for n in cfg.reachable if n.kind == "join" and "loop" in n.info]


def _loop_body_ids(head):
    """Nodes on a cycle through head."""
    # nodes reachable from head that can reach head
    fwd, stack = set(), [head]
    while stack:
        n = stack.pop()
        if n.id in fwd:
            continue
        fwd.add(n.id)
        stack += [m for (_, m) in n.succ]
    back, stack = set(), [head]
    byid = {}
    while stack:
        n = stack.pop()
        if n.id in back:
            continue
        back.add(n.id)
        byid[n.id] = n
        stack += [p for (_, p) in n.pred]
    return fwd & back


def _value_expr_vars(e):
    return {n.id for n in ast.walk(e) if isinstance(n, ast.Name)}


def _check_mono(run, mod, Q, cfg, ys):
    run.rule("R-MONO", "a polling loop has a strictly-increasing guard whose "
             "tracker is assigned from the received value on every path to "
             "the back edge and starts below the domain minimum")
    ynode = {y.node.id: y for y in ys}
    nsites = 0
    for head in _loops(cfg):
        body = _loop_body_ids(head)
        loop_yields = [ynode[i] for i in body if i in ynode]
        if not loop_yields:
            continue
        fresh = {y.target for y in loop_yields if y.target}
        # guard tests: compare of a fresh-derived value with a plain Name
        guards = []
        for n in cfg.reachable:
            if n.id in body and n.kind == "test" and isinstance(
                    n.ast, ast.Compare) and len(n.ast.ops) == 1 and \
                    isinstance(n.ast.ops[0], (ast.LtE, ast.Lt, ast.GtE,
                                              ast.Gt)):
                l, r = n.ast.left, n.ast.comparators[0]
                op = n.ast.ops[0]
                if isinstance(r, ast.Name) and _value_expr_vars(l) & fresh:
                    guards.append((n, l, r.id, op, False))
                elif isinstance(l, ast.Name) and _value_expr_vars(r) & fresh:
                    guards.append((n, r, l.id, op, True))
                elif _last_of(r) and _value_expr_vars(l) & fresh:
                    guards.append((n, l, ("last", _last_of(r)), op, False))
                elif _last_of(l) and _value_expr_vars(r) & fresh:
                    guards.append((n, r, ("last", _last_of(l)), op, True))
        # `any(v <= seen for seen in result)`: the values collected so far
        # were each accepted above all earlier ones, so the list ascends and
        # the test is the comparison with its last element
        for n in cfg.reachable:
            if n.id in body and n.kind == "test" and isinstance(
                    n.ast, ast.Call) and isinstance(
                        n.ast.func, ast.Name) and n.ast.func.id == "any" \
                    and len(n.ast.args) == 1 and isinstance(
                        n.ast.args[0], (ast.GeneratorExp, ast.ListComp)) \
                    and len(n.ast.args[0].generators) == 1 and not \
                    n.ast.args[0].generators[0].ifs:
                g_ = n.ast.args[0].generators[0]
                e_ = n.ast.args[0].elt
                if isinstance(g_.target, ast.Name) and isinstance(
                        g_.iter, ast.Name) and isinstance(
                            e_, ast.Compare) and len(e_.ops) == 1 and \
                        isinstance(e_.ops[0], (ast.LtE, ast.Lt)) and \
                        isinstance(e_.comparators[0], ast.Name) and \
                        e_.comparators[0].id == g_.target.id and \
                        _value_expr_vars(e_.left) & fresh:
                    guards.append((n, e_.left, ("last", g_.iter.id, "any"),
                                   e_.ops[0], False))
        nsites += 1
        key = "%s#loop@%s" % (Q, _loop_key(head))
        if not guards and any(
                n.id in body and n.kind == "test" and any(
                    isinstance(x, ast.Call) and isinstance(
                        x.func, ast.Name) and x.func.id in ("any", "all")
                    and x.args and isinstance(
                        x.args[0], (ast.GeneratorExp, ast.ListComp)) and
                    any(isinstance(c_, ast.Compare) for c_ in ast.walk(
                        x.args[0])) for x in ast.walk(n.ast))
                for n in cfg.reachable):
            # the order guard asks about every value collected so far
            # instead of one tracker: that the maximum then rises strictly
            # is a fact about the list, which this rule does not derive
            raise AnalysisError(
                "%s guards its polling loop with a quantified comparison "
                "over the values collected so far (any / all); R-MONO reads "
                "a comparison with one tracker" % Q)
        if not guards:
            run.ob("R-MONO", key, False,
                   "polling loop has no monotone guard: a unit that keeps "
                   "answering makes the sequence loop for ever",
                   where(mod, head))
            continue
        extra_guards = set()
        for (tn, vexpr, tracker, op, swapped) in guards:
            # which edge is the 'violating' one (value <= tracker)?
            if not swapped:
                viol_label = "T" if isinstance(op, (ast.LtE, ast.Lt)) else "F"
                strict_ok = isinstance(op, (ast.LtE, ast.Gt))
            else:
                # tracker OP value
                viol_label = "T" if isinstance(op, (ast.GtE, ast.Gt)) else "F"
                strict_ok = isinstance(op, (ast.GtE, ast.Lt))
            ok_label = "F" if viol_label == "T" else "T"
            # violating edge must lead to raise before the back edge
            vt = [m for (l, m) in tn.succ if l == viol_label]
            raises = all(_must_raise(m, head) for m in vt) and bool(vt)
            # on the ok edge, every path to the head assigns tracker = value
            ot = [m for (l, m) in tn.succ if l == ok_label]
            offs = set() if not isinstance(tracker, tuple) else None
            upd = bool(ot) and all(
                _must_assign(m, head, tracker, vexpr, offs) for m in ot)
            if offs:
                # accepted: value >= tracker + s (s = 1 for a strict
                # comparison), tracker' = value + k: the next accepted
                # value exceeds this one iff k + s >= 1 on every path
                s_ = 1 if strict_ok else 0
                strict_ok = min(offs) + s_ >= 1
                init_strict = bool(s_)
            else:
                init_strict = strict_ok
            # initial value below the 8-bit domain
            if isinstance(tracker, tuple):
                # the tracker is the last element of an accumulator list:
                # empty before the loop, the guard skipped while empty
                lst = tracker[1]
                emp = _emptiness_test(tn, lst)
                init = _list_init(cfg, lst, body)
                # (the quantified form needs no emptiness test: any() over
                # an empty list is False)
                init_ok = (emp is not None or len(tracker) > 2) and \
                    init == "[]" and _only_appends(cfg, lst, body, vexpr)
                if emp is not None:
                    ef = [m for (l, m) in emp.succ if l == "F"]
                    upd = upd and all(_must_assign(m, head, tracker, vexpr)
                                      for m in ef)
                    extra_guards.add(emp.id)
                tracker = "%s[-1]" % lst
            else:
                init = _init_value(cfg, tracker, body)
                init_ok = init is not None and (
                    init < 0 if init_strict else init <= 0)
                if init is None and _starts_none(cfg, tracker, body):
                    # `last = None` ... `if last is not None and v <= last`:
                    # nothing to compare the first answer with; the guard is
                    # skipped exactly while the tracker is still None
                    nn = [p for (l, p) in tn.pred if p.kind == "test" and (
                        (l == "T" and unparse(p.ast) ==
                         "%s is not None" % tracker) or
                        (l == "F" and unparse(p.ast) ==
                         "%s is None" % tracker))]
                    if nn:
                        init = "None (guard skipped while None)"
                        init_ok = True
                        skip_edge = "F" if unparse(nn[0].ast) != \
                            "%s is None" % tracker else "T"
                        ef = [m for (l, m) in nn[0].succ if l == skip_edge]
                        upd = upd and all(_must_assign(
                            m, head, tracker, vexpr) for m in ef)
                        extra_guards.add(nn[0].id)
            msg = []
            if not raises:
                msg.append("the out-of-order branch does not raise")
            if not strict_ok:
                msg.append("comparison admits repeats (not strict)")
            if not upd:
                msg.append("tracker `%s` is never updated from the received "
                           "value inside the loop, so repeated or "
                           "descending answers pass and the loop is "
                           "unbounded" % tracker)
            if not init_ok:
                msg.append("tracker `%s` starts at %r: device type 0 is "
                           "rejected as out of order (or the accumulator is "
                           "not empty / not append-only)" % (tracker, init))
            run.ob("R-MONO", key + "#" + tracker,
                   raises and strict_ok and upd and init_ok,
                   "; ".join(msg), where(mod, tn),
                   sample={"rule": "R-MONO", "guard": unparse(tn.ast),
                           "tracker": tracker, "init": init,
                           "updated_on_all_paths": upd})
        # the guard must be on every cycle that passes a yield: the head's
        # back edges are only reachable through a guard's ok edge
        gids = {g[0].id for g in guards} | extra_guards
        free = _cycle_avoiding(head, body, gids, ynode)
        run.ob("R-MONO", key + "#guard-on-every-iteration", not free,
               "an iteration of the polling loop can complete without "
               "passing the ordering guard", where(mod, head))
    run.floor("polling loops", nsites, 1)


def _loop_key(head):
    return "while"


def _must_raise(start, head):
    """All paths from start end in raise/return before reaching head."""
    seen, stack = set(), [start]
    while stack:
        n = stack.pop()
        if n.id in seen:
            continue
        seen.add(n.id)
        if n is head:
            return False
        if n.kind in ("raise_exit",):
            continue
        if n.kind == "exit":
            return False
        if n.kind == "stmt" and isinstance(n.ast, ast.Raise):
            continue
        stack += [m for (l, m) in n.succ if l != "exc"]
    return True


def _must_assign(start, head, tracker, vexpr, offsets=None):
    """Every path from start to head passes `tracker = <vexpr>` (or a name
    holding it)."""
    vtxt = unparse(vexpr)
    seen, stack = set(), [(start, frozenset())]
    while stack:
        n, al = stack.pop()
        if (n.id, al) in seen:
            continue
        seen.add((n.id, al))
        if isinstance(tracker, tuple) and n.kind == "stmt" and isinstance(
                n.ast, ast.Expr) and isinstance(n.ast.value, ast.Call) and \
                unparse(n.ast.value.func) == tracker[1] + ".append" and \
                len(n.ast.value.args) == 1 and (
                    unparse(n.ast.value.args[0]) == vtxt or
                    unparse(n.ast.value.args[0]) in al):
            continue            # appended on this path
        if n.kind == "stmt" and isinstance(n.ast, ast.Assign) and \
                len(n.ast.targets) == 1 and isinstance(
                    n.ast.targets[0], ast.Name):
            t = n.ast.targets[0].id
            v = unparse(n.ast.value)
            if v == vtxt or v in al:
                if t == tracker:
                    if offsets is not None:
                        offsets.add(0)
                    continue    # updated on this path
                al = al | {t}
            elif t == tracker and offsets is not None and isinstance(
                    n.ast.value, ast.BinOp) and isinstance(
                        n.ast.value.op, (ast.Add, ast.Sub)) and isinstance(
                            n.ast.value.right, ast.Constant) and type(
                                n.ast.value.right.value) is int and (
                        unparse(n.ast.value.left) == vtxt or
                        unparse(n.ast.value.left) in al):
                # tracker = value + k: the bound the next value is held to
                k = n.ast.value.right.value
                offsets.add(k if isinstance(n.ast.value.op, ast.Add) else -k)
                continue
        if n is head:
            return False
        if n.kind in ("exit", "raise_exit"):
            continue
        stack += [(m, al) for (l, m) in n.succ if l != "exc"]
    return True


def _last_of(e):
    """name X if e is X[-1]."""
    if isinstance(e, ast.Subscript) and isinstance(e.value, ast.Name) and \
            unparse(e.slice) == "-1":
        return e.value.id
    return None


def _emptiness_test(guard, lst):
    """The test node `lst` (non-empty) whose T edge leads to the guard."""
    forms = (lst, "len(%s)" % lst, "len(%s) > 0" % lst, "%s != []" % lst,
             "len(%s) != 0" % lst, "len(%s) >= 1" % lst)
    for (l, p) in guard.pred:
        if l == "T" and p.kind == "test" and unparse(p.ast) in forms:
            return p
    return None


def _list_init(cfg, lst, body):
    vals = []
    for n in cfg.reachable:
        if n.id in body:
            continue
        if n.kind == "stmt" and isinstance(n.ast, ast.Assign) and any(
                isinstance(t, ast.Name) and t.id == lst
                for t in n.ast.targets):
            vals.append(unparse(n.ast.value))
    return vals[0] if len(vals) == 1 else None


def _only_appends(cfg, lst, body, vexpr):
    """Inside the loop the list is only ever appended the received value."""
    for n in cfg.reachable:
        if n.id not in body or n.ast is None:
            continue
        for c in _walk_no_nested(n.ast):
            if isinstance(c, ast.Call) and isinstance(
                    c.func, ast.Attribute) and unparse(
                        c.func.value) == lst and c.func.attr in (
                            "pop", "clear", "remove", "insert", "extend",
                            "sort", "reverse"):
                return False
            if isinstance(c, ast.Name) and c.id == lst and isinstance(
                    c.ctx, (ast.Store, ast.Del)):
                return False
    return True


def _init_value(cfg, tracker, body):
    vals = []
    for n in cfg.reachable:
        if n.id in body:
            continue
        if n.kind == "stmt" and isinstance(n.ast, ast.Assign) and any(
                isinstance(t, ast.Name) and t.id == tracker
                for t in n.ast.targets):
            v = n.ast.value
            if isinstance(v, ast.Constant) and isinstance(v.value, int):
                vals.append(v.value)
            elif isinstance(v, ast.UnaryOp) and isinstance(
                    v.op, ast.USub) and isinstance(v.operand, ast.Constant):
                vals.append(-v.operand.value)
            else:
                return None
    if len(vals) != 1:
        return None if not vals else max(vals)
    return vals[0]


def _starts_none(cfg, tracker, body):
    vals = [n.ast.value for n in cfg.reachable if n.id not in body and
            n.kind == "stmt" and isinstance(n.ast, ast.Assign) and any(
                isinstance(t, ast.Name) and t.id == tracker
                for t in n.ast.targets)]
    return len(vals) == 1 and isinstance(
        vals[0], ast.Constant) and vals[0].value is None


def _cycle_avoiding(head, body, gids, ynode):
    """Is there a cycle head->...->head inside body through a yield that
    avoids all guard nodes?"""
    seen, stack = set(), [(m, False) for (l, m) in head.succ]
    while stack:
        n, y = stack.pop()
        if n.id not in body or n.id in gids:
            continue
        y = y or n.id in ynode
        if n is head:
            if y:
                return True
            continue
        if (n.id, y) in seen:
            continue
        seen.add((n.id, y))
        stack += [(m, y) for (l, m) in n.succ if l != "exc"]
    return False


def _check_dt_cases(run, mod, Q, cfg, ys, first):
    """Single-answer cases of QueryDeviceType: <254 -> [v]; 254 -> [];
    255 -> polling loop; loop returns the accumulated list at 254."""
    run.rule("R-DT-CASES", "QueryDeviceType answer: v<254 -> [v], 254 -> [], "
             "255 -> poll; poll ends at 254 with the accumulated list")
    if not first or not first[0].target:
        run.ob("R-DT-CASES", Q + "#first", False, "answer not bound",
               where(mod, cfg.fn))
        return
    r = first[0].target
    v = "%s.raw_value.as_integer" % r
    heads = {n.id for n in cfg.reachable if (
        n.kind == "join" and "loop" in n.info) or n.kind == "for"}
    P = pred.Parser(pred.lin_of({v: "v"}))
    HYP = (("le", "0", "v", 0), ("le", "v", "0", -255))

    def outcomes(start, stop_ids, vtxt, parser):
        """{outcome text: DNF over the answer value} for the acyclic paths
        from `start` to a return / raise / one of stop_ids; tests that do
        not mention the value are projected away."""
        res = {}

        def walk(n, conds, onpath):
            if n.id in onpath:
                return
            if n.id in stop_ids:
                add("loop", conds)
                return
            if n.kind == "stmt" and isinstance(n.ast, ast.Return):
                add("return " + (unparse(n.ast.value) if n.ast.value
                                 is not None else "None"), conds)
                return
            if n.kind in ("raise_exit",) or (n.kind == "stmt" and isinstance(
                    n.ast, ast.Raise)):
                add("raise", conds)
                return
            if n.kind == "exit":
                add("return None", conds)
                return
            for (l, m) in n.succ:
                if l == "exc":
                    continue
                c = conds
                if n.kind == "test" and l in ("T", "F") and vtxt in unparse(
                        n.ast, 400):
                    t = parser.tree(n.ast)
                    c = conds + [t if l == "T" else ("not", t)]
                walk(m, c, onpath | {n.id})

        def add(k, conds):
            d = pred.dnf(("and", conds))
            d = frozenset(frozenset(a for a in c if a[0] == "le")
                          for c in d if pred.sat(c))
            res[k] = pred.union(res.get(k, frozenset()), d)
        for (l, m) in start.succ:
            if l != "exc":
                walk(m, [], frozenset([start.id]))
        return res

    def atom_dnf(lo, hi):
        return pred.dnf(("and", [("atom", ("le", "0", "v", lo)),
                                 ("atom", ("le", "v", "0", -hi))]))
    try:
        got = outcomes(first[0].node, heads, v, P)
    except pred.Unrecognised as e:
        raise AnalysisError("R-DT-CASES: a test on the answer is outside "
                            "the comparison forms read: %s" % e)
    want = {"return [%s]" % v: atom_dnf(0, 253), "return []":
            atom_dnf(254, 254), "loop": atom_dnf(255, 255)}
    for k, w in want.items():
        g = got.get(k, frozenset())
        eq, wit = pred.equivalent(g, w, HYP)
        run.ob("R-DT-CASES", "%s#first-answer:%s" % (Q, k.replace(v, "v")),
               eq, "for the QueryDeviceType answer v, `%s` must happen "
               "exactly when %s; found when %s" % (
                   k.replace(v, "v"), pred.show(w), pred.show(g) or "never"),
               where(mod, first[0].node),
               sample={"rule": "R-DT-CASES", "outcome": k,
                       "when": pred.show(g)})
    for k, g in got.items():
        if k in want or k == "raise":
            continue
        sat = any(pred.sat(c, HYP) for c in g)
        run.ob("R-DT-CASES", "%s#first-answer:other:%s" % (Q, k), not sat,
               "outcome `%s` for the first answer is none of [v] / [] / poll "
               "(reached when %s)" % (k, pred.show(g)),
               where(mod, first[0].node))
    rz = got.get("raise", frozenset())
    sat = any(c and pred.sat(c, HYP) for c in rz)
    run.ob("R-DT-CASES", Q + "#first-answer:raise", not sat,
           "a valid first answer is rejected when %s" % pred.show(rz),
           where(mod, first[0].node))
    # inside the poll loop: 254 ends it, returning the accumulated list
    txt = set()
    nloop = 0
    for y in ys:
        if not _is(y, "QueryNextDeviceType") or not y.target:
            continue
        v2 = "%s.raw_value.as_integer" % y.target
        P2 = pred.Parser(pred.lin_of({v2: "v"}))
        try:
            # one poll step: from this answer to the next question (the
            # loop may be rotated: a priming read in front, the re-read at
            # the bottom of the body)
            got2 = outcomes(y.node, {y_.node.id for y_ in ys}, v2, P2)
        except pred.Unrecognised as e:
            raise AnalysisError("R-DT-CASES: a test on the polled answer is "
                                "outside the comparison forms read: %s" % e)
        nloop += 1
        rets = {k: g for k, g in got2.items() if k.startswith("return ")}
        allret = pred.union(*rets.values()) if rets else frozenset()
        txt |= {k[len("return "):] for k in rets}
        # the emptiness test is a proposition; projected away here
        w = atom_dnf(254, 254)
        eq, wit = pred.equivalent(allret, w, HYP)
        run.ob("R-DT-CASES", Q + "#poll-ends-at-254", eq and len(rets) == 1,
               "the poll must return (one accumulated list) exactly when "
               "the answer is 254; returns %s when %s" % (
                   sorted(rets), pred.show(allret) or "never"),
               where(mod, y.node))
        cont = got2.get("loop", frozenset())
        ok = not any(pred.sat(c | next(iter(w)), HYP)
                     for c in cont)
        run.ob("R-DT-CASES", Q + "#poll-254-not-recorded", ok,
               "an answer of 254 can continue the poll", where(mod, y.node))
    run.floor("QueryNextDeviceType answer sites", nloop, 1)
    # ... and only a list that holds something: a unit that announces
    # several types (255) and then ends the list at once (254) is
    # misbehaving, and `[]` would be wrong data ("no part 2xx type")
    from ..cfg import forward_worlds
    from ..seq import cond_edge_transfer, kill_conds_on_assign
    W = forward_worlds(cfg, kill_conds_on_assign, cond_edge_transfer())
    n_res = 0
    for n in cfg.reachable:
        if not (n.kind == "stmt" and isinstance(n.ast, ast.Return) and
                isinstance(n.ast.value, ast.Name) and
                n.ast.value.id in txt):
            continue
        n_res += 1
        L = n.ast.value.id
        nonempty = {(L, True), ("len(%s)" % L, True),
                    ("len(%s) == 0" % L, False), ("len(%s) > 0" % L, True),
                    ("len(%s) >= 1" % L, True), ("%s == []" % L, False),
                    ("0 == len(%s)" % L, False), ("len(%s) < 1" % L, False)}
        ok = bool(W.at(n)) and all(any(
            f[0] == "cond" and (f[1], f[2]) in nonempty for f in w)
            for w in W.at(n))
        run.ob("R-DT-CASES", Q + "#poll-result-not-empty", ok,
               "the poll can return `%s` without having tested it to hold "
               "an entry: for the answers 255, 254 the sequence returns [] "
               "instead of raising DALISequenceError" % L, where(mod, n))
    run.floor("returns of the polled list", n_res, 1)
    # the accumulated list is appended with the received value in the loop
    app = []
    for n in cfg.reachable:
        if n.kind == "stmt":
            for c in _walk_no_nested(n.ast):
                if isinstance(c, ast.Call) and isinstance(
                        c.func, ast.Attribute) and c.func.attr == "append":
                    app.append((unparse(c.func.value), unparse(c.args[0])))
    acc = [a for a in app if a[0] in txt]
    run.ob("R-DT-CASES", Q + "#accumulate", bool(acc) and all(
        a[1].endswith(".raw_value.as_integer") or a[1].isidentifier()
        for a in acc),
        "the returned list is not built from the received values: %s" % app,
        where(mod, cfg.fn))


# ---------------------------------------------------------------------------
def _index_frame_iteration(fn):
    """`for i, m in enumerate(W)` / `for m in W` over a frame W that is the
    concatenation of n backward frames (`a.raw_value + b.raw_value`, each 8
    bits wide by construction of BackwardFrame) reads W[0] .. W[8n-1] in
    order (a Frame has no __iter__: the sequence protocol indexes it until
    IndexError).  Written here as the loop over range(8n) it abbreviates."""
    from .. import astq
    from ..inline import acopy
    defs = astq._defs(fn)

    def width(e, depth=0):
        if depth > 4:
            return None
        if isinstance(e, ast.Name) and e.id in defs:
            return width(defs[e.id], depth + 1)
        if isinstance(e, ast.Attribute) and e.attr == "raw_value":
            return 8
        if isinstance(e, ast.BinOp) and isinstance(e.op, ast.Add):
            a, b = width(e.left, depth + 1), width(e.right, depth + 1)
            return a + b if a and b else None
        return None
    changed = False
    fn2 = acopy(fn)
    for n in ast.walk(fn2):
        if not isinstance(n, ast.For) or n.orelse:
            continue
        it = n.iter
        idx = None
        if isinstance(it, ast.Call) and unparse(it.func) == "enumerate" and \
                len(it.args) == 1 and not it.keywords and isinstance(
                    n.target, ast.Tuple) and len(n.target.elts) == 2 and \
                all(isinstance(x, ast.Name) for x in n.target.elts):
            idx, mem, seq = n.target.elts[0].id, n.target.elts[1].id, \
                it.args[0]
        elif isinstance(n.target, ast.Name) and isinstance(it, ast.Name):
            idx, mem, seq = "__bit", n.target.id, it
        else:
            continue
        w = width(seq)
        if not w:
            continue
        n.target = ast.Name(idx, ast.Store())
        n.iter = ast.Call(ast.Name("range", ast.Load()),
                          [ast.Constant(w)], [])
        n.body = [ast.Assign([ast.Name(mem, ast.Store())], ast.Subscript(
            acopy(seq), ast.Name(idx, ast.Load()), ast.Load()))] + n.body
        changed = True
    if not changed:
        return fn
    ast.fix_missing_locations(fn2)
    return fn2


def _check_concat(run, mod, G, cfg, ys, fn):
    run.rule("R-CONCAT", "group word = (groups 8-15 answer) + (groups 0-7 "
             "answer); bit i <-> group i for i in range(16)")
    lo = [y for y in ys if _is(y, "QueryGroupsZeroToSeven")]
    hi = [y for y in ys if _is(y, "QueryGroupsEightToFifteen")]
    if len(lo) != 1 or len(hi) != 1 or not lo[0].target or not hi[0].target:
        run.ob("R-CONCAT", G + "#queries", False,
               "expected one bound yield of each group query",
               where(mod, fn))
        return
    same_addr = unparse(lo[0].arg(0)) == unparse(hi[0].arg(0)) == \
        fn.args.args[0].arg
    run.ob("R-CONCAT", G + "#same-address", same_addr,
           "both group queries must go to the sequence's address",
           where(mod, fn))
    L, H = lo[0].target, hi[0].target
    # every loop over a constant range / table unrolled, comprehensions
    # expanded: what remains is one guarded `add` per group
    from ..unroll import detable
    from .. import astq
    fn = _index_frame_iteration(fn)
    fx, _info = detable(fn, ranges=16)
    defs = astq._defs(fx)
    parent = {}
    for x in ast.walk(fx):
        for ch in ast.iter_child_nodes(x):
            parent[id(ch)] = x

    def int_bit_source(test):
        """The same for integer arithmetic: `M & 2**j`, `(M >> j) & 1` with
        M = (H.as_integer << 8) | L.as_integer (or + / * 256)."""
        t = astq.resolve(fx, test, defs=defs)
        j = None
        m = None
        if isinstance(t, ast.Compare) and len(t.ops) == 1 and isinstance(
                t.ops[0], ast.NotEq) and unparse(t.comparators[0]) == "0":
            t = t.left
        if isinstance(t, ast.Call) and unparse(t.func) == "bool" and len(
                t.args) == 1:
            t = t.args[0]
        if isinstance(t, ast.BinOp) and isinstance(t.op, ast.BitAnd):
            for (a_, b_) in ((t.left, t.right), (t.right, t.left)):
                if isinstance(b_, ast.Constant) and type(b_.value) is int \
                        and b_.value > 0 and b_.value & (b_.value - 1) == 0:
                    if b_.value == 1 and isinstance(a_, ast.BinOp) and \
                            isinstance(a_.op, ast.RShift) and isinstance(
                                a_.right, ast.Constant):
                        j, m = a_.right.value, a_.left
                    else:
                        j, m = b_.value.bit_length() - 1, a_
                    break
        if m is None or type(j) is not int:
            return None
        # byte positions of M
        terms = []

        def split(x):
            if isinstance(x, ast.BinOp) and isinstance(
                    x.op, (ast.BitOr, ast.Add)):
                split(x.left)
                split(x.right)
            else:
                terms.append(x)
        split(m)
        pos = {}
        for x in terms:
            k = 0
            if isinstance(x, ast.BinOp) and isinstance(
                    x.right, ast.Constant) and type(x.right.value) is int:
                if isinstance(x.op, ast.LShift) and x.right.value % 8 == 0:
                    k, x = x.right.value // 8, x.left
                elif isinstance(x.op, ast.Mult) and x.right.value == 256:
                    k, x = 1, x.left
                else:
                    return None
            tx = unparse(x)
            names = {"%s.raw_value.as_integer" % L: L,
                     "%s.raw_value.as_integer" % H: H}
            if tx not in names or k in pos:
                return None
            pos[k] = names[tx]
        if j // 8 in pos and 0 <= j < 16:
            return (pos[j // 8], j % 8)
        return None

    def bit_source(test):
        """(answer name, bit) read by a test `W[j]`, W resolved."""
        r_ = int_bit_source(test)
        if r_ is not None:
            return r_
        if isinstance(test, ast.Name) and test.id in defs and isinstance(
                defs[test.id], ast.Subscript):
            # `member = W[j]` bound once (per unrolled iteration)
            test = astq.resolve(fx, defs[test.id], defs={
                k_: v_ for k_, v_ in defs.items() if k_ != test.id})
        if not (isinstance(test, ast.Subscript) and isinstance(
                test.slice, ast.Constant) and type(test.slice.value) is int):
            return None
        j = test.slice.value
        w = astq.resolve(fx, test.value, defs=defs)
        t = unparse(w)
        if t == "%s.raw_value" % L and 0 <= j < 8:
            return (L, j)
        if t == "%s.raw_value" % H and 0 <= j < 8:
            return (H, j)
        if isinstance(w, ast.BinOp) and isinstance(w.op, ast.Add):
            # Frame.__add__: the left operand lands in the high bits (C05)
            lt, rt = unparse(w.left), unparse(w.right)
            names = {"%s.raw_value" % L: L, "%s.raw_value" % H: H}
            if lt in names and rt in names and lt != rt and 0 <= j < 16:
                return (names[rt], j) if j < 8 else (names[lt], j - 8)
        return None
    got = set()
    problems = []
    acc = set()
    for c_ in ast.walk(fx):
        if not (isinstance(c_, ast.Call) and isinstance(
                c_.func, ast.Attribute) and c_.func.attr == "add" and
                len(c_.args) == 1 and isinstance(c_.func.value, ast.Name)):
            continue
        acc.add(c_.func.value.id)
        grp = astq.resolve(fx, c_.args[0], defs=defs)
        if not (isinstance(grp, ast.Constant) and type(grp.value) is int):
            problems.append("group `%s` is not a constant after unrolling"
                            % unparse(c_.args[0]))
            continue
        # the enclosing tests
        tests = []
        p_, child = parent.get(id(c_)), c_
        while p_ is not None and p_ is not fx:
            if isinstance(p_, ast.If):
                inbody = any(child is s_ for s_ in p_.body)
                tests.append((p_.test, inbody))
            elif isinstance(p_, (ast.For, ast.While, ast.Try)):
                problems.append("group %d is added inside a %s the rule "
                                "cannot unroll" % (grp.value,
                                                   type(p_).__name__))
            child, p_ = p_, parent.get(id(p_))
        # enclosing tests that are not about a bit (the answer checks of a
        # nested if/else pyramid) do not decide which group is reported
        bit_tests = [(t_, b_) for (t_, b_) in tests
                     if bit_source(t_) is not None]
        other = [(t_, b_) for (t_, b_) in tests if bit_source(t_) is None]
        if other and all("raw_value" in unparse(t_) for (t_, b_) in other):
            tests = bit_tests
        if len(tests) != 1 or not tests[0][1]:
            problems.append("group %d is not added under exactly one bit "
                            "test" % grp.value)
            continue
        src = bit_source(tests[0][0])
        if src is None:
            problems.append("group %d is added under `%s`, which is not a "
                            "bit of one of the two answers" % (
                                grp.value, unparse(tests[0][0])))
            continue
        got.add((src[0], src[1], grp.value))
    want = {(L, k, k) for k in range(8)} | {(H, k, k + 8) for k in range(8)}
    if not got and not problems and any(
            isinstance(x, ast.Call) and isinstance(
                x.func, (ast.Name, ast.Attribute)) and unparse(
                    x.func).split(".")[-1] in (
                        "compress", "filter", "filterfalse", "takewhile",
                        "dropwhile", "starmap", "reduce", "accumulate")
            for x in ast.walk(fn)):
        # the membership is built by an iterator tool the unroller does not
        # interpret: nothing was derived, which is not the same as wrong
        raise AnalysisError(
            "%s builds the group set with an iterator tool (itertools / "
            "filter) the rule does not unroll; no (answer, bit, group) "
            "triple could be derived" % G)
    run.ob("R-CONCAT", G + "#high+low", not problems and {
        (a_, b_, g_) for (a_, b_, g_) in got if g_ >= 8} == {
            w_ for w_ in want if w_[2] >= 8} and {
        (a_, b_, g_) for (a_, b_, g_) in got if g_ < 8} == {
            w_ for w_ in want if w_[2] < 8},
           "bit k of the 0-7 answer must be group k and bit k of the 8-15 "
           "answer group k + 8 (in a concatenation the left operand lands "
           "in the high bits); found %s%s" % (
               sorted(got - want) or "missing " + str(sorted(want - got)),
               "; " + "; ".join(problems) if problems else ""),
           where(mod, fn), sample={"rule": "R-CONCAT", "high": H, "low": L,
                                   "pairs": len(got)})
    run.ob("R-CONCAT", G + "#bit-i-is-group-i", got == want and
           not problems,
           "each of the 16 groups must be reported exactly when its bit is "
           "set: %d of 16 (answer, bit, group) triples as expected" % len(
               got & want), where(mod, fn))
    rets = [unparse(astq.resolve(fx, n.value, defs=defs))
            for n in ast.walk(fx) if isinstance(n, ast.Return)
            and n.value is not None]
    inits = [unparse(n.value) for n in ast.walk(fx) if isinstance(
        n, ast.Assign) and len(n.targets) == 1 and isinstance(
            n.targets[0], ast.Name) and n.targets[0].id in acc]
    run.ob("R-CONCAT", G + "#returns-set", len(acc) == 1 and rets == list(
        acc) and inits == ["set()"],
           "QueryGroups must return the accumulated set (%s, initialised %s),"
           " returns %s" % (sorted(acc), inits, rets), where(mod, fn))


def _check_setgroups(run, world, mod, S, cfg, ys, fn):
    run.rule("R-SETGRP", "short/int destination: add groups-existing, remove "
             "existing-groups with existing read from the same address; "
             "otherwise each of the 16 groups written by exactly one of "
             "Add/Remove chosen by membership")
    addr = fn.args.args[0].arg
    grp = fn.args.args[1].arg
    adds = [y for y in ys if _is(y, "AddToGroup")]
    rems = [y for y in ys if _is(y, "RemoveFromGroup")]
    qg = [y for y in ys if y.is_from and y.fn and y.fn[1].name ==
          "QueryGroups"]
    run.floor("SetGroups add/remove yields", len(adds) + len(rems), 2)
    # a read-back that fails (silent or garbled unit) stops the sequence with
    # DALISequenceError: nothing in SetGroups swallows it
    for t_ in ast.walk(fn):
        if not isinstance(t_, ast.Try):
            continue
        for h_ in t_.handlers:
            names_ = ["<bare>"] if h_.type is None else [
                unparse(e_).split(".")[-1] for e_ in (
                    h_.type.elts if isinstance(h_.type, ast.Tuple)
                    else [h_.type])]
            if set(names_) & {"DALISequenceError", "Exception",
                              "BaseException", "<bare>"}:
                reraises = any(isinstance(x_, ast.Raise)
                               for x_ in ast.walk(h_))
                run.ob("R-SETGRP", S + "#read-back-failure-propagates",
                       reraises,
                       "SetGroups catches %s and goes on: against a unit "
                       "that does not answer the read-back it writes blindly "
                       "instead of stopping with DALISequenceError" % (
                           "/".join(names_)), where(mod, h_))
    if qg and any(n.kind == "test" and isinstance(n.ast, ast.Compare) and
                  isinstance(n.ast.ops[0], (ast.Is, ast.IsNot)) and
                  isinstance(n.ast.left, ast.Name) and isinstance(
                      qg[0].node.ast, ast.Assign) and any(
                          isinstance(t_, ast.Name) and
                          t_.id == n.ast.left.id
                          for t_ in qg[0].node.ast.targets)
                  for n in cfg.reachable):
        # read-modify-write chosen by `existing is not None` after a
        # conditional read: the mode is then a fact about a value, which the
        # formulas over the addressing-mode tests do not carry
        raise AnalysisError(
            "SetGroups decides between the two ways of writing by testing "
            "the membership it read for None; the rule reads the choice "
            "from tests of the address's type")
    if not qg and any(_is(y, "QueryGroupsZeroToSeven") or
                      _is(y, "QueryGroupsEightToFifteen") for y in ys):
        # the read-back written out in place of `yield from QueryGroups()`:
        # its answer checks become conditions of every later command, which
        # this rule's formulas over the addressing mode do not separate
        raise AnalysisError(
            "SetGroups reads the current membership with the group queries "
            "written out in place (no `yield from QueryGroups(...)`); the "
            "rule cannot tell the read-back's own answer checks from "
            "conditions on what is written")
    ok = len(qg) == 1 and qg[0].call and unparse(qg[0].call.args[0]) == addr
    existing = None
    if ok:
        a = qg[0].node.ast
        if isinstance(a, ast.Assign) and isinstance(a.targets[0], ast.Name):
            existing = a.targets[0].id
    run.ob("R-SETGRP", S + "#reads-same-address", ok and existing is not None,
           "current membership must be read with QueryGroups(%s)" % addr,
           where(mod, fn))
    # classify each add/remove by its enclosing for loop
    diff_add = diff_rem = full_add = full_rem = 0
    for y in adds + rems:
        loop = _enclosing_for(y.node)
        if loop is None:
            run.ob("R-SETGRP", S + "#" + y.name + "-outside-loop", False,
                   "%s outside a loop" % y.name, where(mod, y.node))
            continue
        i = unparse(loop.target)
        args_ok = y.call and len(y.call.args) == 2 and unparse(
            y.call.args[0]) == addr and unparse(y.call.args[1]) == i
        it = unparse(loop.iter)
        is_add = _is(y, "AddToGroup")
        if it == "%s - %s" % (grp, existing):
            kind = "diff_add"
            good = is_add
            diff_add += 1
        elif it == "%s - %s" % (existing, grp):
            kind = "diff_rem"
            good = not is_add
            diff_rem += 1
        elif it in ("range(0, 16)", "range(16)"):
            kind = "full"
            # chosen by membership: Add exactly when i is in the wanted set
            mem = _project(_path_conds(cfg, y.node, world),
                           lambda a: a[1] == "%s in %s" % (i, grp))
            want = frozenset([frozenset([("p", "%s in %s" % (i, grp),
                                          is_add)])])
            good = pred.equivalent(mem, want)[0]
            if is_add:
                full_add += 1
            else:
                full_rem += 1
        else:
            kind, good = "other", False
        run.ob("R-SETGRP", "%s#%s[%s]" % (S, y.name, kind),
               bool(args_ok and good),
               "%s over `%s` with args %s is not the required change set"
               % (y.name, it, [unparse(a) for a in (y.call.args if y.call
                                                    else [])]),
               where(mod, y.node),
               sample={"rule": "R-SETGRP", "yield": unparse(y.expr),
                       "iter": it, "kind": kind})
    run.ob("R-SETGRP", S + "#both-modes",
           diff_add == 1 and diff_rem == 1 and full_add == 1
           and full_rem == 1,
           "expected one add and one remove in each mode (diff: %d/%d, "
           "full: %d/%d)" % (diff_add, diff_rem, full_add, full_rem),
           where(mod, fn))
    # mode selection: read-modify-write exactly for a short address or an int
    isS = ("p", "isinstance(%s, dali.address.GearShort)" % addr, True)
    isI = ("p", "isinstance(%s, int)" % addr, True)
    rmw = frozenset([frozenset([isS]), frozenset([isI])])
    blind = frozenset([frozenset([pred.neg_atom(isS), pred.neg_atom(isI)])])
    for y in adds + rems + qg:
        loop = _enclosing_for(y.node)
        it = unparse(loop.iter) if loop is not None else ""
        full = it in ("range(0, 16)", "range(16)")
        got = _project(_path_conds(cfg, y.node, world),
                       lambda a: a[1].startswith("isinstance(%s, " % addr))
        want = blind if full else rmw
        ok = pred.equivalent(got, want)[0]
        if ok and loop is not None and not full and not y.is_from:
            # nothing but the mode decides whether the differences are
            # written (a test of the difference itself being non-empty
            # changes nothing and is set aside)
            lnode = [n for n in cfg.reachable if n.kind == "for" and
                     n.ast is loop]
            if lnode:
                # (so does a test whether the request equals the membership
                # read: when it does both differences are empty, and leaving
                # early writes exactly what the loops would have written)
                same = {"%s == %s" % (grp, existing),
                        "%s == %s" % (existing, grp),
                        "%s != %s" % (grp, existing),
                        "%s != %s" % (existing, grp)}
                allc = _project(_path_conds(cfg, lnode[0], world),
                                lambda a: a[1] != it and a[1] not in same)
                okall, _w = pred.equivalent(allc, want)
                run.ob("R-SETGRP", "%s#only-mode-guards:%s" % (S, y.name),
                       okall,
                       "the loop over `%s` is reached when %s: besides the "
                       "addressing mode nothing may decide whether the "
                       "membership changes are written (an early exit "
                       "leaves groups set that were not requested)" % (
                           it, pred.show(allc) or "never"),
                       where(mod, lnode[0]))
        if ok and full and loop is not None:
            # in the blind write nothing but the mode and membership of the
            # group in the request decides what is sent for a group: each of
            # the 16 gets its Add or its Remove
            i_ = unparse(loop.target)
            memb = ("p", "%s in %s" % (i_, grp), True)
            is_add_ = _is(y, "AddToGroup")
            allc = _project(_path_conds(cfg, y.node, world), lambda a: True)
            want_all = frozenset([frozenset(
                [pred.neg_atom(isS), pred.neg_atom(isI),
                 memb if is_add_ else pred.neg_atom(memb)])])
            okall, _w = pred.equivalent(allc, want_all)
            run.ob("R-SETGRP", "%s#only-membership-decides:%s" % (S, y.name),
                   okall,
                   "in the blind write %s is sent when %s; it must be sent "
                   "for every group that is %s the request and for no other "
                   "reason withheld (a group skipped keeps whatever "
                   "membership the units had)" % (
                       y.name, pred.show(allc) or "never",
                       "in" if is_add_ else "not in"), where(mod, y.node))
        run.ob("R-SETGRP", "%s#mode-test:%s[%s]" % (
            S, y.name if not y.is_from else "QueryGroups",
            "full" if full else "diff"), ok,
            "read-modify-write must be chosen exactly for a gear short "
            "address or an int and the blind 16-group write otherwise; this "
            "command is sent when %s" % (pred.show(got) or "never"),
            where(mod, y.node))


def _cond_tree(t, world):
    """Formula tree of an atomic CFG test."""
    if isinstance(t, ast.UnaryOp) and isinstance(t.op, ast.Not):
        return ("not", _cond_tree(t.operand, world))
    if isinstance(t, ast.Call) and unparse(t.func) == "isinstance" and len(
            t.args) == 2:
        a1 = t.args[1]
        elts = a1.elts if isinstance(a1, ast.Tuple) else [a1]
        alts = []
        for e in elts:
            c = world.resolve_class(MOD, e)
            alts.append(("atom", ("p", "isinstance(%s, %s)" % (
                unparse(t.args[0]), c.qname if c else unparse(e)), True)))
        return alts[0] if len(alts) == 1 else ("or", alts)
    if isinstance(t, ast.Compare) and len(t.ops) == 1 and isinstance(
            t.ops[0], (ast.In, ast.NotIn)):
        f = ("atom", ("p", "%s in %s" % (unparse(t.left), unparse(
            t.comparators[0])), True))
        return f if isinstance(t.ops[0], ast.In) else ("not", f)
    return ("atom", ("p", unparse(t, 200), True))


def _path_conds(cfg, target, world, limit=4000):
    """DNF of the branch conditions over the acyclic paths from the entry
    to `target`."""
    out = []
    count = [0]

    def walk(n, conds, onpath):
        count[0] += 1
        if count[0] > limit:
            raise AnalysisError("R-SETGRP: too many paths")
        if n is target:
            out.append(pred.dnf(("and", conds)))
            return
        if n.id in onpath:
            return
        for (l, m) in n.succ:
            if l == "exc":
                continue
            c = conds
            if n.kind == "test" and l in ("T", "F"):
                t = _cond_tree(n.ast, world)
                c = conds + [t if l == "T" else ("not", t)]
            walk(m, c, onpath | {n.id})
    walk(cfg.entry, [], frozenset())
    return pred.union(*out) if out else frozenset()


def _project(d, keep):
    return frozenset(frozenset(a for a in c if keep(a)) for c in d)


def _enclosing_for(node):
    a = node.ast
    p = getattr(a, "_parent", None)
    while p is not None:
        if isinstance(p, ast.For):
            return p
        if isinstance(p, (ast.FunctionDef, ast.AsyncFunctionDef)):
            return None
        p = getattr(p, "_parent", None)
    return None


def _guard_of(node):
    """(test expr, label) of the unique test predecessor, if any."""
    preds = node.pred
    if len(preds) == 1 and preds[0][1].kind == "test":
        return (preds[0][1].ast, preds[0][0])
    return None
