"""C13 - control-device sequences: R-DTRSYM, R-RDISC (value form),
R-DEVSEQ-ORDER, R-DEVSEQ-QUIET, R-DEVSEQ-RANGE (DESIGN.md section 3, C13)."""
import ast

from ..core import AnalysisError, unparse, where
from ..cfg import forward, forward_worlds, _walk_no_nested, path_str
from ..fold import Folder, UNKNOWN
from ..normal import normalise
from ..cfg import forward_worlds
from ..seq import cond_edge_transfer, kill_conds_on_assign
from ..seq import (gen_cfg, yields_of, _is_attr_chain, assigned_names,
                   rdisc_facts_transfer, enumerate_yield_paths,
                   response_class_of, cond_edge_transfer,
                   kill_conds_on_assign)

SEQ = "dali.device.sequences"
HLP = "dali.device.helpers"
DG = "dali.device.general."


def _q(y):
    return y.cls.qname if y.cls is not None else None


_CANON = {}


def _short(q):
    s = q.split(".")[-1] if q else "?"
    return _CANON.get(s, s)


# ---------------------------------------------------------------------------
def check_value_discipline(run, world, modname, fq, cfg, ys, mod):
    """Every read of X.value / X.raw_value..., X bound from a query yield, is
    dominated by check_bad_rsp(X) == False (or the None/error idioms)."""
    resp_vars = {y.target for y in ys if y.target and not y.is_from}
    if not resp_vars:
        return 0
    transfer, edge = rdisc_facts_transfer(resp_vars)
    IN = forward(cfg, transfer, must=True, edge_transfer=edge)
    ybind = {y.node.id: y for y in ys if y.target and not y.is_from}

    def tdefs(node, st):
        y = ybind.get(node.id)
        if y is not None:
            st = frozenset(f for f in st if f[0] != y.target) | {
                (y.target, y.name)}
        elif node.kind == "stmt" and node.ast is not None:
            names = assigned_names(node.ast)
            if names:
                st = frozenset(f for f in st if f[0] not in names) | {
                    (nm, "<expr>") for nm in names if nm in resp_vars}
        return st
    DEFS = forward(cfg, tdefs, must=False)
    n = 0
    for nd in cfg.reachable:
        if nd.ast is None or nd.kind not in ("stmt", "test", "for"):
            continue
        st = IN.get(nd.id)
        if st is None:
            continue
        a = nd.ast.iter if nd.kind == "for" else nd.ast
        for sub in _walk_no_nested(a):
            if not isinstance(sub, ast.Attribute):
                continue
            for X in resp_vars:
                if sub.attr == "value" and isinstance(
                        sub.value, ast.Name) and sub.value.id == X:
                    srcs = sorted(f[1] for f in DEFS.get(nd.id, ())
                                  if f[0] == X)
                    if srcs and all(s == "<expr>" for s in srcs):
                        continue   # X no longer holds a response here
                    n += 1
                    ok = ("good", X) in st
                    run.ob("R-RDISC", "%s#%s<-%s.value" % (
                        fq, X, "|".join(srcs) or "?"), ok,
                        "%s.value is read without a dominating "
                        "check_bad_rsp(%s): a missing or garbled answer "
                        "(or a '(missing)' marker string) is used as data"
                        % (X, X), "%s:%s" % (mod.relpath, nd.lineno),
                        sample={"rule": "R-RDISC", "use": unparse(sub),
                                "line": nd.lineno,
                                "facts": sorted(map(str, st))})
    return n


def check(run, repo, world):
    run.explanation = (
        "Decides on the generator CFGs of the control-device sequences: "
        "(R-DTRSYM) the guard under which DTRk is loaded is the same "
        "predicate as the guard of the read-back of byte k and equals "
        "`width > 8k`; byte lanes lo/md/hi go to DTR0/1/2 and come back from "
        "QueryEventFilterL/M/H in the same order; (R-RDISC) no .value is "
        "read without check_bad_rsp; (R-DEVSEQ-ORDER) resolved command order "
        "on every feasible path, validation before the first yield; "
        "(R-DEVSEQ-QUIET) the scan is bracketed by quiescent mode, every bad "
        "answer leads to a skip, add_type only with the current "
        "address/instance after enabled+type answers; (R-DEVSEQ-RANGE) the "
        "default scan range folds to all 64 addresses; (R-INPUT-ARITH) "
        "query_input_value reads ceil(R/8)-1 latch bytes MSB first and "
        "drops (8 - R mod 8) mod 8 bits, as closed forms in R = 8q + r for "
        "each residue r with q symbolic.")
    run.assumptions += ["check_bad_rsp(r) is False only for a clean answer "
                        "with a usable value (decided separately below)"]
    smod = repo.mod(SEQ)
    hmod = repo.mod(HLP)
    nuse = 0
    # the sequences use the standard's short names, which are aliases
    _CANON.clear()
    for alias in ("QueryEventFilterL", "QueryEventFilterM",
                  "QueryEventFilterH"):
        b = world.lookup("dali.device.general", alias)
        if b is None or b.kind != "class":
            raise AnalysisError("anchor dali.device.general.%s vanished"
                                % alias)
        _CANON[b.value.name] = alias

    # ---- SetEventFilters ---------------------------------------------------
    m, fn, _ = world.func(SEQ + ".SetEventFilters")
    from ..normal import scalarise_byte_buffers
    fn = scalarise_byte_buffers(fn)
    fn = normalise(fn, world, SEQ, primitives=("check_bad_rsp",),
                   aliases="params")
    F = SEQ + ".SetEventFilters"
    cfg = gen_cfg(fn, F)
    ys = yields_of(cfg, world, SEQ)
    run.floor("SetEventFilters yields", len(ys), 7)
    nuse += check_value_discipline(run, world, SEQ, F, cfg, ys, smod)
    _check_filters(run, world, smod, F, cfg, ys, fn, setter=True)

    # ---- QueryEventFilters -------------------------------------------------
    m, fn, _ = world.func(SEQ + ".QueryEventFilters")
    fn = scalarise_byte_buffers(fn)
    fn = normalise(fn, world, SEQ, primitives=("check_bad_rsp",),
                   aliases="params")
    F = SEQ + ".QueryEventFilters"
    cfg = gen_cfg(fn, F)
    ys = yields_of(cfg, world, SEQ)
    nuse += check_value_discipline(run, world, SEQ, F, cfg, ys, smod)
    _check_filters(run, world, smod, F, cfg, ys, fn, setter=False)

    # ---- SetEventSchemes ---------------------------------------------------
    m, fn, _ = world.func(SEQ + ".SetEventSchemes")
    fn = normalise(fn, world, SEQ, primitives=("check_bad_rsp",),
                   aliases="params")
    from ..normal import reduce_thunk_calls
    fn = reduce_thunk_calls(fn)
    F = SEQ + ".SetEventSchemes"
    cfg = gen_cfg(fn, F)
    ys = yields_of(cfg, world, SEQ)
    nuse += check_value_discipline(run, world, SEQ, F, cfg, ys, smod)
    _check_schemes(run, world, smod, F, cfg, ys, fn)

    # ---- no memory between runs -------------------------------------------
    from ..seq import check_stateless
    check_stateless(run, "R-DEVSEQ-STATELESS", smod, [
        (SEQ + "." + n_.name, n_) for n_ in smod.tree.body
        if isinstance(n_, ast.FunctionDef)], 4)
    # ---- query_input_value -------------------------------------------------
    m, fn, _ = world.func(SEQ + ".query_input_value")
    if any(isinstance(n, ast.AugAssign) and isinstance(n.value, ast.IfExp)
           for n in ast.walk(fn)):
        from ..normal import split_conditional_augassign
        from ..inline import acopy as _acp
        fq = _acp(fn)
        if split_conditional_augassign(fq):
            fn = fq
    fn = normalise(fn, world, SEQ, primitives=("check_bad_rsp",),
                   aliases="params")
    F = SEQ + ".query_input_value"
    cfg = gen_cfg(fn, F)
    ys = yields_of(cfg, world, SEQ)
    nuse += check_value_discipline(run, world, SEQ, F, cfg, ys, smod)
    # an answer read through raw_value instead of value needs the framing
    # error test as well as the None test (the rule of the memory reads)
    from ..seq import check_rdisc
    check_rdisc(run, world, SEQ, F, cfg, ys, smod)
    _check_input_value(run, world, smod, F, cfg, ys, fn)
    _check_input_value_arith(run, smod, F, fn)

    # ---- autodiscover ------------------------------------------------------
    r = world.method(HLP + ".DeviceInstanceTypeMapper", "autodiscover")
    fn = r[2]
    F = HLP + ".DeviceInstanceTypeMapper.autodiscover"
    if any(isinstance(n_, ast.Call) and isinstance(n_.func, ast.Name) and
           n_.func.id == "map" for n_ in ast.walk(fn)):
        from ..normal import expand_map_loops
        from ..inline import acopy as _acm
        fm = _acm(fn)
        if expand_map_loops(fm):
            fn = fm
    fn = normalise(fn, world, HLP, world.cls(
        HLP + ".DeviceInstanceTypeMapper"), primitives=(
            "add_type", "get_type", "clear", "check_bad_rsp"), aliases=False)
    from ..normal import inline_test_locals
    fn = inline_test_locals(fn)
    cfg = gen_cfg(fn, F)
    ys = yields_of(cfg, world, HLP)
    run.floor("autodiscover yields", len(ys), 6)
    nuse += check_value_discipline(run, world, HLP, F, cfg, ys, hmod)
    _check_autodiscover(run, world, hmod, F, cfg, ys, fn)
    run.floor("R-RDISC .value use sites", nuse, 12)

    # ---- check_bad_rsp itself ----------------------------------------------
    _check_bad_rsp(run, world, hmod)


# ---------------------------------------------------------------------------
def _guard_expr(node):
    """Innermost enclosing `if` test (and branch) of a CFG stmt node, walking
    the AST parents up to the function."""
    a = node.ast
    out = []
    child = a
    p = getattr(a, "_parent", None)
    while p is not None and not isinstance(p, (ast.FunctionDef,
                                               ast.AsyncFunctionDef)):
        if isinstance(p, ast.If):
            out.append((p.test, child in p.body))
        child = p
        p = getattr(p, "_parent", None)
    return out


def _defs(cfg, name):
    out = []
    for n in cfg.reachable:
        if n.kind == "stmt" and isinstance(n.ast, ast.Assign):
            for t in n.ast.targets:
                if isinstance(t, ast.Name) and t.id == name:
                    out.append(n.ast.value)
    return out


def _norm_width_guard(e, cfg, depth=0):
    """Normalise a guard to a frozenset of alternatives; each alternative is
    ('width>', k) / ('const', bool) / ('other', text).  Names are replaced by
    their definitions (copy propagation)."""
    if isinstance(e, ast.Name) and depth < 3:
        ds = _defs(cfg, e.id)
        if ds:
            out = set()
            for d in ds:
                out |= _norm_width_guard(d, cfg, depth + 1)
            return frozenset(out)
    if isinstance(e, ast.Constant) and isinstance(e.value, bool):
        return frozenset([("const", e.value)])
    if isinstance(e, ast.Compare) and len(e.ops) == 1 and isinstance(
            e.comparators[0], ast.Constant) and isinstance(
                e.comparators[0].value, int):
        l = e.left
        c = e.comparators[0].value
        if isinstance(l, ast.Call) and isinstance(l.func, ast.Attribute) \
                and l.func.attr == "dali_width" and not l.args:
            if isinstance(e.ops[0], ast.Gt):
                return frozenset([("width>", c)])
            if isinstance(e.ops[0], ast.GtE):
                return frozenset([("width>", c - 1)])
        if isinstance(l, ast.Name):
            inner = _norm_width_guard(l, cfg, depth + 1)
            if all(k[0] in ("width>", "const") for k in inner):
                # comparison of a boolean-valued name with an int constant
                return frozenset([("boolcmp", "%s %s %d" % (
                    l.id, type(e.ops[0]).__name__, c))])
    return frozenset([("other", unparse(e))])


def _byte_positions(e):
    """{byte position: name} for an expression that places plain names at
    byte positions with `|` / `+` and `<< 8k` / `* 256**k`; None if it is
    not of that form."""
    terms = []

    def split(x):
        if isinstance(x, ast.BinOp) and isinstance(x.op, (ast.BitOr,
                                                          ast.Add)):
            split(x.left)
            split(x.right)
        else:
            terms.append(x)
    split(e)
    if len(terms) < 2:
        return None
    out = {}
    for t in terms:
        k = 0
        if isinstance(t, ast.BinOp) and isinstance(
                t.right, ast.Constant) and type(t.right.value) is int:
            c = t.right.value
            if isinstance(t.op, ast.LShift) and c % 8 == 0:
                k, t = c // 8, t.left
            elif isinstance(t.op, ast.Mult) and c in (256, 65536, 16777216):
                k, t = {256: 1, 65536: 2, 16777216: 3}[c], t.left
            else:
                return None
        if not isinstance(t, ast.Name) or k in out:
            return None
        out[k] = t.id
    return out


def _check_filters(run, world, mod, F, cfg, ys, fn, setter):
    run.rule("R-DTRSYM", "DTRk load guard == read-back guard == "
             "(dali_width() > 8k); byte lanes little-endian lo/md/hi")
    by = {}
    for y in ys:
        by.setdefault(_short(_q(y)), []).append(y)
    want_guard = {"DTR1": 8, "DTR2": 16, "QueryEventFilterM": 8,
                  "QueryEventFilterH": 16}
    # the condition under which each command is sent, as a formula over
    # W = <filter>.dali_width() and isinstance(<filter>, InstanceEventFilter)
    # (path summaries with locals substituted; other tests projected away)
    from .. import paths, pred

    def lin(e):
        if isinstance(e, ast.Constant) and type(e.value) is int:
            return pred.Lin.const(e.value)
        if isinstance(e, ast.Call) and isinstance(e.func, ast.Attribute) \
                and e.func.attr == "dali_width" and not e.args and \
                not e.keywords:
            return pred.Lin.sym("W")
        return None

    def prop(e):
        if isinstance(e, ast.Call) and unparse(e.func) == "isinstance" and \
                len(e.args) == 2:
            c = world.resolve_class(SEQ, e.args[1])
            if c is not None and c.name == "InstanceEventFilter":
                return "is-filter(%s)" % unparse(e.args[0])
        return None
    P = pred.Parser(lin, prop)
    try:
        summ = paths.summaries(fn, max_paths=20000)
    except paths.Unsupported as e:
        raise AnalysisError("R-DTRSYM: %s is not loop-free after "
                            "normalisation: %s" % (F, e))
    sent = {}
    for pth in summ:
        for eff in pth.effects:
            if eff[0] != "yield" or not isinstance(eff[1], ast.Call):
                continue
            c = world.resolve_class(SEQ, eff[1].func)
            if c is None:
                continue
            nm = _CANON.get(c.name, c.name)
            trees = []
            for (t, b_) in eff[2]:
                try:
                    tr = P.tree(t)
                except pred.Unrecognised:
                    continue
                trees.append(tr if b_ else ("not", tr))
            d = pred.dnf(("and", trees))
            d = frozenset(frozenset(
                a for a in c_ if a[0] == "le" or a[1].startswith(
                    "is-filter(")) for c_ in d)
            sent[nm] = pred.union(sent.get(nm, frozenset()), d)
    fparam = fn.args.args[2].arg
    isf = ("atom", ("p", "is-filter(%s)" % fparam, True))
    guards = {}
    for name, k in want_guard.items():
        if name not in sent:
            continue
        wide = ("atom", ("le", "0", "W", k + 1))
        want = pred.dnf(("and", [isf, wide]) if setter else wide)
        got = sent[name]
        guards[name] = got
        eq, wit = pred.equivalent(got, want)
        ys_ = by.get(name, [])
        run.ob("R-DTRSYM", "%s#%s-guard" % (F, name), eq,
               "%s is sent when %s; it must be sent exactly when %s "
               "(byte %d of the filter exists)" % (
                   name, pred.show(got) or "always", pred.show(want),
                   k // 8), where(mod, ys_[0].node) if ys_ else where(mod, fn),
               sample={"rule": "R-DTRSYM", "command": name,
                       "sent_when": pred.show(got) or "always"})
    if setter:
        for a_, b_ in (("DTR1", "QueryEventFilterM"),
                       ("DTR2", "QueryEventFilterH")):
            if a_ in guards and b_ in guards:
                run.ob("R-DTRSYM", "%s#%s~%s" % (F, a_, b_),
                       pred.equivalent(guards[a_], guards[b_])[0],
                       "load guard of %s (%s) differs from read-back guard "
                       "of %s (%s)" % (a_, pred.show(guards[a_]), b_,
                                       pred.show(guards[b_])),
                       where(mod, fn))
        for name in ("DTR0", "SetEventFilter", "QueryEventFilterL"):
            if name in sent:
                eq = pred.equivalent(sent[name], pred.dnf(("and", [])))[0]
                run.ob("R-DTRSYM", "%s#%s-unconditional" % (F, name), eq,
                       "%s must not depend on the filter width; it is sent "
                       "when %s" % (name, pred.show(sent[name])),
                       where(mod, fn))
        for name in ("DTR0", "DTR1", "DTR2", "SetEventFilter"):
            run.ob("R-DTRSYM", "%s#has-%s" % (F, name), name in by,
                   "%s is never issued" % name, where(mod, fn))
    # a missing / garbled answer to any of the read-back queries ends the
    # sequence with None: from the "bad" edge of the check no further command
    # is sent and no value is returned
    for name in ("QueryEventFilterL", "QueryEventFilterM",
                 "QueryEventFilterH"):
        for y in by.get(name, []):
            if not y.target:
                continue
            tests = [n for n in cfg.reachable if n.kind == "test" and
                     isinstance(n.ast, ast.Call) and unparse(
                         n.ast.func) == "check_bad_rsp" and n.ast.args and
                     unparse(n.ast.args[0]) == y.target and
                     _nearest_yield_before(n, ys) is y]
            okb = bool(tests)
            # path-sensitive: from the "bad" edge no command is reached and
            # nothing but None returned (a helper that turns a bad answer
            # into None, tested by the caller, is followed through the
            # assignments)
            tids = {tn.id for tn in tests}
            cet_ = cond_edge_transfer()

            def bedge(src, label, dst, st, tids=tids, cet_=cet_):
                st = cet_(src, label, dst, st)
                if st is None:
                    return None
                if src.id in tids and label == "T":
                    st = st | {"bad-answer"}
                if src.kind == "test" and isinstance(
                        src.ast, ast.Call) and unparse(
                            src.ast.func) == "check_bad_rsp" and \
                        src.ast.args and label == "F":
                    # an answer that is not bad is an object (R-BADRSP)
                    st = st | {("cond", "%s is None" % unparse(
                        src.ast.args[0]), False)}
                return st
            WB = forward_worlds(cfg, kill_conds_on_assign, bedge)
            for y2 in ys:
                if WB.worlds_with(y2.node, lambda w: "bad-answer" in w):
                    okb = False
            for n in cfg.reachable:
                if n.kind == "stmt" and isinstance(n.ast, ast.Return) and \
                        not (n.ast.value is None or (isinstance(
                            n.ast.value, ast.Constant) and
                            n.ast.value.value is None)) and WB.worlds_with(
                                n, lambda w: "bad-answer" in w):
                    okb = False
            run.ob("R-DTRSYM", "%s#%s-bad-answer-ends" % (F, name), okb,
                   "a missing or garbled answer to %s must end the sequence "
                   "with None; here the sequence goes on and the byte is "
                   "read as whatever the variable held (0)" % name,
                   where(mod, y.node))
    for name in ("QueryEventFilterL", "QueryEventFilterM",
                 "QueryEventFilterH"):
        run.ob("R-DTRSYM", "%s#has-%s" % (F, name), name in by,
               "%s is never issued" % name, where(mod, fn))

    # lanes: split
    lanes = {}
    if setter:
        for n in cfg.reachable:
            if n.kind == "stmt" and isinstance(n.ast, ast.Assign) and \
                    isinstance(n.ast.targets[0], ast.Tuple) and isinstance(
                        n.ast.value, ast.Call) and isinstance(
                            n.ast.value.func, ast.Attribute) and \
                    n.ast.value.func.attr == "to_bytes":
                c = n.ast.value
                ln = c.args[0] if c.args else None
                order = c.args[1] if len(c.args) > 1 else None
                for k in c.keywords:
                    if k.arg == "length":
                        ln = k.value
                    if k.arg == "byteorder":
                        order = k.value
                names = [t.id for t in n.ast.targets[0].elts
                         if isinstance(t, ast.Name)]
                if isinstance(ln, ast.Constant) and ln.value == 3 and \
                        isinstance(order, ast.Constant) and len(names) == 3:
                    seq = names if order.value == "little" else names[::-1]
                    for i, nm in enumerate(seq):
                        lanes[nm] = i
                    src = unparse(c.func.value)
                    run.ob("R-DTRSYM", F + "#split-source",
                           src == fn.args.args[2].arg,
                           "the bytes loaded are split from `%s`, not from "
                           "the filter argument" % src, where(mod, n))
        if not lanes and any(
                isinstance(c_, ast.Call) and isinstance(
                    c_.func, ast.Attribute) and c_.func.attr == "to_bytes"
                for c_ in ast.walk(fn)) and any(
                    isinstance(y_.arg(0), ast.Subscript)
                    for nm_ in ("DTR0", "DTR1", "DTR2")
                    for y_ in by.get(nm_, [])):
            # the three bytes kept in one buffer that is indexed for the
            # DTR loads and overwritten element by element on read-back:
            # which byte an element holds then depends on the stores made
            # so far, which this rule (names bound once to one byte) does
            # not follow
            raise AnalysisError(
                "%s keeps the filter bytes in an indexed buffer; the lane "
                "rule reads names bound by unpacking to_bytes(3, order) "
                "only" % F)
        for name, want in (("DTR0", 0), ("DTR1", 1), ("DTR2", 2)):
            for y in by.get(name, []):
                a = y.arg(0)
                got = lanes.get(a.id) if isinstance(a, ast.Name) else None
                run.ob("R-DTRSYM", "%s#%s-lane" % (F, name), got == want,
                       "%s is loaded with %s (byte %s of the filter), must "
                       "be byte %d" % (name, unparse(a) if a is not None
                                       else None, got, want),
                       where(mod, y.node))
    # reassembly: int.from_bytes((lo, md, hi), "little") with lo<-L.value ...
    asm = None
    asm_node = None
    for n in cfg.reachable:
        if n.kind == "stmt" and isinstance(n.ast, ast.Return) and \
                n.ast.value is not None:
            for c in _walk_no_nested(n.ast.value):
                if isinstance(c, ast.Call) and unparse(c.func) == \
                        "int.from_bytes" and c.args and isinstance(
                            c.args[0], (ast.Tuple, ast.List)):
                    order = c.args[1] if len(c.args) > 1 else None
                    for k in c.keywords:
                        if k.arg == "byteorder":
                            order = k.value
                    if isinstance(order, ast.Constant):
                        names = [unparse(x) for x in c.args[0].elts]
                        asm = (n, names if order.value == "little"
                               else names[::-1])
                        asm_node = c
            if asm is None:
                # the same number written with shifts: lo | md << 8 | hi << 16
                pos = _byte_positions(n.ast.value)
                pnode = n.ast.value
                if pos is None:
                    for c in _walk_no_nested(n.ast.value):
                        if isinstance(c, ast.BinOp):
                            pos = _byte_positions(c)
                            if pos is not None and len(pos) == 3:
                                pnode = c
                                break
                            pos = None
                if pos is not None and sorted(pos) == [0, 1, 2]:
                    asm = (n, [pos[0], pos[1], pos[2]])
                    asm_node = pnode
    run.ob("R-DTRSYM", F + "#reassembly", asm is not None and len(
        asm[1]) == 3, "no int.from_bytes((lo, md, hi), order) reassembly "
        "found in a return", where(mod, fn))
    if asm is not None and len(asm[1]) == 3:
        # what is handed back is the three bytes and nothing else: between
        # the reassembled number and the return there is only the conversion
        # to the filter type (a mask of all 24 bits changes nothing)
        why = _between_asm_and_return(asm[0].ast.value, asm_node)
        run.ob("R-DTRSYM", F + "#reassembled-value-returned-whole",
               why is None, "the reassembled filter bytes are changed "
               "before they are returned (%s): a set bit the device "
               "reported is not in the value the caller gets" % why,
               where(mod, asm[0]))
    if asm is not None and len(asm[1]) == 3:
        # each name's in-function re-definition comes from the matching query
        src_of = {}
        for y in ys:
            nm = _short(_q(y))
            if nm.startswith("QueryEventFilter") and y.target:
                # names the answer is copied to (the return value of an
                # inlined helper, the caller's variable)
                al = {y.target}
                grew = True
                while grew:
                    grew = False
                    for n in cfg.reachable:
                        if n.kind == "stmt" and isinstance(
                                n.ast, ast.Assign) and isinstance(
                                    n.ast.value, ast.Name) and \
                                n.ast.value.id in al and len(
                                    n.ast.targets) == 1 and isinstance(
                                        n.ast.targets[0], ast.Name) and \
                                n.ast.targets[0].id not in al:
                            al.add(n.ast.targets[0].id)
                            grew = True
                # the assignment `<v> = <target>.value` that follows
                for n in cfg.reachable:
                    if n.kind == "stmt" and isinstance(n.ast, ast.Assign) \
                            and any(_is_attr_chain(n.ast.value,
                                                   [a_, "value"])
                                    for a_ in al) and \
                            isinstance(n.ast.targets[0], ast.Name):
                        # nearest preceding yield must be y
                        if _nearest_yield_before(n, ys) is y:
                            src_of[n.ast.targets[0].id] = nm
        want = ["QueryEventFilterL", "QueryEventFilterM", "QueryEventFilterH"]
        got = [src_of.get(nm) for nm in asm[1]]
        run.ob("R-DTRSYM", F + "#reassembly-lanes", got == want,
               "bytes reassembled (low to high) come from %s, expected %s"
               % (got, want), where(mod, asm[0]),
               sample={"rule": "R-DTRSYM", "reassembly": unparse(
                   asm[0].ast), "low_to_high_sources": got})
        if setter:
            # the same names carried the bytes loaded into DTR0/1/2
            # (a read-back slot initialised with the byte that was asked
            # for - `slot = lo` - stands in that byte's lane)
            def lane_of(nm):
                if nm in lanes:
                    return lanes[nm]
                src = {unparse(n_.ast.value) for n_ in cfg.reachable
                       if n_.kind == "stmt" and isinstance(
                           n_.ast, ast.Assign) and len(
                               n_.ast.targets) == 1 and unparse(
                                   n_.ast.targets[0]) == nm and isinstance(
                                       n_.ast.value, ast.Name)}
                ls = {lanes.get(x) for x in src}
                return ls.pop() if len(ls) == 1 else None
            run.ob("R-DTRSYM", F + "#same-lanes",
                   [lane_of(nm) for nm in asm[1]] == [0, 1, 2],
                   "read-back lanes do not line up with the loaded lanes",
                   where(mod, asm[0]))

    # order on feasible paths
    run.rule("R-DEVSEQ-ORDER", "resolved command order on every feasible "
             "path; validation before the first yield")
    paths = enumerate_yield_paths(cfg, ys)
    run.count(len(paths))
    full = (["DTR0", "DTR1?", "DTR2?", "SetEventFilter"] if setter else []) \
        + ["QueryEventFilterL", "QueryEventFilterM?", "QueryEventFilterH?"]
    bad = None
    for (seq, how, st, last) in paths:
        names = [_short(_q(y)) for y in seq]
        if not _matches_optional_prefix(names, full, complete=False):
            bad = names
            break
        if setter and "SetEventFilter" in names and len(names) >= 1:
            # DTRk loaded iff byte k is read back, when the path gets there
            for a, b in (("DTR1", "QueryEventFilterM"),
                         ("DTR2", "QueryEventFilterH")):
                reached_end = how == "exit" and asm is not None and \
                    last is asm[0]
                if reached_end and ((a in names) != (b in names)):
                    bad = names
    run.ob("R-DEVSEQ-ORDER", F + "#order", bad is None,
           "a feasible path issues %s" % bad, where(mod, fn),
           sample={"rule": "R-DEVSEQ-ORDER", "paths": len(paths),
                   "example": [_short(_q(y)) for y in paths[0][0]]
                   if paths else []})
    # every command addressed to (device, instance) of the arguments
    dev, inst = fn.args.args[0].arg, fn.args.args[1].arg
    for y in ys:
        nm = _short(_q(y))
        if nm.startswith("QueryEventFilter") or nm == "SetEventFilter":
            a_dev = y.arg(0, kw="device")
            a_inst = y.arg(1, kw="instance")
            run.ob("R-DEVSEQ-ORDER", "%s#%s-target" % (F, nm),
                   a_dev is not None and a_inst is not None and unparse(
                       a_dev) == dev and unparse(a_inst) == inst,
                   "%s must address (%s, %s)" % (nm, dev, inst),
                   where(mod, y.node))
    if setter:
        _no_answer_aborts(run, mod, F, cfg, ys, world)
        # type check before first yield
        # a raise that no command precedes on any path (graph order, not
        # line numbers: an inlined helper keeps its own lines)
        after_ = set()
        stack_ = [m_ for y in ys for (l_, m_) in y.node.succ]
        while stack_:
            x_ = stack_.pop()
            if x_.id in after_:
                continue
            after_.add(x_.id)
            stack_ += [m_ for (l_, m_) in x_.succ]
        ok = any(n.kind == "stmt" and isinstance(n.ast, ast.Raise)
                 and n.id not in after_ for n in cfg.reachable)
        run.ob("R-DEVSEQ-ORDER", F + "#reject-before-yield", ok,
               "a non-int filter must be rejected before the first command",
               where(mod, fn))


def _returns_value(cfg, seq):
    return True


def _nearest_yield_before(node, ys):
    ynode = {y.node.id: y for y in ys}
    seen, stack = set(), [p for (l, p) in node.pred]
    found = set()
    while stack:
        n = stack.pop()
        if n.id in seen:
            continue
        seen.add(n.id)
        if n.id in ynode:
            found.add(n.id)
            continue
        stack += [p for (l, p) in n.pred]
    if len(found) == 1:
        return ynode[found.pop()]
    return None


def _matches_optional_prefix(names, pattern, complete):
    """names is a prefix of pattern where items ending in '?' may be
    skipped."""
    i = 0
    for nm in names:
        while i < len(pattern) and pattern[i].rstrip("?") != nm:
            if not pattern[i].endswith("?"):
                return False
            i += 1
        if i >= len(pattern):
            return False
        i += 1
    return True


def _no_answer_aborts(run, mod, F, cfg, ys, world):
    """For commands without a response: a bound answer that is not None
    aborts the sequence (return)."""
    for y in ys:
        if y.cls is None or not y.target:
            continue
        if response_class_of(world, y.cls) is not None:
            continue
        # next node must be test `<target> is not None` with T -> return
        nxt = [m for (l, m) in y.node.succ if l != "exc"]
        ok = False
        # (a flag kept for the caller - `ok = rsp is None` - may stand
        # between the answer and its test)
        seen_ = set()
        while len(nxt) == 1 and nxt[0].kind == "stmt" and isinstance(
                nxt[0].ast, ast.Assign) and nxt[0].id not in seen_ and \
                not any(isinstance(x, (ast.Yield, ast.YieldFrom, ast.Call))
                        for x in ast.walk(nxt[0].ast.value)):
            seen_.add(nxt[0].id)
            nxt = [m for (l, m) in nxt[0].succ if l != "exc"]
        for m in nxt:
            ta = m.ast
            flip = False
            while m.kind == "test" and isinstance(ta, ast.UnaryOp) and \
                    isinstance(ta.op, ast.Not):
                ta = ta.operand
                flip = not flip
            if m.kind == "test" and isinstance(ta, ast.Compare) and \
                    unparse(ta) in ("%s is not None" % y.target,
                                    "%s is None" % y.target):
                neg = unparse(ta).endswith("is not None") != flip
                for (l, t) in m.succ:
                    if (l == "T") == neg and t.kind == "stmt" and isinstance(
                            t.ast, (ast.Return, ast.Raise)):
                        ok = True
        run.ob("R-DEVSEQ-ORDER", "%s#%s-unexpected-answer" % (F, y.name), ok,
               "an unexpected answer to %s must abort the sequence"
               % y.name, where(mod, y.node))


def _check_schemes(run, world, mod, F, cfg, ys, fn):
    paths = enumerate_yield_paths(cfg, ys)
    run.count(len(paths))
    full = ["DTR0", "SetEventScheme", "QueryEventScheme"]
    bad = None
    complete = 0
    for (seq, how, st, last) in paths:
        names = [_short(_q(y)) for y in seq]
        if names != full[:len(names)]:
            bad = names
        if names == full:
            complete += 1
    run.ob("R-DEVSEQ-ORDER", F + "#order", bad is None and complete >= 1,
           "a path issues %s (expected a prefix of %s, and one complete "
           "path)" % (bad, full), where(mod, fn))
    dev, inst = fn.args.args[0].arg, fn.args.args[1].arg
    for y in ys:
        nm = _short(_q(y))
        if nm in ("SetEventScheme", "QueryEventScheme"):
            a_dev, a_inst = y.arg(0, kw="device"), y.arg(1, kw="instance")
            run.ob("R-DEVSEQ-ORDER", "%s#%s-target" % (F, nm),
                   a_dev is not None and a_inst is not None and unparse(
                       a_dev) == dev and unparse(a_inst) == inst,
                   "%s must address (%s, %s)" % (nm, dev, inst),
                   where(mod, y.node))
    _no_answer_aborts(run, mod, F, cfg, ys, world)
    # validation EventScheme(pos) before first yield, DTR0 carries pos
    first = min((y.node.lineno for y in ys), default=0)
    val = None
    from .. import astq as _astq
    def _after_a_yield(node):
        # can `node` be reached from some yield of the sequence?
        seen_, stack_ = set(), [m_ for y_ in ys for (l_, m_) in y_.node.succ]
        while stack_:
            x_ = stack_.pop()
            if x_.id in seen_:
                continue
            seen_.add(x_.id)
            if x_ is node:
                return True
            stack_ += [m_ for (l_, m_) in x_.succ]
        return False
    for n in cfg.reachable:
        # "before the first command" on the flow graph, not by line number
        # (statements of an inlined helper carry the helper's lines)
        if n.kind == "stmt" and not _after_a_yield(n) and not any(
                y_.node is n for y_ in ys):
            for c in _walk_no_nested(n.ast):
                if isinstance(c, ast.Call):
                    k = world.resolve_class(SEQ, c.func)
                    if k is not None and k.qname == DG + "EventScheme" and \
                            c.args:
                        # the member lookup is the validation (ValueError
                        # for an undefined number), wherever it is written
                        val = _astq.canon(fn, c.args[0], calls=True)
    d0 = [y for y in ys if _short(_q(y)) == "DTR0"]

    def carries(a):
        if a is None or val is None:
            return False
        t = _astq.canon(fn, a, calls=True)
        return t == val or (t.endswith(").value") and t[:-len(".value")]
                            .endswith("(%s)" % val))
    run.ob("R-DEVSEQ-ORDER", F + "#validate-scheme",
           val is not None and bool(d0) and all(
               carries(y.arg(0)) for y in d0),
           "the scheme must be validated with EventScheme(<v>) before the "
           "first command and DTR0 must carry the same <v> (validated %s)"
           % val, where(mod, fn))
    # result: the QueryEventScheme answer is returned
    q = [y for y in ys if _short(_q(y)) == "QueryEventScheme"]
    rets = [unparse(n.ast.value) for n in cfg.reachable if n.kind == "stmt"
            and isinstance(n.ast, ast.Return) and n.ast.value is not None
            and not (isinstance(n.ast.value, ast.Constant) and
                     n.ast.value.value is None)]
    run.ob("R-DEVSEQ-ORDER", F + "#returns-readback",
           bool(q) and q[0].target is not None and rets == [q[0].target],
           "the sequence must return what the unit reports back",
           where(mod, fn))


def _check_input_value(run, world, mod, F, cfg, ys, fn):
    names = [_short(_q(y)) for y in ys]
    run.ob("R-DEVSEQ-ORDER", F + "#commands",
           set(names) == {"QueryResolution", "QueryInputValue",
                          "QueryInputValueLatch"},
           "unexpected command set %s" % sorted(set(names)), where(mod, fn))
    paths = enumerate_yield_paths(cfg, ys, loop_bound=2)
    run.count(len(paths))
    bad = None
    for (seq, how, st, last) in paths:
        nm = [_short(_q(y)) for y in seq]
        core = [x for x in nm if x != "QueryResolution"]
        if nm.count("QueryResolution") > 1 or (
                "QueryResolution" in nm and nm[0] != "QueryResolution"):
            bad = nm
        if core and core[0] != "QueryInputValue":
            bad = nm
        if any(x != "QueryInputValueLatch" for x in core[1:]):
            bad = nm
    run.ob("R-DEVSEQ-ORDER", F + "#order", bad is None,
           "a path issues %s; expected [QueryResolution] QueryInputValue "
           "QueryInputValueLatch*" % bad, where(mod, fn))
    # every bad answer raises DALISequenceError
    for n in cfg.reachable:
        if n.kind == "test" and isinstance(n.ast, ast.Call) and unparse(
                n.ast.func) == "check_bad_rsp":
            ok = False
            for (l, m) in n.succ:
                if l == "T" and m.kind == "stmt" and isinstance(
                        m.ast, ast.Raise):
                    e = m.ast.exc
                    f = e.func if isinstance(e, ast.Call) else e
                    c = world.resolve_class(SEQ, f)
                    ok = c is not None and c.qname == \
                        "dali.exceptions.DALISequenceError"
            run.ob("R-DEVSEQ-ORDER", "%s#bad-answer-raises@%s" % (
                F, unparse(n.ast.args[0])), ok,
                "a bad answer must raise DALISequenceError",
                where(mod, n))
    dev, inst = fn.args.args[0].arg, fn.args.args[1].arg
    for y in ys:
        a_dev, a_inst = y.arg(0, kw="device"), y.arg(1, kw="instance")
        run.ob("R-DEVSEQ-ORDER", "%s#%s-target" % (F, y.name),
               a_dev is not None and a_inst is not None and unparse(
                   a_dev) == dev and unparse(a_inst) == inst,
               "%s must address (%s, %s)" % (y.name, dev, inst),
               where(mod, y.node))


class _QL:
    """a*q + b with q >= 0 symbolic: the resolution is 8q + r."""
    __slots__ = ("a", "b")

    def __init__(self, a, b):
        self.a, self.b = a, b

    def __eq__(self, o):
        return isinstance(o, _QL) and (self.a, self.b) == (o.a, o.b)

    def __repr__(self):
        if self.a == 0:
            return str(self.b)
        return "%dq%+d" % (self.a, self.b) if self.b else "%dq" % self.a


class _Inconclusive(Exception):
    pass


class _Clamped(Exception):
    """The resolution is replaced by a bounded version of itself."""


def _check_input_value_arith(run, mod, F, fn):
    """Number of latch reads and the final right shift as functions of the
    resolution R = 8q + r, for every residue r with q symbolic: the loop
    forms `while x > 8: x -= 8` and `for _ in range(E)` have closed forms.
    IEC 62386-103 9.7.2: ceil(R/8) bytes are read (one by QUERY INPUT VALUE,
    the rest by QUERY INPUT VALUE LATCH), MSB first, and the 8*ceil(R/8)-R
    repeated low bits are dropped."""
    run.rule("R-INPUT-ARITH", "query_input_value reads ceil(R/8)-1 latch "
             "bytes MSB first and drops (8 - R mod 8) mod 8 bits, for every "
             "resolution R (closed form per residue class)")
    params = [a.arg for a in fn.args.args]
    res_name = params[2] if len(params) > 2 else "resolution"

    def is_latch_yield(s):
        for n in ast.walk(s):
            if isinstance(n, ast.Yield) and isinstance(n.value, ast.Call) \
                    and unparse(n.value.func).endswith(
                        "QueryInputValueLatch"):
                return True
        return False

    def ev(e, env):
        if isinstance(e, ast.Constant) and isinstance(e.value, int):
            return _QL(0, e.value)
        if isinstance(e, ast.Name):
            if e.id in env:
                return env[e.id]
            raise _Inconclusive("name %s" % e.id)
        if isinstance(e, ast.BinOp):
            x, y = ev(e.left, env), ev(e.right, env)
            if isinstance(e.op, ast.Add):
                return _QL(x.a + y.a, x.b + y.b)
            if isinstance(e.op, ast.Sub):
                return _QL(x.a - y.a, x.b - y.b)
            if y.a == 0 and y.b > 0 and isinstance(e.op, ast.FloorDiv) \
                    and x.a % y.b == 0:
                return _QL(x.a // y.b, x.b // y.b)
            if y.a == 0 and y.b > 0 and isinstance(e.op, ast.Mod) \
                    and x.a % y.b == 0:
                return _QL(0, x.b % y.b)
            if isinstance(e.op, ast.Mult) and (x.a == 0 or y.a == 0):
                k, z = (x.b, y) if x.a == 0 else (y.b, x)
                return _QL(k * z.a, k * z.b)
        if isinstance(e, ast.UnaryOp) and isinstance(e.op, ast.USub):
            x = ev(e.operand, env)
            return _QL(-x.a, -x.b)
        if isinstance(e, ast.Call) and unparse(e.func) == "divmod" and len(
                e.args) == 2:
            x, y = ev(e.args[0], env), ev(e.args[1], env)
            if y.a == 0 and y.b > 0 and x.a % y.b == 0:
                return (_QL(x.a // y.b, x.b // y.b), _QL(0, x.b % y.b))
        raise _Inconclusive("expression %s" % unparse(e))

    def truth(t, env, qmin):
        """Truth of a comparison for all q >= qmin, else inconclusive."""
        if isinstance(t, ast.Compare) and len(t.ops) == 1:
            x, y = ev(t.left, env), ev(t.comparators[0], env)
            d = _QL(x.a - y.a, x.b - y.b)       # x - y
            lo = d.a * qmin + d.b                 # value at q = qmin
            if d.a >= 0:
                rng = (lo, None if d.a > 0 else lo)
            else:
                rng = (None, lo)
            op = type(t.ops[0])
            tests = {ast.Gt: lambda v: v > 0, ast.GtE: lambda v: v >= 0,
                     ast.Lt: lambda v: v < 0, ast.LtE: lambda v: v <= 0,
                     ast.Eq: lambda v: v == 0, ast.NotEq: lambda v: v != 0}
            if op not in tests:
                raise _Inconclusive("test %s" % unparse(t))
            if d.a == 0:
                return tests[op](d.b)
            # monotone in q: decided if the extreme already decides it
            if d.a > 0 and op in (ast.Gt, ast.GtE) and tests[op](lo):
                return True
            if d.a > 0 and op in (ast.Lt, ast.LtE) and not tests[op](lo):
                return False
            if d.a < 0 and op in (ast.Lt, ast.LtE) and tests[op](lo):
                return True
            if d.a < 0 and op in (ast.Gt, ast.GtE) and not tests[op](lo):
                return False
            raise _Inconclusive("test %s depends on q" % unparse(t))
        if isinstance(t, ast.Name):
            x = ev(t, env)
            if x.a == 0:
                return x.b != 0
        raise _Inconclusive("test %s" % unparse(t))

    def run_block(stmts, env, st, qmin):
        for s_ in stmts:
            if isinstance(s_, ast.Expr) and isinstance(s_.value,
                                                       ast.Constant):
                continue
            if isinstance(s_, ast.While):
                # while X > 8: ... X -= 8 ...
                t = s_.test
                if not (isinstance(t, ast.Compare) and isinstance(
                        t.ops[0], ast.Gt) and isinstance(
                            t.left, ast.Name) and isinstance(
                                t.comparators[0], ast.Constant) and
                        isinstance(t.comparators[0].value, int)):
                    raise _Inconclusive("loop test %s" % unparse(t))
                x = t.left.id
                c_ = t.comparators[0].value
                decs = [n for n in s_.body if isinstance(
                    n, ast.AugAssign) and isinstance(n.op, ast.Sub) and
                    unparse(n.target) == x and unparse(n.value) == "8"]
                if len(decs) != 1:
                    raise _Inconclusive("loop does not step %s by 8" % x)
                if x not in env:
                    raise _Inconclusive("the loop variable %s has no value "
                                        "linear in the resolution" % x)
                x0 = env[x]
                if x0.a != 8:
                    raise _Inconclusive("loop variable is not the resolution")
                # iterations: ceil((X0 - c)/8) = q + ceil((b - c)/8)
                n_it = _QL(1, -((c_ - x0.b) // 8))
                if n_it.a * qmin + n_it.b < 0:
                    raise _Inconclusive("iteration count not linear in q")
                env[x] = _QL(0, x0.b - 8 * n_it.b)
                body_effect(s_.body, st, n_it)
                continue
            if isinstance(s_, ast.For):
                it = s_.iter
                if not (isinstance(it, ast.Call) and unparse(
                        it.func) == "range" and len(it.args) == 1):
                    raise _Inconclusive("loop over %s" % unparse(it))
                n_it = ev(it.args[0], env)
                body_effect(s_.body, st, n_it)
                continue
            if isinstance(s_, ast.If):
                if "check_bad_rsp" in unparse(s_.test) or unparse(
                        s_.test).startswith("isinstance("):
                    continue
                if unparse(s_.test) == "%s is None" % res_name:
                    continue        # the resolution is then queried
                b = truth(s_.test, env, qmin)
                run_block(s_.body if b else s_.orelse, env, st, qmin)
                continue
            if isinstance(s_, ast.Assign) and len(s_.targets) == 1:
                tg = s_.targets[0]
                if isinstance(tg, ast.Tuple) and isinstance(
                        s_.value, ast.Call) and unparse(
                            s_.value.func) == "divmod":
                    a_, b_ = ev(s_.value, env)
                    env[unparse(tg.elts[0])], env[unparse(tg.elts[1])] = \
                        a_, b_
                    continue
                if isinstance(tg, ast.Name):
                    v_ = s_.value
                    if tg.id == res_name and isinstance(v_, ast.Call) and \
                            isinstance(v_.func, ast.Name) and \
                            v_.func.id in ("min", "max") and \
                            len(v_.args) == 2 and not v_.keywords:
                        others = [a_ for a_ in v_.args if not (isinstance(
                            a_, ast.Name) and a_.id == res_name)]
                        if len(others) == 1 and isinstance(
                                others[0], ast.Constant) and isinstance(
                                    others[0].value, int):
                            raise _Clamped(
                                "the resolution is replaced by `%s` before "
                                "the bytes are counted: for a resolution %s "
                                "%d the number of latch reads and the final "
                                "shift are those of %d bits, not of the "
                                "instance's resolution" % (
                                    unparse(v_), "above" if v_.func.id ==
                                    "min" else "below", others[0].value,
                                    others[0].value))
                    try:
                        env[tg.id] = ev(s_.value, env)
                    except _Inconclusive:
                        env.pop(tg.id, None)
                    continue
            if isinstance(s_, ast.AugAssign) and isinstance(
                    s_.op, ast.RShift) and unparse(s_.target) == "value":
                sh = ev(s_.value, env)
                st["shift"] = _QL(st["shift"].a + sh.a, st["shift"].b + sh.b)
                continue
            if isinstance(s_, ast.AugAssign) and isinstance(
                    s_.target, ast.Name):
                try:
                    cur = env[s_.target.id]
                    v = ev(s_.value, env)
                    if isinstance(s_.op, ast.Sub):
                        env[s_.target.id] = _QL(cur.a - v.a, cur.b - v.b)
                    elif isinstance(s_.op, ast.Add):
                        env[s_.target.id] = _QL(cur.a + v.a, cur.b + v.b)
                    else:
                        env.pop(s_.target.id, None)
                except (KeyError, _Inconclusive):
                    env.pop(s_.target.id, None)
                continue

    def body_effect(body, st, n_it):
        reads = sum(1 for b_ in body if is_latch_yield(b_))
        st["reads"] = _QL(st["reads"].a + reads * n_it.a,
                          st["reads"].b + reads * n_it.b)
        # MSB first: value is moved up by 8 once per read, before the add
        txt = [unparse(b_) for b_ in body]
        shl = [i for i, t in enumerate(txt) if t in (
            "value <<= 8", "value = value << 8", "value = value * 256",
            "value *= 256")]
        add = [i for i, b_ in enumerate(body) if isinstance(
            b_, ast.AugAssign) and unparse(b_.target) == "value" and
            isinstance(b_.op, (ast.Add, ast.BitOr))]
        comb = [i for i, t in enumerate(txt) if t.startswith(
            "value = value << 8 |") or t.startswith("value = (value << 8)")]
        # ... or the bytes are collected in answer order and assembled
        # big-endian once: L = [first]; L.append(chunk); int.from_bytes(L,
        # "big")
        apps = [b_.value.func.value.id for b_ in body if isinstance(
            b_, ast.Expr) and isinstance(b_.value, ast.Call) and isinstance(
                b_.value.func, ast.Attribute) and
            b_.value.func.attr == "append" and isinstance(
                b_.value.func.value, ast.Name) and len(b_.value.args) == 1]
        listform = False
        if len(apps) == 1:
            L_ = apps[0]
            inits = [n_.value for n_ in ast.walk(fn) if isinstance(
                n_, ast.Assign) and any(isinstance(t_, ast.Name) and
                                        t_.id == L_ for t_ in n_.targets)]
            asm = [n_ for n_ in ast.walk(fn) if isinstance(
                n_, ast.Assign) and unparse(n_.targets[0]) == "value" and
                isinstance(n_.value, ast.Call) and unparse(
                    n_.value.func) == "int.from_bytes" and n_.value.args and
                unparse(n_.value.args[0]) == L_ and (
                    [unparse(a_) for a_ in n_.value.args[1:2]] +
                    [unparse(k_.value) for k_ in n_.value.keywords
                     if k_.arg == "byteorder"]) == ["'big'"] and not any(
                         k_.arg == "signed" and not (isinstance(
                             k_.value, ast.Constant) and
                             k_.value.value is False)
                         for k_ in n_.value.keywords)]
            listform = len(inits) == 1 and isinstance(
                inits[0], ast.List) and len(inits[0].elts) == 1 and \
                len(asm) == 1
        st["msb_first"] = st["msb_first"] and reads == 1 and (
            (len(shl) == 1 and len(add) == 1 and shl[0] < add[0]) or
            len(comb) == 1 or listform)

    ok = True
    why = []
    try:
        for r_ in range(8):
            qmin = 1 if r_ == 0 else 0
            env = {res_name: _QL(8, r_)}
            st = {"reads": _QL(0, 0), "shift": _QL(0, 0), "msb_first": True}
            run_block(fn.body, env, st, qmin)
            want_reads = _QL(1, -1) if r_ == 0 else _QL(1, 0)
            want_shift = _QL(0, (8 - r_) % 8)
            if st["reads"] != want_reads or st["shift"] != want_shift or \
                    not st["msb_first"]:
                ok = False
                why.append("R = 8q+%d: %r latch reads (required %r), final "
                           "shift %r (required %r)%s" % (
                               r_, st["reads"], want_reads, st["shift"],
                               want_shift, "" if st["msb_first"] else
                               ", bytes not accumulated MSB first"))
    except _Clamped as e:
        ok = False
        why.append(str(e))
    except _Inconclusive as e:
        raise AnalysisError("query_input_value: the byte count / shift "
                            "arithmetic is not in a form with a closed "
                            "form the rule knows (%s)" % e)
    run.ob("R-INPUT-ARITH", F + "#bytes-and-shift", ok, "; ".join(why[:3]),
           where(mod, fn),
           sample={"rule": "R-INPUT-ARITH", "latch_reads":
                   "q-1 for R=8q, q for R=8q+r", "final_shift": "(8-r)%8"})


def _check_autodiscover(run, world, mod, F, cfg, ys, fn):
    run.rule("R-DEVSEQ-QUIET", "scan bracketed by Start/StopQuiescentMode; "
             "bad answers skip; add_type only for the current address/"
             "instance after enabled + type answers")
    ynode = {y.node.id: y for y in ys}
    # first yield on every path is StartQuiescentMode(DeviceBroadcast())
    firsts = set()
    seen, stack = set(), [cfg.entry]
    while stack:
        n = stack.pop()
        if n.id in seen:
            continue
        seen.add(n.id)
        if n.id in ynode:
            firsts.add(n.id)
            continue
        if n is cfg.exit:
            firsts.add(-1)
        stack += [m for (l, m) in n.succ if l != "exc"]

    def is_bcast(y):
        a = y.arg(0)
        if isinstance(a, ast.Call) and not a.args:
            c = world.resolve_class(HLP, a.func)
            return c is not None and c.qname == "dali.address.DeviceBroadcast"
        return False
    ok = bool(firsts) and all(i != -1 and _short(_q(ynode[i])) ==
                              "StartQuiescentMode" and is_bcast(ynode[i])
                              for i in firsts)
    run.ob("R-DEVSEQ-QUIET", F + "#start-first", ok,
           "the first command on every path must be "
           "StartQuiescentMode(DeviceBroadcast())", where(mod, fn))

    def tr(node, st):
        y = ynode.get(node.id)
        if y is not None:
            nm = _short(_q(y))
            if nm == "StartQuiescentMode":
                return st | {"quiet"}
            if nm == "StopQuiescentMode" and is_bcast(y):
                return st - {"quiet"}
        return st
    W = forward(cfg, tr, must=False)
    st = W.get(cfg.exit.id, frozenset())
    run.ob("R-DEVSEQ-QUIET", F + "#stop-on-exit", "quiet" not in st,
           "a normal exit is reachable with the bus still in quiescent mode",
           where(mod, fn))
    # a bad answer skips: path-sensitive facts.  ("ans", var, query) binds a
    # response variable to the query that produced it; the T edge of
    # check_bad_rsp(var) marks ("bad", query); loop heads start a new
    # device / instance.  No command and no add_type may be reached in a
    # world that carries a "bad" mark.
    cet = cond_edge_transfer()

    def wtr(node, st):
        st = kill_conds_on_assign(node, st)
        if node.kind == "for":
            st = frozenset(f for f in st if f[0] not in ("bad", "off"))
        y = ynode.get(node.id)
        if y is not None and y.target:
            st = frozenset(f for f in st if not (f[0] == "ans" and
                                                 f[1] == y.target))
            st = st | {("ans", y.target, _short(_q(y)))}
        return st

    def wedge(src, label, dst, st):
        st = cet(src, label, dst, st)
        if st is None:
            return None
        if src.kind == "test" and label in ("T", "F"):
            a = src.ast
            if isinstance(a, ast.Call) and unparse(a.func) == \
                    "check_bad_rsp" and a.args and label == "T":
                v = unparse(a.args[0])
                for f in st:
                    if f[0] == "ans" and f[1] == v:
                        st = st | {("bad", f[2])}
            if isinstance(a, ast.Attribute) and a.attr in (
                    "short_address_is_mask", "reset_state") and \
                    label == "T":
                # an unhealthy device (no short address / in reset state)
                # is skipped like one that did not answer
                v = unparse(a.value)
                for f in st:
                    if f[0] == "ans" and f[1] == v and \
                            f[2] == "QueryDeviceStatus":
                        st = st | {("bad", "QueryDeviceStatus." + a.attr)}
            if isinstance(a, ast.Attribute) and a.attr == "value" and \
                    label == "F":
                v = unparse(a.value)
                for f in st:
                    if f[0] == "ans" and f[1] == v:
                        st = st | {("off", f[2])}
        return st
    WW = forward_worlds(cfg, wtr, wedge)
    n_chk = 0
    for n in cfg.reachable:
        if n.kind == "test" and isinstance(n.ast, ast.Call) and unparse(
                n.ast.func) == "check_bad_rsp":
            n_chk += 1
    run.floor("autodiscover check_bad_rsp sites", n_chk, 2)
    sinks = [(y.node, _short(_q(y))) for y in ys
             if _short(_q(y)) != "StopQuiescentMode"]
    for n in cfg.reachable:
        if n.kind == "stmt" and any(
                isinstance(c, ast.Call) and isinstance(c.func, ast.Attribute)
                and c.func.attr == "add_type"
                for c in _walk_no_nested(n.ast)):
            sinks.append((n, "add_type"))
    for (n, what) in sinks:
        bad = WW.worlds_with(n, lambda w: any(f[0] == "bad" for f in w))
        run.ob("R-DEVSEQ-QUIET", "%s#skip-on-bad->%s" % (F, what), not bad,
               "%s is reached although an answer was bad (%s): a bad answer "
               "must skip the device / instance" % (what, sorted(
                   f[1] for f in bad[0] if f[0] == "bad") if bad else ""),
               where(mod, n))
        if what in ("QueryInstanceType", "add_type"):
            off = WW.worlds_with(n, lambda w: ("off", "QueryInstanceEnabled")
                                 in w)
            run.ob("R-DEVSEQ-QUIET", "%s#enabled-only->%s" % (F, what),
                   not off, "%s is reached for an instance that answered "
                   "'not enabled'" % what, where(mod, n))
        if what == "add_type":
            # an instance of type 0 is recorded like any other: reaching
            # add_type must not require a truthy type answer
            ws = WW.at(n)
            tv = [f[1] for w in ws for f in w if f[0] == "ans" and
                  f[2] == "QueryInstanceType"]
            forced = bool(ws) and bool(tv) and all(
                ("cond", "%s.value" % tv[0], True) in w for w in ws)
            run.ob("R-DEVSEQ-QUIET", F + "#type-0-recorded", not forced,
                   "add_type is only reached when the QueryInstanceType "
                   "answer is truthy: enabled instances of type 0 are "
                   "silently dropped from the map", where(mod, n))
    # ... and skips no more than that: the marks are dropped at a loop head
    # (next instance / next device), so a mark that arrives at the device
    # loop's head or at the end of the scan left a loop early
    loops_ = [n for n in cfg.reachable if n.kind == "for"]
    outer_ = [l for l in loops_ if _enclosing_for_ast(l.ast) is None]
    inst_q = ("QueryInstanceEnabled", "QueryInstanceType")

    def marks(w, only=None):
        return sorted(f[1] for f in w if f[0] in ("bad", "off") and (
            only is None or f[1] in only))
    for l in outer_:
        bad = WW.worlds_with(l, lambda w: bool(marks(w, inst_q)))
        run.ob("R-DEVSEQ-QUIET", F + "#instance-skip-keeps-device", not bad,
               "after a bad / 'not enabled' answer about one instance (%s) "
               "the scan moves on to the next device: the remaining "
               "instances of this device are never asked" % (
                   marks(bad[0], inst_q) if bad else ""), where(mod, l))
    stops = [y for y in ys if _short(_q(y)) == "StopQuiescentMode"]
    for y in stops:
        bad = WW.worlds_with(y.node, lambda w: bool(marks(w)))
        run.ob("R-DEVSEQ-QUIET", F + "#skip-keeps-scan", not bad,
               "after a bad answer (%s) the scan ends: the remaining devices "
               "are never asked" % (marks(bad[0]) if bad else ""),
               where(mod, y.node))
    # every query answer is checked before the next yield
    for y in ys:
        if y.cls is None or response_class_of(world, y.cls) is None:
            continue
        nxt = [m for (l, m) in y.node.succ if l != "exc"]
        ok = all(m.kind == "test" and isinstance(m.ast, ast.Call) and unparse(
            m.ast.func) == "check_bad_rsp" and unparse(
                m.ast.args[0]) == y.target for m in nxt) and bool(nxt)
        run.ob("R-DEVSEQ-QUIET", "%s#checked:%s" % (F, y.name), ok,
               "the answer to %s is not passed to check_bad_rsp first"
               % y.name, where(mod, y.node))
    # add_type call site
    calls = []
    for n in cfg.reachable:
        if n.kind == "stmt":
            for c in _walk_no_nested(n.ast):
                if isinstance(c, ast.Call) and isinstance(
                        c.func, ast.Attribute) and c.func.attr == "add_type":
                    calls.append((n, c))
    run.ob("R-DEVSEQ-QUIET", F + "#add_type-site", len(calls) == 1,
           "expected exactly one add_type call, found %d" % len(calls),
           where(mod, fn))
    # loop variable provenance
    loops = [n for n in cfg.reachable if n.kind == "for"]
    outer = [l for l in loops if _enclosing_for_ast(l.ast) is None]
    inner = [l for l in loops if _enclosing_for_ast(l.ast) is not None]
    for (n, c) in calls:
        kw = {k.arg: k.value for k in c.keywords}
        sa, inn, it = kw.get("short_address"), kw.get("instance_number"), \
            kw.get("instance_type")
        ok_sa = sa is not None and _derived_from_loopvar(cfg, sa, outer)
        ok_in = inn is not None and _derived_from_loopvar(cfg, inn, inner)
        src = _nearest_yield_before(n, [y for y in ys
                                        if y.cls is not None and
                                        response_class_of(world, y.cls)])
        ok_it = it is not None and src is not None and _short(_q(src)) == \
            "QueryInstanceType" and _is_attr_chain(it, [src.target, "value"])
        if not ok_it and isinstance(it, ast.Name):
            # a local holding the answer: every definition is the type
            # answer's value or the None that marks "skip this instance"
            ds = _defs(cfg, it.id)
            tys = [y for y in ys if _short(_q(y)) == "QueryInstanceType"]
            ok_it = bool(ds) and any(
                any(_is_attr_chain(d_, [y.target, "value"]) for y in tys)
                for d_ in ds) and all(
                (isinstance(d_, ast.Constant) and d_.value is None) or any(
                    _is_attr_chain(d_, [y.target, "value"]) for y in tys)
                for d_ in ds)
        run.ob("R-DEVSEQ-QUIET", F + "#add_type-args",
               ok_sa and ok_in and ok_it,
               "add_type must record (current address, current instance, "
               "QueryInstanceType answer): short_address ok=%s "
               "instance_number ok=%s instance_type ok=%s"
               % (ok_sa, ok_in, ok_it), where(mod, n))
        # enabled answer must have been truthy: path-sensitive facts
    # enabled test: after QueryInstanceEnabled, `not rsp.value` -> continue
    en = [y for y in ys if _short(_q(y)) == "QueryInstanceEnabled"]
    ty = [y for y in ys if _short(_q(y)) == "QueryInstanceType"]
    ok = False
    if en and ty and en[0].target:
        X = en[0].target
        # every path from the enabled yield to the type yield passes the
        # T edge of `X.value`
        ok = _all_paths_pass_true(en[0].node, ty[0].node, X, ynode)
    run.ob("R-DEVSEQ-QUIET", F + "#enabled-before-type", ok,
           "QueryInstanceType / add_type must only be reached when the "
           "instance answered enabled", where(mod, fn))
    # device status screening
    st_y = [y for y in ys if _short(_q(y)) == "QueryDeviceStatus"]
    ni_y = [y for y in ys if _short(_q(y)) == "QueryNumberOfInstances"]
    ok = False
    if st_y and ni_y and st_y[0].target:
        X = st_y[0].target
        # both status bits are looked at on the way to the instance count
        # (what follows a set bit is decided by #skip-on-bad: the marks set
        # on the T edges above reach no command and no add_type)
        ok = True
        for attr in ("short_address_is_mask", "reset_state"):
            tests = [n for n in cfg.reachable if n.kind == "test" and
                     _is_attr_chain(n.ast, [X, attr])]
            if not tests:
                ok = False
        for w in WW.at(ni_y[0].node):
            for attr in ("short_address_is_mask", "reset_state"):
                if not any(f[0] == "cond" and f[1] == "%s.%s" % (X, attr)
                           and f[2] is False for f in w):
                    ok = False
    if st_y and st_y[0].target:
        X = st_y[0].target
        others = sorted({n.ast.attr for n in cfg.reachable
                         if n.kind == "test" and isinstance(
                             n.ast, ast.Attribute) and isinstance(
                                 n.ast.value, ast.Name) and
                         n.ast.value.id == X and n.ast.attr not in (
                             "short_address_is_mask", "reset_state")
                         and _nearest_yield_before(n, ys) is st_y[0]})
        run.ob("R-DEVSEQ-QUIET", F + "#status-screen-bits", not others,
               "the scan also decides on status bit(s) %s: a responding, "
               "addressed device that is not in reset state is healthy for "
               "the scan whatever its other status bits say, and its "
               "instances are recorded" % others, where(mod, fn))
    run.ob("R-DEVSEQ-QUIET", F + "#status-screen", ok,
           "devices reporting short_address_is_mask or reset_state must be "
           "skipped", where(mod, fn))
    # instance loop covers range(num_inst), num_inst = answer.value
    okr = False
    for l in inner:
        it = l.ast.iter
        if isinstance(it, ast.Call) and unparse(it.func) == "range" and len(
                it.args) == 1 and isinstance(it.args[0], ast.Name):
            ds = _defs(cfg, it.args[0].id)
            if ni_y and ni_y[0].target and len(ds) == 1 and _is_attr_chain(
                    ds[0], [ni_y[0].target, "value"]):
                okr = True
    run.ob("R-DEVSEQ-QUIET", F + "#all-instances", okr,
           "the instance loop must cover range(<QueryNumberOfInstances "
           "answer>.value)", where(mod, fn))

    # ---- R-DEVSEQ-RANGE: argument normalisation folds to the full range -----
    run.rule("R-DEVSEQ-RANGE", "the address argument forms fold to the "
             "documented scan sets (default: all 64 short addresses)")
    folder = Folder(world)
    # default value
    dflt = None
    args = fn.args
    pos = args.args
    for a, d in zip(pos[len(pos) - len(args.defaults):], args.defaults):
        if a.arg == "addresses":
            dflt = folder.eval(d, {}, HLP)
    cases = [("default", dflt, list(range(64))),
             ("(5, 9)", (5, 9), [5, 6, 7, 8, 9]),
             ("(63, 63)", (63, 63), [63]),
             ("[1, 4, 63]", [1, 4, 63], [1, 4, 63]),
             # a list is the addresses themselves, whatever its length
             ("[3, 40]", [3, 40], [3, 40]),
             ("[40, 12]", [40, 12], [40, 12])]
    outer_iter = outer[0].ast.iter if outer else None
    for (label, value, want) in cases:
        got = _fold_addresses(folder, cfg, fn, value, outer_iter)
        run.ob("R-DEVSEQ-RANGE", "%s#addresses=%s" % (F, label),
               got == want,
               "with addresses=%s the scan covers %s, expected %s" % (
                   label, _brief(got), _brief(want)), where(mod, fn),
               sample={"rule": "R-DEVSEQ-RANGE", "addresses": label,
                       "scan": _brief(got)})
    # the int form never names an address that does not exist: 64 is "all
    # 64 addresses", and DeviceShort(64) in the middle of the scan would
    # raise with quiescent mode left on
    got64 = _fold_addresses(folder, cfg, fn, 64, outer_iter)
    run.ob("R-DEVSEQ-RANGE", F + "#addresses=64", got64 == list(range(64)),
           "with addresses=64 the scan covers %s, expected the 64 short "
           "addresses 0..63" % _brief(got64), where(mod, fn))
    # int form: documented "from zero to that value"
    got = _fold_addresses(folder, cfg, fn, 8, outer_iter)
    run.ob("R-DEVSEQ-RANGE", F + "#addresses=int", got in (
        list(range(8)), list(range(9))),
        "with addresses=8 the scan covers %s" % _brief(got), where(mod, fn))


def _brief(v):
    if v is None or v is UNKNOWN:
        return str(v)
    v = list(v)
    if len(v) > 8:
        return "[%s..%s] (%d)" % (v[0], v[-1], len(v))
    return str(v)


def _fold_addresses(folder, cfg, fn, value, outer_iter):
    """Partially evaluate the `addresses` normalisation (the if/elif chain of
    assignments before the scan loop) on a constant argument."""
    env = {"addresses": value}
    if outer_iter is None:
        return None

    def run_block(stmts):
        for s in stmts:
            if isinstance(s, ast.If):
                t = folder.eval(s.test, env, HLP)
                if t is UNKNOWN:
                    return False
                if not run_block(s.body if t else s.orelse):
                    return False
            elif isinstance(s, ast.Assign) and len(s.targets) == 1:
                t = s.targets[0]
                v = folder.eval(s.value, env, HLP)
                if v is UNKNOWN:
                    return False
                if isinstance(t, ast.Name):
                    env[t.id] = v
                elif isinstance(t, ast.Tuple) and all(isinstance(
                        x, ast.Name) for x in t.elts):
                    try:
                        vals = list(v)
                    except TypeError:
                        return False
                    if len(vals) != len(t.elts):
                        return False
                    for x, y in zip(t.elts, vals):
                        env[x.id] = y
                else:
                    return False
            elif isinstance(s, ast.For):
                return "stop"
        return True
    # statements of the function body up to the scan loop that mention
    # `addresses`
    body = []
    for s in fn.body:
        if isinstance(s, ast.For):
            break
        if any(isinstance(n, ast.Name) and n.id == "addresses"
               for n in ast.walk(s)) and isinstance(s, (ast.If, ast.Assign)):
            body.append(s)
    r = run_block(body)
    if r is False:
        raise AnalysisError("autodiscover: the normalisation of `addresses` "
                            "could not be folded for %r (a construct outside "
                            "the constant folder)" % (value,))
    v = folder.eval(outer_iter, env, HLP)
    if v is UNKNOWN:
        return None
    try:
        return list(v)
    except TypeError:
        return None


def _enclosing_for_ast(a):
    p = getattr(a, "_parent", None)
    while p is not None and not isinstance(p, (ast.FunctionDef,
                                               ast.AsyncFunctionDef)):
        if isinstance(p, ast.For):
            return p
        p = getattr(p, "_parent", None)
    return None


def _derived_from_loopvar(cfg, expr, loops):
    """expr is the loop variable of one of `loops`, or a name whose single
    definition is <Ctor>(loopvar) inside that loop."""
    lv = {l.ast.target.id for l in loops if isinstance(l.ast.target, ast.Name)}
    if isinstance(expr, ast.Name):
        if expr.id in lv:
            return True
        ds = _defs(cfg, expr.id)
        if len(ds) == 1 and isinstance(ds[0], ast.Call) and len(
                ds[0].args) == 1 and isinstance(ds[0].args[0], ast.Name) and \
                ds[0].args[0].id in lv:
            return True
    return False


def _all_paths_pass_true(src, dst, X, ynode):
    """Every path src -> dst passes the T edge of a test `X.value` (and X is
    not rebound in between)."""
    seen, stack = set(), [(m, False) for (l, m) in src.succ if l != "exc"]
    while stack:
        n, ok = stack.pop()
        if (n.id, ok) in seen:
            continue
        seen.add((n.id, ok))
        if n is dst:
            if not ok:
                return False
            continue
        if n.id in ynode and n is not src:
            continue    # another yield first: not a src->dst segment
        for (l, m) in n.succ:
            if l == "exc":
                continue
            ok2 = ok
            if n.kind == "test" and _is_attr_chain(n.ast, [X, "value"]):
                if l == "T":
                    ok2 = True
                else:
                    ok2 = False
            stack.append((m, ok2))
    return True


def _check_bad_rsp(run, world, mod):
    """The classifier all sequences rely on: returns True for None, for a
    BackwardFrameError, for the '(missing)'/'(framing error)' markers and for
    MissingResponse/ResponseError."""
    run.rule("R-BADRSP", "check_bad_rsp classifies None, framing errors, "
             "marker strings and raising .value as bad")
    m, fn, _ = world.func(HLP + ".check_bad_rsp")
    fn = normalise(fn, world, HLP, aliases=False)
    F = HLP + ".check_bad_rsp"
    from ..cfg import CFG, explicit_raise_only
    cfg = CFG(fn, may_raise=explicit_raise_only, name=F)
    r = fn.args.args[0].arg
    src = ast.unparse(fn)
    checks = {
        "none": False, "error": False, "markers": False, "exceptions": False}
    for n in cfg.reachable:
        if n.kind == "test":
            t = unparse(n.ast)
            ret_true = any(l == "T" and m2.kind == "stmt" and isinstance(
                m2.ast, ast.Return) and isinstance(
                    m2.ast.value, ast.Constant) and m2.ast.value.value is True
                for (l, m2) in n.succ)
            ret_true_f = any(l == "F" and m2.kind == "stmt" and isinstance(
                m2.ast, ast.Return) and isinstance(
                    m2.ast.value, ast.Constant) and m2.ast.value.value is True
                for (l, m2) in n.succ)
            if t == r and ret_true_f:
                checks["none"] = True
            if t == "%s is None" % r and ret_true:
                checks["none"] = True
            if isinstance(n.ast, ast.Call) and unparse(
                    n.ast.func) == "isinstance" and unparse(
                        n.ast.args[0]) == r + ".raw_value" and ret_true:
                c = world.resolve_class(HLP, n.ast.args[1])
                if c is not None and c.qname == \
                        "dali.frame.BackwardFrameError":
                    checks["error"] = True
            if t == r + ".raw_value.error" and ret_true:
                checks["error"] = True
    markers = set()
    for n in ast.walk(fn):
        if isinstance(n, ast.Compare) and isinstance(
                n.left, ast.Constant) and isinstance(n.left.value, str) and \
                isinstance(n.ops[0], ast.In):
            markers.add(n.left.value)
    # marker strings must be substrings of what NumericResponse.value returns
    nr = world.cls("dali.command.NumericResponse")
    vfn = nr.methods.get("value")
    produced = set()
    if vfn:
        # the strings the property can evaluate to, on its paths (a result
        # local assigned in the branches returns what it was assigned)
        from .. import paths as _paths
        try:
            from ..fold import Folder as _F2
            _fold2 = _F2(world)
            for p_ in _paths.summaries(vfn[1]):
                if p_.kind != "return" or p_.expr is None:
                    continue
                e_ = p_.expr
                if isinstance(e_, (ast.Name, ast.Attribute)):
                    # a marker kept in a module-level constant
                    try:
                        v_ = _fold2.eval(e_, {}, nr.mod)
                    except Exception:
                        v_ = None
                    if isinstance(v_, str):
                        e_ = ast.Constant(v_)
                if isinstance(e_, ast.Constant) and isinstance(
                        e_.value, str):
                    produced.add(e_.value)
        except _paths.Unsupported as e:
            raise AnalysisError("R-BADRSP: NumericResponse.value is not "
                                "loop-free: %s" % e)
    checks["markers"] = bool(produced) and all(
        any(mk in p for mk in markers) for p in produced)
    for n in ast.walk(fn):
        if isinstance(n, ast.ExceptHandler) and n.type is not None:
            elts = n.type.elts if isinstance(n.type, ast.Tuple) else [n.type]
            names = set()
            for e in elts:
                c = world.resolve_class(HLP, e)
                names.add(c.qname if c else unparse(e))
            if {"dali.exceptions.MissingResponse",
                    "dali.exceptions.ResponseError"} <= names:
                # every path that goes through this handler answers "bad"
                # (the handler may return True itself or fall through to a
                # `return True` that follows: `with suppress(...)`)
                from ..cfg import CFG as _CFG, default_may_raise as _dmr
                # (a property read can raise: every statement of the try
                # body may)
                hcfg = _CFG(fn, may_raise=lambda x_: x_.kind in (
                    "stmt", "test"), name=F)
                starts = [x for x in hcfg.reachable if x.kind == "except"
                          and x.ast is n]
                okh = bool(starts)
                # (sent: the local the handler has marked with a sentinel -
                # `value = _UNREADABLE` - and the sentinel; an identity test
                # of that local with that sentinel is then decided)
                seen_, stack_ = set(), [(x, None) for x in starts]
                while stack_ and okh:
                    x, sent = stack_.pop()
                    if (x.id, sent) in seen_:
                        continue
                    seen_.add((x.id, sent))
                    if x.kind == "stmt" and isinstance(x.ast, ast.Return):
                        okh = isinstance(x.ast.value, ast.Constant) and \
                            x.ast.value.value is True
                        continue
                    if x is hcfg.exit:
                        okh = False
                        break
                    if x.kind == "stmt" and isinstance(
                            x.ast, ast.Assign) and len(
                                x.ast.targets) == 1 and isinstance(
                                    x.ast.targets[0], ast.Name):
                        tn_ = x.ast.targets[0].id
                        if isinstance(x.ast.value, ast.Name) and \
                                world.lookup(HLP, x.ast.value.id) is not None:
                            sent = (tn_, x.ast.value.id)
                        elif sent is not None and sent[0] == tn_:
                            sent = None
                    only = None
                    if x.kind == "test" and sent is not None and isinstance(
                            x.ast, ast.Compare) and len(
                                x.ast.ops) == 1 and isinstance(
                                    x.ast.ops[0], (ast.Is, ast.IsNot)) and \
                            {unparse(x.ast.left), unparse(
                                x.ast.comparators[0])} == set(sent):
                        only = "T" if isinstance(x.ast.ops[0], ast.Is) \
                            else "F"
                    stack_ += [(m_, sent) for (l_, m_) in x.succ
                               if l_ != "exc" and (only is None or
                                                   l_ == only)]
                if okh:
                    checks["exceptions"] = True
    for k, v in checks.items():
        run.ob("R-BADRSP", "%s#%s" % (F, k), v,
               "check_bad_rsp no longer classifies the %s case as bad "
               "(markers tested %s, NumericResponse produces %s)"
               % (k, sorted(markers), sorted(produced)), where(mod, fn))


def _between_asm_and_return(root, node):
    """None when `root` is `node` wrapped only in single-argument calls
    (type conversions) and all-ones masks; else a description of the first
    other operation on the way."""
    if node is None:
        return "reassembly not located"
    parent = {}
    for p_ in ast.walk(root):
        for ch in ast.iter_child_nodes(p_):
            parent[id(ch)] = p_
    cur = node
    while cur is not root:
        up = parent.get(id(cur))
        if up is None:
            return "reassembly not under the return value"
        if isinstance(up, ast.Call) and len(up.args) == 1 and \
                up.args[0] is cur and not up.keywords and (isinstance(
                    up.func, (ast.Name, ast.Attribute)) or (
                        isinstance(up.func, ast.Call) and unparse(
                            up.func.func) == "type")):
            cur = up
            continue
        if isinstance(up, ast.BinOp) and isinstance(up.op, ast.BitAnd):
            other = up.right if up.left is cur else up.left
            try:
                v = ast.literal_eval(other)
            except (ValueError, SyntaxError, TypeError):
                v = None
            if isinstance(v, int) and v & 0xFFFFFF == 0xFFFFFF:
                cur = up
                continue
        return unparse(up, 70)
    return None
