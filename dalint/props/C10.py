"""C10 - memory writes: R-MEMW-PRE, R-MEMW-CHECK, R-MEMW-LOCK, R-WEN,
R-MEMW-ENABLE, R-MEMW-RAW (DESIGN.md section 3, C10)."""
import ast

from ..core import AnalysisError, unparse, where
from ..cfg import forward_worlds, path_str, _walk_no_nested
from ..fold import Folder, UNKNOWN, EnumMember
from ..seq import (check_rdisc, cond_edge_transfer, kill_conds_on_assign, assigned_names,
                   _is_attr_chain)
from ..memseq import (LOC, WEN_KEEP, selectors, label, const_arg,
                      method_cfg)

MV = LOC + ".MemoryValue"
RW_TYPES = {"RAM_RW", "NVM_RW", "NVM_RW_L", "NVM_RW_P"}


def check(run, repo, world):
    run.explanation = (
        "Decides on the generator CFG of MemoryValue.write_raw/write, for "
        "every path (hence every answer stream): length and writability "
        "refusals and value_to_raw precede the first yield and cover all "
        "locations; DTR1(bank) and EnableWriteMemory dominate every write and "
        "every write is issued in write-enabled state; after each checked "
        "write the None / framing-error / echo tests are made before the "
        "next command, each raising a documented exception, and the DTR0 "
        "post-check follows the loop - the only bypass is the "
        "ignore_feedback parameter; unlock (0x55) is paired with re-lock "
        "(0xFF) on every normal exit under the same guard; value->raw "
        "conversions use the declared width/sign and MASK/TMASK only when "
        "supported.  NOT decided: unit-side effects ('changed no other "
        "location').")
    run.assumptions += [
        "a conforming unit clears writeEnableState on every command outside "
        "%s" % sorted(WEN_KEEP)]
    mod = repo.mod(LOC)
    sel = selectors(run, repo, world)
    fn, cfg, ys, Q = method_cfg(world, MV, "write_raw", lift_values=True)
    run.floor("write_raw yields", len(ys), 4)
    ynode = {y.node.id: y for y in ys}
    params = [a.arg for a in fn.args.args]
    for p in ("raw", "allow_short_write", "force_unlock", "ignore_feedback"):
        if p not in params:
            raise AnalysisError("write_raw lost parameter %s" % p)
    n_use = check_rdisc(run, world, LOC, Q, cfg, ys, mod)
    run.floor("R-RDISC response-use sites (write_raw)", n_use, 2)

    cet = cond_edge_transfer()
    # the loop over cls.locations that refuses a value with a location
    # that cannot be written (other loops over the locations, e.g. one that
    # only computes the unlock flag, are not it)
    wloops = [n for n in cfg.reachable if n.kind == "for" and unparse(
        n.ast.iter) == "cls.locations" and any(
            isinstance(x, ast.Raise) and "MemoryValueNotWriteable" in
            unparse(x, 300) for x in ast.walk(n.ast))]
    wloop_ids = {n.id for n in wloops}
    # the same loop over a part of the locations only (a slice, a filter)
    # leaves locations unchecked: a violation, not an unreadable form
    partial = [n for n in cfg.reachable if n.kind == "for" and unparse(
        n.ast.iter) != "cls.locations" and "cls.locations" in unparse(
            n.ast.iter) and isinstance(n.ast.iter, ast.Subscript) and any(
                isinstance(x, ast.Raise) and "MemoryValueNotWriteable" in
                unparse(x, 300) for x in ast.walk(n.ast))]
    if partial and not wloops:
        run.rule("R-MEMW-PRE", "refusals (length, writability of all "
                 "locations) precede the first command")
        run.ob("R-MEMW-PRE", Q + "#writability-loop", False,
               "the writability check only looks at `%s`: a value with a "
               "read-only location outside that part is not refused before "
               "commands are sent" % unparse(partial[0].ast.iter),
               where(mod, partial[0]))
        return

    def transfer(node, st):
        st = kill_conds_on_assign(node, st)
        if node.kind == "stmt" and isinstance(node.ast, ast.Assign) and \
                unparse(node.ast.targets[0]) == "unlock_required":
            v = node.ast.value
            if isinstance(v, ast.Constant) and v.value is True:
                st = st | {"unlock_required=True-somewhere"}
        y = ynode.get(node.id)
        if y is None:
            return st
        nm = label(y, sel)
        st = st | {"yielded"}
        # outstanding checks of the previous write must be complete before
        # the next command: recorded and examined at this node's entry
        if nm == "EnableWriteMemory":
            st = st | {"wen"}
        elif nm.startswith("from:") or nm not in WEN_KEEP:
            st = st - {"wen"}
        if nm == "DTR1":
            ok = y.arg(1) is not None and unparse(y.arg(1)) == \
                "cls.bank.address"
            st = st | ({"dtr1"} if ok else {"dtr1-wrong"})
        if nm == "DTR0" and const_arg(y, 1) == 2:
            st = st | {"dtr0=2"}
        elif nm == "WriteMemoryLocationNoReply":
            v = const_arg(y, 1)
            if "dtr0=2" in st and v == 0x55 and "wen" in st:
                st = st | {"unlocked"}
            if "dtr0=2" in st and v == 0xFF and "wen" in st:
                st = st - {"unlocked"}
            st = st - {"dtr0=2"}
        else:
            st = st - {"dtr0=2"}
        if nm == "WriteMemoryLocation" and y.target:
            st = st | {("pend", y.target, "none"), ("pend", y.target, "err"),
                       ("pend", y.target, "echo:" + unparse(y.arg(1)))}
        if nm == "QueryContentDTR0" and y.target:
            st = st | {("pend", y.target, "none"), ("pend", y.target, "err"),
                       ("pend", y.target, "dtr0"), "dtr0-queried"}
        return st

    def edge(src, label_, dst, st):
        st = cet(src, label_, dst, st)
        if st is None:
            return None
        if src.kind == "for" and label_ == "done" and src.id in wloop_ids:
            st = st | {"writeable-checked"}
        if src.kind == "test" and label_ in ("T", "F"):
            e = src.ast
            t = label_ == "T"
            drop = set()
            for f in st:
                if not (isinstance(f, tuple) and f[0] == "pend"):
                    continue
                r, what = f[1], f[2]
                if what == "none":
                    if isinstance(e, ast.Compare) and unparse(e) == \
                            "%s.raw_value is None" % r and not t:
                        drop.add(f)
                    if isinstance(e, ast.Compare) and unparse(e) == \
                            "%s.raw_value is not None" % r and t:
                        drop.add(f)
                    if _is_attr_chain(e, [r, "raw_value"]) and t:
                        drop.add(f)
                elif what == "err":
                    if _is_attr_chain(e, [r, "raw_value", "error"]) and not t:
                        drop.add(f)
                elif what.startswith("echo:") or what == "dtr0":
                    want = what[5:] if what.startswith("echo:") else "dtr0"
                    if isinstance(e, ast.Compare) and len(e.ops) == 1:
                        l, rr = unparse(e.left), unparse(e.comparators[0])
                        pair = {l, rr}
                        if pair == {"%s.raw_value.as_integer" % r, want}:
                            if isinstance(e.ops[0], ast.NotEq) and not t:
                                drop.add(f)
                            if isinstance(e.ops[0], ast.Eq) and t:
                                drop.add(f)
            if drop:
                st = st - drop
        return st
    if not wloops:
        bad = _set_form_refusal(world, fn)
        if bad is not None:
            run.rule("R-MEMW-PRE", "refusals (length, writability of all "
                     "locations) precede the first command")
            run.ob("R-MEMW-PRE", Q + "#writable-types", False,
                   "the writability test `%s` over the set of location "
                   "types does not refuse a value whose location types are "
                   "%s (documented: refused as soon as one location is not "
                   "of a writable type): such a value is partly written "
                   "before the unit says no" % (bad[0], sorted(bad[1])),
                   where(mod, bad[2]))
            return
        raise AnalysisError(
            "write_raw: the writability check is not in a form the rule can "
            "read (a loop over cls.locations testing location.type_ against "
            "the writable memory types before the first command)")
    W = forward_worlds(cfg, transfer, edge)
    run.analysed["write_raw worlds at exit"] = len(W.at(cfg.exit))

    # ---- R-MEMW-PRE ---------------------------------------------------------
    run.rule("R-MEMW-PRE", "refusals (length, writability of all locations) "
             "precede the first command")
    pre_raises = []
    for n in cfg.reachable:
        if n.kind == "stmt" and isinstance(n.ast, ast.Raise):
            exc = n.ast.exc
            name = unparse(exc.func if isinstance(exc, ast.Call) else exc)
            if name in ("ValueError", "MemoryValueNotWriteable",
                        "TypeError"):
                pre_raises.append((n, name))
                run.ob("R-MEMW-PRE", "%s#raise %s before first yield@%s" % (
                    Q, name, _guard_text(n)),
                    not W.may(n, "yielded"),
                    "%s can be raised after a command has already been sent"
                    % name, where(mod, n))
    run.floor("write_raw refusal sites", len(pre_raises), 4, defer=True)
    for y in ys:
        if not W.must(y.node, "writeable-checked"):
            run.ob("R-MEMW-PRE", "%s#writability-before:%s" % (
                Q, label(y, sel)), False,
                "%s can be sent before the writability of every location "
                "has been checked" % label(y, sel), where(mod, y.node))
    run.ob("R-MEMW-PRE", Q + "#writability-loop", len(wloops) == 1,
           "expected one loop over cls.locations checking writability",
           where(mod, fn))
    # the allowed set
    folder = Folder(world)
    allowed = None
    sem = _writability_by_member(world, folder, wloops[0]) \
        if len(wloops) == 1 else None
    for n in (cfg.reachable if sem is None else ()):
        if n.kind == "test" and isinstance(n.ast, ast.Compare) and unparse(
                n.ast.left) == "location.type_" and isinstance(
                    n.ast.ops[0], (ast.NotIn, ast.In)):
            v = folder.eval(n.ast.comparators[0], {}, LOC)
            if v is not UNKNOWN:
                allowed = {m.name for m in v if isinstance(m, EnumMember)}
                neg = isinstance(n.ast.ops[0], ast.NotIn)
                tgt = [m for (l, m) in n.succ if l == ("T" if neg else "F")]
                ok = bool(tgt) and all(
                    m.kind == "stmt" and isinstance(m.ast, ast.Raise) and
                    "MemoryValueNotWriteable" in unparse(m.ast.exc)
                    for m in tgt)
                run.ob("R-MEMW-PRE", Q + "#not-writeable-raises", ok,
                       "a location outside the writable types must raise "
                       "MemoryValueNotWriteable", where(mod, n))
    if sem is not None:
        # not the membership-test form: decided per member of MemoryType by
        # evaluating the loop body's path conditions (a lookup table, an
        # if-chain, ... give the same answer)
        allowed = {m_ for m_, (refused, unl) in sem.items() if not refused}
    run.ob("R-MEMW-PRE", Q + "#writable-types", allowed == RW_TYPES,
           "writable memory types are %s, expected %s" % (
               sorted(allowed) if allowed else None, sorted(RW_TYPES)),
           where(mod, fn),
           sample={"rule": "R-MEMW-PRE", "writable_types": sorted(
               allowed or [])})
    # length tests
    tests = {unparse(n.ast) for n in cfg.reachable if n.kind == "test"}
    run.ob("R-MEMW-PRE", Q + "#length-tests",
           "len(raw) != len(cls.locations)" in tests and
           "len(raw) > len(cls.locations)" in tests,
           "length refusal tests not found (have %s)" % sorted(
               t for t in tests if "len(" in t), where(mod, fn))
    # NVM_RW_L -> unlock_required
    ok = False
    for n in cfg.reachable:
        if n.kind == "test" and unparse(n.ast) == \
                "location.type_ == MemoryType.NVM_RW_L":
            for (l, m) in n.succ:
                if l == "T" and m.kind == "stmt" and unparse(m.ast) == \
                        "unlock_required = True":
                    ok = True
    if not ok:
        # the same as one question about all locations:
        # `if any(l.type_ == MemoryType.NVM_RW_L for l in cls.locations)`
        for n in cfg.reachable:
            t_ = n.ast if n.kind == "test" else None
            if isinstance(t_, ast.Call) and unparse(t_.func) == "any" and \
                    len(t_.args) == 1 and isinstance(
                        t_.args[0], (ast.GeneratorExp, ast.ListComp)) and \
                    len(t_.args[0].generators) == 1 and not \
                    t_.args[0].generators[0].ifs and unparse(
                        t_.args[0].generators[0].iter) == "cls.locations" \
                    and isinstance(t_.args[0].generators[0].target,
                                   ast.Name):
                v_ = t_.args[0].generators[0].target.id
                if unparse(t_.args[0].elt) in (
                        "%s.type_ == MemoryType.NVM_RW_L" % v_,
                        "MemoryType.NVM_RW_L == %s.type_" % v_,
                        "%s.type_ is MemoryType.NVM_RW_L" % v_):
                    for (l, m) in n.succ:
                        if l == "T" and m.kind == "stmt" and unparse(
                                m.ast) == "unlock_required = True":
                            ok = True
    if not ok and sem is not None:
        ok = {m_ for m_, (refused, unl) in sem.items()
              if unl and not refused} == {"NVM_RW_L"}
    run.ob("R-MEMW-LOCK", Q + "#lockable-needs-unlock", ok,
           "a lockable (NVM_RW_L) location must set unlock_required",
           where(mod, fn))
    # ... and nothing else decides it: whether the bracket is needed follows
    # from the declared location types (and the caller's force_unlock), not
    # from what the unit's lock byte happens to hold - a bank found unlocked
    # must still be left locked
    odd = []
    for n in cfg.reachable:
        if n.kind == "stmt" and isinstance(n.ast, ast.Assign) and any(
                unparse(t_) == "unlock_required" for t_ in n.ast.targets):
            v_ = n.ast.value
            if isinstance(v_, ast.Constant) and isinstance(v_.value, bool):
                continue
            if unparse(v_) in ("force_unlock", "bool(force_unlock)"):
                continue
            odd.append(unparse(n.ast, 120))
    run.ob("R-MEMW-LOCK", Q + "#unlock-decided-by-declaration", not odd,
           "unlock_required is also set by `%s`: when the bracket is "
           "skipped because of what the unit reports, a write that returns "
           "normally leaves a lockable bank unlocked" % "`, `".join(odd),
           where(mod, fn))

    # ---- R-MEMW-CHECK -----------------------------------------------------
    run.rule("R-MEMW-CHECK", "None / framing-error / echo tests after each "
             "checked write and the DTR0 post-check, before the next command "
             "or a normal return; only ignore_feedback bypasses them")
    points = [y.node for y in ys] + [cfg.exit]
    for n in points:
        for w in W.at(n):
            pend = sorted(f for f in w if isinstance(f, tuple)
                          and f[0] == "pend")
            if pend:
                what = ", ".join("%s:%s" % (f[1], f[2]) for f in pend)
                run.ob("R-MEMW-CHECK", "%s#unchecked(%s)" % (Q, what), False,
                       "the sequence proceeds to %s with the previous answer "
                       "not fully checked (%s): a failed write is reported "
                       "as success: %s" % (
                           "its normal end" if n is cfg.exit else
                           label(ynode[n.id], sel), what,
                           path_str(W.trace(n, w)[-10:], 10)),
                       where(mod, n))
                break
    checked = [y for y in ys if label(y, sel) == "WriteMemoryLocation"]
    unchecked = [y for y in ys if label(y, sel) ==
                 "WriteMemoryLocationNoReply" and const_arg(y, 1) is None]
    run.floor("checked data-write sites", len(checked), 1)
    for y in checked:
        run.ob("R-MEMW-CHECK", Q + "#answer-bound", y.target is not None,
               "the answer to WriteMemoryLocation is discarded",
               where(mod, y.node))
        run.ob("R-MEMW-CHECK", Q + "#checked-write-checked", True,
               sample={"rule": "R-MEMW-CHECK", "write": unparse(y.node.ast),
                       "pending_after": ["none", "err",
                                         "echo:" + unparse(y.arg(1))]})
    for y in unchecked:
        run.ob("R-MEMW-CHECK", Q + "#noreply-only-under-ignore_feedback",
               W.must(y.node, ("cond", "ignore_feedback", True)),
               "data is written with the no-reply command on a path where "
               "ignore_feedback is not set", where(mod, y.node))
    # DTR0 post-check on every path where ignore_feedback is false
    bad = W.worlds_with(cfg.exit, lambda w: "dtr0-queried" not in w and
                        ("cond", "ignore_feedback", True) not in w)
    run.ob("R-MEMW-CHECK", Q + "#dtr0-post-check", not bad,
           "a normal return is reachable without the DTR0 post-check "
           "although ignore_feedback is not set: %s" % (
               path_str(W.trace(cfg.exit, bad[0])[-10:], 10) if bad else ""),
           where(mod, fn))
    # exception classes of the checks
    want = [("WriteMemoryLocation", "raw_value is None",
             "MemoryLocationNotWriteable"),
            ("WriteMemoryLocation", "raw_value.error", "ResponseError"),
            ("WriteMemoryLocation", "!= value", "ResponseError"),
            ("QueryContentDTR0", "raw_value is None", "ResponseError"),
            ("QueryContentDTR0", "raw_value.error", "ResponseError"),
            ("QueryContentDTR0", "!= dtr0", "MemoryWriteFailure")]
    found = {}
    for n in cfg.reachable:
        if n.kind != "test":
            continue
        t = unparse(n.ast)
        src = _nearest_yield(n, ynode, sel)
        for (cmd, frag, exc) in want:
            if src == cmd and t.endswith(frag):
                tgt = [m for (l, m) in n.succ if l == "T"]
                ok = bool(tgt) and all(
                    m.kind == "stmt" and isinstance(m.ast, ast.Raise)
                    and unparse(m.ast.exc.func if isinstance(
                        m.ast.exc, ast.Call) else m.ast.exc) == exc
                    for m in tgt)
                found[(cmd, frag)] = ok
    for (cmd, frag, exc) in want:
        run.ob("R-MEMW-CHECK", "%s#%s:%s->%s" % (Q, cmd, frag, exc),
               found.get((cmd, frag), False),
               "after %s the test `...%s` must raise %s" % (cmd, frag, exc),
               where(mod, fn))

    # ---- R-MEMW-LOCK ------------------------------------------------------
    run.rule("R-MEMW-LOCK", "unlock (0x55) paired with re-lock (0xFF) on "
             "every normal exit; same guard")
    writes = [y for y in ys if label(y, sel).startswith(
        "WriteMemoryLocation")]
    unl = [y for y in writes if const_arg(y, 1) == 0x55]
    rel = [y for y in writes if const_arg(y, 1) == 0xFF]
    run.ob("R-MEMW-LOCK", Q + "#has-bracket", len(unl) == 1 and len(rel) >= 1,
           "expected one unlock write (0x55) and a re-lock write (0xFF)",
           where(mod, fn))
    bad = W.worlds_with(cfg.exit, lambda w: "unlocked" in w)
    run.ob("R-MEMW-LOCK", Q + "#relock-on-normal-exit", not bad,
           "write_raw can return normally with the bank left unlocked: %s"
           % (path_str(W.trace(cfg.exit, bad[0])[-12:], 12) if bad else ""),
           where(mod, fn),
           sample={"rule": "R-MEMW-LOCK", "worlds_at_exit": len(
               W.at(cfg.exit))})
    for y in unl + rel:
        prev = _prev_yields(y.node, ynode)
        okp = bool(prev) and all(p is not None and label(p, sel) == "DTR0"
                                 and const_arg(p, 1) == 2 for p in prev)
        run.ob("R-MEMW-LOCK", "%s#lock-byte-write(%s)" % (
            Q, hex(const_arg(y, 1))),
            okp and W.must(y.node, ("cond", "unlock_required", True)),
            "the lock byte write must directly follow DTR0(addr, 2) under "
            "`unlock_required`", where(mod, y.node))
    # unlock happens when required: no data write in an "unlock_required"
    # world without 'unlocked'
    for y in checked + unchecked:
        bad = W.worlds_with(y.node, lambda w: (
            ("cond", "unlock_required", True) in w and "unlocked" not in w))
        run.ob("R-MEMW-LOCK", "%s#unlocked-before-data:%s" % (
            Q, label(y, sel)), not bad,
            "data can be written while unlock_required is set but the bank "
            "has not been unlocked", where(mod, y.node))

    # ---- R-WEN --------------------------------------------------------------
    run.rule("R-WEN", "every WriteMemoryLocation(NoReply) is issued in "
             "write-enabled state on all paths")
    for y in writes:
        bad = W.worlds_with(y.node, lambda w: "wen" not in w)
        v = const_arg(y, 1)
        run.ob("R-WEN", "%s#%s(%s)" % (Q, label(y, sel),
                                       hex(v) if v is not None else "data"),
               not bad,
               "this write can be reached with write-enable cleared: %s" % (
                   path_str(W.trace(y.node, bad[0])[-10:], 10) if bad
                   else ""), where(mod, y.node))

    # ---- R-MEMW-ENABLE --------------------------------------------------------
    run.rule("R-MEMW-ENABLE", "DTR1(bank) dominates writes; data loop is "
             "zip(cls.locations, raw); DTR0 loaded per location; tracker "
             "advanced")
    for y in writes:
        run.ob("R-MEMW-ENABLE", "%s#DTR1-before:%s" % (
            Q, hex(const_arg(y, 1)) if const_arg(y, 1) is not None
            else label(y, sel)),
            W.must(y.node, "dtr1"),
            "a write can be reached without DTR1 := cls.bank.address",
            where(mod, y.node))
    dloops = [n for n in cfg.reachable if n.kind == "for" and unparse(
        n.ast.iter) == "zip(cls.locations, raw)"]
    run.ob("R-MEMW-ENABLE", Q + "#data-loop", len(dloops) == 1 and unparse(
        dloops[0].ast.target) in ("(location, value)", "location, value"),
        "the data loop must pair location i with byte i: "
        "`for location, value in zip(cls.locations, raw)`", where(mod, fn))
    for y in checked + unchecked:
        run.ob("R-MEMW-ENABLE", "%s#data-arg:%s" % (Q, label(y, sel)),
               y.arg(1) is not None and unparse(y.arg(1)) == "value",
               "the data byte written must be the loop's `value`",
               where(mod, y.node))
    d0 = [y for y in ys if label(y, sel) == "DTR0" and y.arg(1) is not None
          and unparse(y.arg(1)) == "location.address"]
    ok = len(d0) == 1 and W.must(d0[0].node, (
        "cond", "location.address == dtr0", False))
    run.ob("R-MEMW-ENABLE", Q + "#DTR0-per-location", ok,
           "DTR0 := location.address must be issued exactly when the local "
           "tracker differs", where(mod, fn))
    dnodes = [n for n in cfg.reachable
              if n.kind == "stmt" and isinstance(n.ast, ast.Assign)
              and unparse(n.ast.targets[0]) == "dtr0"]
    defs = sorted(unparse(n.ast.value) for n in dnodes)
    # the tracker is: unknown (None) or just past the lock byte (3) before
    # the data loop, the address loaded, and one more after a write with
    # the unit's saturation at 255 - written with min() or as the two arms
    # of a test against 255
    okt = True
    kinds = set()
    adv = []
    for n in dnodes:
        t = unparse(n.ast.value)
        if t == "None":
            kinds.add("unknown")
        elif t == "3":
            kinds.add("past-lock")
        elif t == "location.address":
            kinds.add("loaded")
        elif t in ("min(dtr0 + 1, 255)", "min(255, dtr0 + 1)",
                   "min(1 + dtr0, 255)"):
            kinds.add("advance")
            adv.append(n)
        elif t in ("dtr0 + 1", "1 + dtr0"):
            lt = W.must(n, ("cond", "dtr0 < 255", True)) or W.must(
                n, ("cond", "dtr0 >= 255", False)) or W.must(
                    n, ("cond", "dtr0 == 255", False))
            okt = okt and lt
            kinds.add("advance")
            adv.append(n)
        elif t == "255":
            sat = W.must(n, ("cond", "dtr0 < 255", False)) or W.must(
                n, ("cond", "dtr0 >= 255", True)) or W.must(
                    n, ("cond", "dtr0 == 255", True))
            okt = okt and sat
            adv.append(n)
        else:
            okt = False
    run.ob("R-MEMW-ENABLE", Q + "#tracker",
           okt and kinds == {"unknown", "past-lock", "loaded", "advance"},
           "tracker definitions are %s" % defs, where(mod, fn))
    # tracker advanced after each data write, before the next iteration
    for lp in dloops:
        ok = bool(adv) and _all_cycles_pass_any(lp, adv)
        run.ob("R-MEMW-ENABLE", Q + "#tracker-advanced", ok,
               "the tracker must be advanced on every iteration of the data "
               "loop", where(mod, lp))

    # the DTR0 post-check looks at what the data writes left in the unit's
    # DTR0: nothing reloads DTR0 (a re-lock, say) between the last data
    # write and the query, or a unit that never advanced would pass
    ynode_ = {y.node.id: y for y in ys}
    for y in ys:
        if label(y, sel) != "QueryContentDTR0":
            continue
        prev = _prev_yields(y.node, ynode_)
        # (with no data at all the query follows the write-enable or the
        # unlock write; what must not come in between is a DTR0 load or
        # the re-lock)
        okp = bool(prev) and all(
            p_ is not None and label(p_, sel) != "DTR0" and not (
                label(p_, sel).startswith("WriteMemoryLocation") and
                const_arg(p_, 1) == 0xFF) for p_ in prev)
        run.ob("R-MEMW-CHECK", Q + "#post-check-follows-data-writes", okp,
               "the command before the DTR0 post-check is %s on some path; "
               "a DTR0 load or the re-lock write there replaces the value "
               "the data writes left in the unit's DTR0" % sorted(
                   {label(p_, sel) if p_ is not None else "entry"
                    for p_ in prev}), where(mod, y.node))

    _check_write(run, repo, world, mod, sel)
    _check_value_to_raw(run, repo, world, mod)


def _guard_text(n):
    preds = [p for (l, p) in n.pred]
    if len(preds) == 1 and preds[0].kind == "test":
        return unparse(preds[0].ast)[:50]
    return "L?"


def _nearest_yield(node, ynode, sel):
    """Label of the command whose answer a test looks at: the nearest yield
    on the feasible backward paths (a path that takes one test both ways is
    not feasible: `if f: A else: B` followed by `if not f:` reaches the
    second body from B only)."""
    import re
    from ..seq import norm_test
    found = set()
    seen = set()
    stack = [(p, l, node, frozenset()) for (l, p) in node.pred]
    steps = 0
    while stack:
        n, lab, succ, facts = stack.pop()
        steps += 1
        if steps > 20000:
            return None
        if n.kind == "test" and lab in ("T", "F"):
            txt, pol = norm_test(n.ast)
            val = pol if lab == "T" else not pol
            if (txt, not val) in facts:
                continue            # contradicts a later test
            facts = facts | {(txt, val)}
        if n.kind == "stmt" and isinstance(n.ast, (ast.Assign,
                                                   ast.AugAssign)):
            names = assigned_names(n.ast)
            facts = frozenset(f for f in facts if not any(
                re.search(r"(?<![A-Za-z0-9_.])%s(?![A-Za-z0-9_])" % re.escape(
                    nm), f[0]) for nm in names))
        if (n.id, facts) in seen:
            continue
        seen.add((n.id, facts))
        if n.id in ynode:
            # the branch the command itself sits in must agree as well
            cur, feasible = n, True
            while len(cur.pred) == 1 and feasible:
                (l2, p2) = cur.pred[0]
                if p2.kind == "test" and l2 in ("T", "F"):
                    txt, pol = norm_test(p2.ast)
                    val = pol if l2 == "T" else not pol
                    if (txt, not val) in facts:
                        feasible = False
                elif p2.kind == "stmt" and isinstance(
                        p2.ast, (ast.Assign, ast.AugAssign)):
                    break
                cur = p2
            if feasible:
                found.add(label(ynode[n.id], sel))
            continue
        stack += [(p, l, n, facts) for (l, p) in n.pred]
    return found.pop() if len(found) == 1 else None


def _prev_yields(node, ynode):
    out, seen = [], set()
    stack = [p for (l, p) in node.pred]
    while stack:
        n = stack.pop()
        if n.id in seen:
            continue
        seen.add(n.id)
        if n.id in ynode:
            out.append(ynode[n.id])
            continue
        if n.kind == "entry":
            out.append(None)
            continue
        stack += [p for (l, p) in n.pred]
    return out


def _all_cycles_pass(loop, node):
    seen, stack = set(), [m for (l, m) in loop.succ if l == "loop"]
    while stack:
        n = stack.pop()
        if n.id in seen or n is node:
            continue
        seen.add(n.id)
        if n is loop:
            return False
        stack += [m for (l, m) in n.succ if l != "exc"]
    return True


def _kwargs_touched(fn, kw, call):
    """Any use of the **kwargs dict other than passing it on in `call`."""
    passed = [k.value for k in call.keywords if k.arg is None]
    for s_ in fn.body:
        for n in _walk_no_nested(s_):
            if isinstance(n, ast.Name) and n.id == kw and not any(
                    n is p_ for p_ in passed):
                return True
    return False


def _forces_short_write(fnw):
    """StringValue.write: one delegation super().write(addr, value, **K)
    where K is the caller's keyword arguments with allow_short_write forced
    to True (the forced entry wins over what the caller passed)."""
    params = [a.arg for a in fnw.args.args]
    kw = fnw.args.kwarg.arg if fnw.args.kwarg else None
    if len(params) < 3 or kw is None:
        return False
    calls = [n for n in ast.walk(fnw) if isinstance(n, ast.Call) and unparse(
        n.func) in ("super().write", "super(StringValue, cls).write")]
    if len(calls) != 1:
        return False
    c = calls[0]
    if [unparse(a) for a in c.args] != params[1:3]:
        return False
    # the delegation's result is what the method returns / delegates to
    okret = any((isinstance(s_, ast.Return) and s_.value is c) or (
        isinstance(s_, ast.Return) and isinstance(s_.value, ast.YieldFrom)
        and s_.value.value is c) or (isinstance(s_, ast.Expr) and isinstance(
            s_.value, ast.YieldFrom) and s_.value.value is c)
        for s_ in ast.walk(fnw))
    if not okret:
        return False

    def true(e):
        return isinstance(e, ast.Constant) and e.value is True
    K = "allow_short_write"
    star = [k.value for k in c.keywords if k.arg is None]
    named = [k.arg for k in c.keywords if k.arg is not None]
    if named or len(star) != 1:
        return False
    m = star[0]
    # stores into the kwargs dict before the call
    forced_before = False
    for s_ in fnw.body:
        if any(n is c for n in ast.walk(s_)):
            break
        t = unparse(s_)
        if t in ("%s['%s'] = True" % (kw, K),
                 "%s.update(%s=True)" % (kw, K),
                 "%s.update({'%s': True})" % (kw, K),
                 "%s |= {'%s': True}" % (kw, K)):
            forced_before = True
        elif any(isinstance(n, ast.Name) and n.id == kw
                 for n in ast.walk(s_)):
            forced_before = False      # something else done to the dict
    if isinstance(m, ast.Name) and m.id == kw:
        return forced_before
    if isinstance(m, ast.Dict):
        # {**kwargs, K: True}: the last entry for a key wins
        ents = list(zip(m.keys, m.values))
        if not ents:
            return False
        lk, lv = ents[-1]
        rest = ents[:-1]
        return isinstance(lk, ast.Constant) and lk.value == K and true(lv) \
            and len(rest) == 1 and rest[0][0] is None and unparse(
                rest[0][1]) == kw
    if isinstance(m, ast.Call) and unparse(m.func) == "dict" and len(
            m.args) == 1 and unparse(m.args[0]) == kw and len(
                m.keywords) == 1 and m.keywords[0].arg == K and true(
                    m.keywords[0].value):
        return True
    if isinstance(m, ast.BinOp) and isinstance(m.op, ast.BitOr) and unparse(
            m.left) == kw and unparse(m.right) == "{'%s': True}" % K:
        return True
    return False


def _all_cycles_pass_any(loop, nodes):
    """Every cycle loop-head -> loop-head passes one of `nodes`."""
    ids = {n.id for n in nodes}
    seen, stack = set(), [m for (l, m) in loop.succ if l == "loop"]
    while stack:
        n = stack.pop()
        if n.id in seen or n.id in ids:
            continue
        seen.add(n.id)
        if n is loop:
            return False
        stack += [m for (l, m) in n.succ if l != "exc"]
    return True


def _check_write(run, repo, world, mod, sel):
    fn, cfg, ys, Q = method_cfg(world, MV, "write")
    # raw = cls.value_to_raw(value) before yield from cls.write_raw(addr,
    # raw, **kwargs)
    from .. import astq
    params = [a.arg for a in fn.args.args]
    kw = fn.args.kwarg.arg if fn.args.kwarg else None
    sus = [n for s_ in fn.body for n in _walk_no_nested(s_)
           if isinstance(n, (ast.Yield, ast.YieldFrom, ast.Await))]
    ok = False
    if len(sus) == 1 and isinstance(sus[0], ast.YieldFrom) and isinstance(
            sus[0].value, ast.Call) and len(params) >= 3 and kw:
        c = sus[0].value
        kws = [(k.arg, unparse(k.value)) for k in c.keywords]
        ok = unparse(c.func) == "cls.write_raw" and len(c.args) == 2 and \
            unparse(c.args[0]) == params[1] and astq.canon(
                fn, c.args[1], calls=True) == "cls.value_to_raw(%s)" \
            % params[2] and kws == [(None, kw)] and not _kwargs_touched(
                fn, kw, c)
    run.ob("R-MEMW-PRE", Q + "#convert-then-write", ok,
           "write must convert with value_to_raw (which may refuse) before "
           "delegating everything to write_raw", where(mod, fn))


def _check_value_to_raw(run, repo, world, mod):
    run.rule("R-MEMW-RAW", "value->raw conversions: declared width, big "
             "endian, declared signedness; MASK/TMASK only when supported; "
             "strings NUL-terminated when shorter")
    from .. import pred, paths
    nv = world.cls(LOC + ".NumericValue")
    fn = nv.methods["value_to_raw"][1]
    Q = LOC + ".NumericValue.value_to_raw"
    from ..unroll import detable
    from ..normal import normalise
    from ..memseq import PRIMITIVES
    # helpers introduced around the conversion (a classmethod that maps the
    # MASK / TMASK literals) are inlined first
    fn = normalise(fn, world, LOC, nv, primitives=PRIMITIVES, aliases=False)
    fn, _ = detable(fn)
    ps = paths.summaries(fn)

    def _feasible(p_):
        # the metaclass sets cls.mask / cls.tmask (bytes) exactly when the
        # corresponding *_supported flag is set (C11 R-MASK): a path on
        # which a supported pattern is None does not exist
        c_ = {(unparse(t_), b_) for (t_, b_) in p_.conds}
        for w_ in ("mask", "tmask"):
            if ("cls.%s_supported" % w_, True) in c_ and (
                    ("cls.%s is not None" % w_, False) in c_ or
                    ("cls.%s is None" % w_, True) in c_):
                return False
        return True
    ps = [p_ for p_ in ps if _feasible(p_)]
    # the numeric encoding: every returned to_bytes call
    tb = []
    for p_ in ps:
        if p_.kind == "return" and isinstance(p_.expr, ast.Call) and \
                isinstance(p_.expr.func, ast.Attribute) and \
                p_.expr.func.attr == "to_bytes":
            c = p_.expr
            kw = {k.arg: unparse(k.value) for k in c.keywords}
            args = [unparse(a) for a in c.args]
            length = args[0] if args else kw.get("length")
            order = args[1] if len(args) > 1 else kw.get("byteorder")
            tb.append((unparse(c.func.value), length, order,
                       kw.get("signed"), p_))
    run.ob("R-MEMW-RAW", Q + "#to_bytes", bool(tb) and all(
        t[:4] == ("value", "len(cls.locations)", "'big'", "cls.signed")
        for t in tb),
        "numeric conversion must be value.to_bytes(len(cls.locations), "
        "'big', signed=cls.signed); found %s" % [t[:4] for t in tb],
        where(mod, fn))

    def conds(p_):
        return {(unparse(t), b) for (t, b) in p_.conds}
    mask = [p_ for p_ in ps if p_.kind == "return" and unparse(p_.expr) in (
        "cls.mask", "cls.tmask")]
    okm = {unparse(p_.expr) for p_ in mask} == {"cls.mask", "cls.tmask"}
    for p_ in mask:
        w = "MASK" if unparse(p_.expr) == "cls.mask" else "TMASK"
        sup = "cls.%s_supported" % w.lower()
        c = conds(p_)
        okm = okm and (sup, True) in c and (
            ("value == '%s'" % w, True) in c or
            ("'%s' == value" % w, True) in c)
    # and a supported literal never reaches the integer encoding
    for t in tb:
        c = conds(t[4])
        for w in ("MASK", "TMASK"):
            sup = "cls.%s_supported" % w.lower()
            if not ((sup, False) in c or ("value == '%s'" % w, False) in c
                    or ("'%s' == value" % w, False) in c):
                okm = False
    run.ob("R-MEMW-RAW", Q + "#mask-literals", okm,
           "MASK/TMASK literals must map to cls.mask/cls.tmask exactly "
           "when supported (paths: %s)" % ps, where(mod, fn))
    okint = bool(tb) and all(("isinstance(value, int)", True) in conds(t[4])
                             for t in tb) and any(
        p_.kind == "raise" and ("isinstance(value, int)", False) in conds(p_)
        for p_ in ps)
    run.ob("R-MEMW-RAW", Q + "#int-required", okint,
           "a non-int must be refused before the integer encoding",
           where(mod, fn))
    _check_fixed_scale(run, world, mod)
    # ---- strings ------------------------------------------------------------
    sv = world.cls(LOC + ".StringValue")
    fn = sv.methods["value_to_raw"][1]
    Q = LOC + ".StringValue.value_to_raw"
    ps = paths.summaries(fn)
    ENC = "value.encode('ascii')"
    P = pred.Parser(pred.lin_of({"len(%s)" % ENC: "L",
                                 "len(cls.locations)": "N",
                                 "L": "L", "N": "N"}))

    def region(sel_):
        ds = []
        for p_ in ps:
            if sel_(p_):
                t = ("and", [("atom", a) if b else ("not", ("atom", a))
                             for (tst, b) in p_.conds
                             for a in [None]] )
                trees = []
                for (tst, b) in p_.conds:
                    tr = P.tree(tst)
                    trees.append(tr if b else ("not", tr))
                ds.append(pred.dnf(("and", trees)))
        return pred.union(*ds) if ds else frozenset()

    def f(src):
        return P.dnf(ast.parse(src, mode="eval").body)
    nul = ("%s + b'\\x00'" % ENC, "%s + bytes(1)" % ENC,
           "%s + bytes([0])" % ENC)
    regs = {
        "too long -> ValueError": (region(
            lambda p_: p_.kind == "raise" and paths.exc_name(
                p_.expr) == "ValueError"), f("L > N")),
        "exact fit -> the encoded string": (region(
            lambda p_: p_.kind == "return" and unparse(p_.expr) == ENC),
            f("L == N")),
        "shorter -> one NUL appended": (region(
            lambda p_: p_.kind == "return" and unparse(p_.expr) in nul),
            f("L < N")),
    }
    other = [p_ for p_ in ps if not (
        (p_.kind == "raise" and paths.exc_name(p_.expr) == "ValueError") or
        (p_.kind == "return" and unparse(p_.expr) in (ENC,) + nul))]
    ok = not other
    why = ["unrecognised outcome %r" % o for o in other]
    for name, (got, want) in regs.items():
        e, w = pred.equivalent(got, want)
        if not e:
            ok = False
            why.append("%s: happens when `%s`, required when `%s`" % (
                name, pred.show(got), pred.show(want)))
    run.ob("R-MEMW-RAW", Q + "#nul-termination", ok,
           "strings must be ASCII-encoded, refused when too long and get "
           "exactly one NUL when shorter: " + "; ".join(why), where(mod, fn),
           sample={"rule": "R-MEMW-RAW", "paths": [repr(p_) for p_ in ps]})
    fnw = sv.methods["write"][1]
    okw = _forces_short_write(fnw)
    run.ob("R-MEMW-RAW", LOC + ".StringValue.write#short-write", okw,
           "StringValue.write must force allow_short_write and delegate",
           where(mod, fnw))


def _set_form_refusal(world, fn):
    """The writability check written as one question about the *set* of the
    locations' types (`types = {l.type_ for l in cls.locations}; if <test of
    types>: raise MemoryValueNotWriteable`): the test is evaluated for every
    non-empty set of MemoryType members (a finite domain; only set algebra,
    membership and boolean connectives are admitted).  Returns (test text,
    a set of types that should be refused and is not - or the reverse, If
    node) when the test disagrees with `some type is not writable`, None
    when it agrees or the form is not this one."""
    import itertools
    folder = Folder(world)
    mt = world.cls(LOC + ".MemoryType")
    if mt is None:
        return None
    members = sorted(folder.enum_members(mt).keys())
    setvars = {}
    for n in ast.walk(fn):
        if isinstance(n, ast.Assign) and len(n.targets) == 1 and isinstance(
                n.targets[0], ast.Name):
            v = n.value
            if isinstance(v, ast.Call) and unparse(v.func) in (
                    "set", "frozenset") and len(v.args) == 1:
                v = v.args[0]
            if isinstance(v, (ast.SetComp, ast.GeneratorExp, ast.ListComp)) \
                    and len(v.generators) == 1 and not v.generators[0].ifs \
                    and unparse(v.generators[0].iter) == "cls.locations" \
                    and isinstance(v.generators[0].target, ast.Name) and \
                    unparse(v.elt) == v.generators[0].target.id + ".type_":
                setvars[n.targets[0].id] = n
    if not setvars:
        return None

    class Bad(Exception):
        pass

    def ev(e, env):
        if isinstance(e, ast.Constant):
            return e.value
        if isinstance(e, ast.Name):
            if e.id in env:
                return env[e.id]
            raise Bad()
        if isinstance(e, ast.Attribute) and unparse(e.value) == "MemoryType" \
                and e.attr in members:
            return e.attr
        if isinstance(e, (ast.Tuple, ast.List, ast.Set)):
            return frozenset(ev(x, env) for x in e.elts)
        if isinstance(e, ast.UnaryOp) and isinstance(e.op, ast.Not):
            return not ev(e.operand, env)
        if isinstance(e, ast.BoolOp):
            vs = [ev(x, env) for x in e.values]
            return all(vs) if isinstance(e.op, ast.And) else any(vs)
        if isinstance(e, ast.BinOp) and isinstance(
                e.op, (ast.Sub, ast.BitAnd, ast.BitOr)):
            a, b = ev(e.left, env), ev(e.right, env)
            if not (isinstance(a, frozenset) and isinstance(b, frozenset)):
                raise Bad()
            return a - b if isinstance(e.op, ast.Sub) else (
                a & b if isinstance(e.op, ast.BitAnd) else a | b)
        if isinstance(e, ast.Compare) and len(e.ops) == 1:
            a, b = ev(e.left, env), ev(e.comparators[0], env)
            op = e.ops[0]
            if isinstance(op, (ast.In, ast.NotIn)):
                if not isinstance(b, frozenset):
                    raise Bad()
                return (a in b) != isinstance(op, ast.NotIn)
            if isinstance(a, frozenset) and isinstance(b, frozenset):
                if isinstance(op, ast.LtE):
                    return a <= b
                if isinstance(op, ast.Lt):
                    return a < b
                if isinstance(op, ast.GtE):
                    return a >= b
                if isinstance(op, ast.Gt):
                    return a > b
                if isinstance(op, ast.Eq):
                    return a == b
                if isinstance(op, ast.NotEq):
                    return a != b
            raise Bad()
        if isinstance(e, ast.Call) and not e.keywords:
            if isinstance(e.func, ast.Name) and e.func.id in (
                    "bool", "len", "set", "frozenset") and len(e.args) == 1:
                a = ev(e.args[0], env)
                if not isinstance(a, frozenset):
                    raise Bad()
                return {"bool": bool, "len": len, "set": frozenset,
                        "frozenset": frozenset}[e.func.id](a)
            if isinstance(e.func, ast.Attribute) and e.func.attr in (
                    "isdisjoint", "issubset", "issuperset", "intersection",
                    "difference", "union") and len(e.args) == 1:
                a, b = ev(e.func.value, env), ev(e.args[0], env)
                if not (isinstance(a, frozenset) and isinstance(
                        b, frozenset)):
                    raise Bad()
                return getattr(a, e.func.attr)(b)
        raise Bad()
    for n in ast.walk(fn):
        if not (isinstance(n, ast.If) and n.body and isinstance(
                n.body[0], ast.Raise) and "MemoryValueNotWriteable" in
                unparse(n.body[0], 300)):
            continue
        used = {x.id for x in ast.walk(n.test) if isinstance(x, ast.Name)}
        tv = [v for v in setvars if v in used]
        if len(tv) != 1:
            continue
        for k in range(1, len(members) + 1):
            for sub in itertools.combinations(members, k):
                S = frozenset(sub)
                try:
                    refused = bool(ev(n.test, {tv[0]: S}))
                except Bad:
                    return None
                if refused != (not S <= frozenset(RW_TYPES)):
                    return (unparse(n.test, 120), S, n)
        return None
    return None


def _writability_by_member(world, folder, wloop):
    """{member name: (refused, sets unlock_required)} for every member of
    MemoryType, from the path summaries of the writability loop's body with
    the location's type fixed to that member (conditions folded; a local
    bound to a table lookup resolved).  None when a condition cannot be
    folded."""
    from .. import paths, astq
    from ..inline import acopy
    loop = wloop.ast
    if not isinstance(loop.target, ast.Name):
        return None
    var = loop.target.id
    stub = ast.FunctionDef(name="body", args=ast.arguments(
        posonlyargs=[], args=[ast.arg("cls"), ast.arg(var)], kwonlyargs=[],
        kw_defaults=[], defaults=[]), body=[acopy(x) for x in loop.body],
        decorator_list=[], returns=None, type_comment=None, type_params=[])
    ast.fix_missing_locations(stub)
    try:
        ps = paths.summaries(stub)
    except paths.Unsupported:
        return None
    defs = astq._defs(stub)
    mt = world.cls(LOC + ".MemoryType")
    if mt is None:
        return None
    members = list(folder.enum_members(mt).keys())
    out = {}
    for mname in members:
        class S(ast.NodeTransformer):
            def visit_Attribute(self, n):
                if isinstance(n.ctx, ast.Load) and unparse(n) == \
                        var + ".type_":
                    return ast.copy_location(ast.Attribute(
                        ast.Name("MemoryType", ast.Load()), mname,
                        ast.Load()), n)
                return self.generic_visit(n)

        def val(e):
            e2 = astq.resolve(stub, e, defs=defs, calls=True)
            e2 = ast.fix_missing_locations(S().visit(acopy(e2)))
            # T.get(K): folded by hand (the folder does not call methods)
            class G(ast.NodeTransformer):
                def visit_Call(self, n):
                    self.generic_visit(n)
                    if isinstance(n.func, ast.Attribute) and \
                            n.func.attr == "get" and 1 <= len(n.args) <= 2:
                        t = folder.eval(n.func.value, {}, LOC)
                        k = folder.eval(n.args[0], {}, LOC)
                        if isinstance(t, dict) and k is not UNKNOWN:
                            hit = [v for kk, v in t.items() if kk == k or (
                                isinstance(kk, EnumMember) and isinstance(
                                    k, EnumMember) and kk.name == k.name)]
                            if hit:
                                v = hit[0]
                            elif len(n.args) == 2:
                                return n.args[1]
                            else:
                                v = None
                            if v is None or type(v) in (bool, int, str):
                                return ast.copy_location(ast.Constant(v), n)
                    return n
            e2 = ast.fix_missing_locations(G().visit(e2))
            return folder.eval(e2, {}, LOC)
        refused = unl = False
        feasible = 0
        for p_ in ps:
            okp = True
            for (t, b) in p_.conds:
                v = val(t)
                if v is UNKNOWN:
                    return None
                if bool(v) != b:
                    okp = False
                    break
            if not okp:
                continue
            feasible += 1
            if p_.kind == "raise":
                refused = True
            uv = (p_.env or {}).get("unlock_required")
            if isinstance(uv, ast.Constant) and uv.value is True:
                unl = True
        if feasible != 1:
            return None
        out[mname] = (refused, unl)
    return out


def _check_fixed_scale(run, world, mod):
    """FixedScaleNumericValue.value_to_raw: the raw number is value divided
    by the scaling factor, and a value that is not a whole number of steps
    is refused (ValueError) - otherwise another number than the one asked
    for is written.  Decided on the path summaries, with the quotient and
    the remainder recognised however they are spelt (divmod, // and %)."""
    from .. import paths
    fs = world.cls(LOC + ".FixedScaleNumericValue")
    if fs is None or "value_to_raw" not in fs.methods:
        raise AnalysisError("FixedScaleNumericValue.value_to_raw vanished")
    fn = fs.methods["value_to_raw"][1]
    Q = LOC + ".FixedScaleNumericValue.value_to_raw"
    v = fn.args.args[1].arg
    S = "cls.scaling_factor"
    defs = {}
    for st in ast.walk(fn):
        if isinstance(st, ast.Assign) and len(st.targets) == 1:
            t, val = st.targets[0], st.value
            if isinstance(t, ast.Tuple) and len(t.elts) == 2 and all(
                    isinstance(e, ast.Name) for e in t.elts) and \
                    isinstance(val, ast.Call) and unparse(val.func) == \
                    "divmod" and [unparse(a) for a in val.args] == [v, S]:
                defs[t.elts[0].id] = "QUOT"
                defs[t.elts[1].id] = "REM"
            elif isinstance(t, ast.Name):
                defs[t.id] = val

    def canon(e, depth=0):
        if depth > 6:
            return unparse(e)
        if isinstance(e, ast.Name) and e.id in defs:
            d = defs[e.id]
            return d if isinstance(d, str) else canon(d, depth + 1)
        if isinstance(e, ast.BinOp) and unparse(e.left) == v and \
                unparse(e.right) == S:
            if isinstance(e.op, ast.Mod):
                return "REM"
            if isinstance(e.op, ast.FloorDiv):
                return "QUOT"
        if isinstance(e, ast.Subscript) and isinstance(
                e.value, ast.Call) and unparse(e.value) == \
                "divmod(%s, %s)" % (v, S) and isinstance(
                    e.slice, ast.Constant):
            return {0: "QUOT", 1: "REM"}.get(e.slice.value, unparse(e))
        if isinstance(e, ast.Call) and unparse(e.func) == "int" and len(
                e.args) == 1 and not e.keywords:
            c_ = canon(e.args[0], depth + 1)
            return "QUOT" if c_ == "QUOT" else "int(%s)" % c_
        return unparse(e)

    def rem_zero(conds):
        """the path's conditions say the remainder is zero"""
        for (t, b) in conds:
            if canon(t) == "REM" and b is False:
                return True
            if isinstance(t, ast.UnaryOp) and isinstance(t.op, ast.Not) \
                    and canon(t.operand) == "REM" and b is True:
                return True
            if isinstance(t, ast.Compare) and len(t.ops) == 1:
                a, c_ = canon(t.left), canon(t.comparators[0])
                if {a, c_} == {"REM", "0"}:
                    if isinstance(t.ops[0], ast.Eq) and b is True:
                        return True
                    if isinstance(t.ops[0], ast.NotEq) and b is False:
                        return True
        return False
    try:
        ps = paths.summaries(fn)
    except paths.Unsupported as ex:
        raise AnalysisError("%s: %s" % (Q, ex))
    conv = []
    for p_ in ps:
        if p_.kind == "return" and isinstance(p_.expr, ast.Call) and \
                unparse(p_.expr.func) == "super().value_to_raw" and len(
                    p_.expr.args) == 1:
            conv.append((canon(p_.expr.args[0]), p_))
    def is_str_path(p_):
        for (t, b) in p_.conds:
            neg = False
            while isinstance(t, ast.UnaryOp) and isinstance(t.op, ast.Not):
                t = t.operand
                neg = not neg
            if unparse(t) == "isinstance(%s, str)" % v:
                return b != neg
        return None
    num = [(a, p_) for (a, p_) in conv if is_str_path(p_) is False]
    other = [(a, p_) for (a, p_) in conv if is_str_path(p_) is None]
    if not num or other:
        raise AnalysisError(
            "%s: the paths to super().value_to_raw are not split by "
            "isinstance(%s, str); the form is not one the rule can read"
            % (Q, v))
    bad = None
    for (a, p_) in num:
        if a != "QUOT":
            bad = "the number converted is `%s`, not value // " \
                "scaling_factor" % a
        elif not rem_zero(p_.conds):
            bad = "a value that is not a multiple of the scaling factor " \
                "reaches the conversion (no test of the remainder on the " \
                "path): a different number than the one given is written"
    refuse = any(p_.kind == "raise" and paths.exc_name(p_.expr) ==
                 "ValueError" and not rem_zero(p_.conds) and any(
                     "REM" in (canon(t),) or any(
                         canon(x) == "REM" for x in ast.walk(t)
                         if isinstance(x, ast.expr))
                     for (t, b) in p_.conds) for p_ in ps)
    if bad is None and not refuse:
        bad = "no ValueError for a non-zero remainder"
    run.ob("R-MEMW-RAW", Q + "#whole-steps-only", bad is None,
           "fixed-scale conversion: %s" % bad, where(mod, fn))
