"""R-LAYOUT (C03): frames built by the constructors, lane by lane, against
the layouts the standard assigns (address byte, selector bit, opcode /
parameter position, special-command bytes, instance byte)."""
from ..core import where
from ..codec import Interp, State, Raise, Obj, AFrame, IvInt, iv_to_lanes
from ..codec_run import (construct, build_address, GEAR_DESTS, DEVICE_DESTS,
                         INSTANCES)
from ..front import ClassInfo
from .. import cmdtable


def P(name, i):
    return ("p", name, i)


def _bits(value, width):
    return [(value >> i) & 1 for i in range(width)]


def addr7(kind):
    """7 address lanes, LSB first (frame bits 9..15 / 17..23)."""
    if kind in ("GearShort", "DeviceShort", "int"):
        return [P("dest", i) for i in range(6)] + [0]
    if kind == "GearGroup":
        return [P("dest", i) for i in range(4)] + [0, 0, 1]
    if kind == "DeviceGroup":
        return [P("dest", i) for i in range(5)] + [0, 1]
    if kind.endswith("BroadcastUnaddressed"):
        return [0, 1, 1, 1, 1, 1, 1]
    return [1] * 7


def inst8(kind):
    flags = {"InstanceNumber": 0x00, "InstanceGroup": 0x80,
             "InstanceType": 0xC0, "FeatureInstanceNumber": 0x20,
             "FeatureInstanceGroup": 0xA0, "FeatureInstanceType": 0x60}
    if kind in flags:
        return [P("inst", i) for i in range(5)] + _bits(flags[kind] >> 5, 3)
    return _bits({"FeatureInstanceBroadcast": 0xFD, "InstanceBroadcast": 0xFF,
                  "FeatureDevice": 0xFC, "Device": 0xFE}[kind], 8)


def _frame_lanes(s, v):
    o = s.d(v)
    fr = s.d(o.f.get("_data")) if isinstance(o, Obj) else None
    return fr.lanes if isinstance(fr, AFrame) else None


def check_layouts(run, repo, world, folder, rx):
    run.rule("R-LAYOUT", "constructed frame == the standard's layout, lane "
             "by lane (address byte, selector bit, opcode/parameter, special "
             "bytes, instance byte)")
    rows = cmdtable.extract(world, folder, rx)
    spec = cmdtable.load_spec()
    code_of = {}
    for sec, srows in spec.items():
        for row in srows:
            code_of[(sec.split()[0], row["name"])] = (sec, row)
    PART = {"dali.gear.general": "102", "dali.gear.emergency": "202",
            "dali.gear.incandescent": "205", "dali.gear.converter": "206",
            "dali.gear.led": "207", "dali.gear.colour": "209",
            "dali.device.general": "103", "dali.device.pushbutton": "301",
            "dali.device.occupancy": "303", "dali.device.light": "304"}
    n = 0
    for r in rows:
        ent = code_of.get((PART.get(r.mod), r.name))
        if ent is None:
            continue
        sec, row = ent
        code = row["code"]
        mod = repo.mod(r.mod)
        cases = []       # (label, builder, expected lanes LSB first)
        if r.family == "_StandardCommand":
            low = ([P("param", i) for i in range(4)] + _bits(code >> 4, 4)) \
                if row["param"] == "P4" else _bits(code, 8)
            extra = (lambda: [IvInt("param")]) if row["param"] == "P4" \
                else (lambda: [])
            for kind in GEAR_DESTS + ["int"]:
                def b(I, st, kind=kind):
                    if kind == "int":
                        return construct(I, st, r.cls, [IvInt("dest")] +
                                         extra(), {})
                    out = []
                    for (a, s1) in build_address(I, world, st, kind, "dest"):
                        out += construct(I, s1, r.cls, [a] + extra(), {})
                    return out
                cases.append((kind, b, low + [1] + addr7(kind)))
        elif r.family in ("_SpecialCommand", "_ShortAddrSpecialCommand") \
                and sec == "102 special":
            hi = _bits(code, 8)
            if r.name == "Initialise":
                cases.append(("unaddressed", lambda I, st: construct(
                    I, st, r.cls, [], {}), _bits(0xFF, 8) + hi))
                cases.append(("broadcast", lambda I, st: construct(
                    I, st, r.cls, [], {"broadcast": True}),
                    _bits(0x00, 8) + hi))
                cases.append(("address", lambda I, st: construct(
                    I, st, r.cls, [], {"address": IvInt("address")}),
                    [1] + [P("address", i) for i in range(6)] + [0] + hi))
            elif row["param"] == "PA":
                cases.append(("address", lambda I, st: construct(
                    I, st, r.cls, [IvInt("address")], {}),
                    [1] + [P("address", i) for i in range(6)] + [0] + hi))
                cases.append(("MASK", lambda I, st: construct(
                    I, st, r.cls, ["MASK"], {}), _bits(0xFF, 8) + hi))
            elif row["param"] == "P8":
                cases.append(("param", lambda I, st: construct(
                    I, st, r.cls, [IvInt("param")], {}),
                    [P("param", i) for i in range(8)] + hi))
            else:
                cases.append(("noarg", lambda I, st: construct(
                    I, st, r.cls, [], {}), _bits(0, 8) + hi))
        elif r.family == "_StandardDeviceCommand":
            for kind in DEVICE_DESTS:
                def b(I, st, kind=kind):
                    out = []
                    for (a, s1) in build_address(I, world, st, kind, "dest"):
                        out += construct(I, s1, r.cls, [a], {})
                    return out
                cases.append((kind, b, _bits(code, 8) + _bits(0xFE, 8) + [1]
                              + addr7(kind)))
        elif r.family == "_StandardInstanceCommand":
            for ik in INSTANCES[:-1]:
                def b(I, st, ik=ik):
                    out = []
                    for (a, s1) in build_address(I, world, st, "DeviceShort",
                                                 "dest"):
                        for (i, s2) in build_address(I, world, s1, ik,
                                                     "inst"):
                            out += construct(I, s2, r.cls, [a, i], {})
                    return out
                cases.append(("DeviceShort," + ik, b, _bits(code, 8) +
                              inst8(ik) + [1] + addr7("DeviceShort")))
        elif r.family == "_SpecialDeviceCommand":
            names = [k.name for k in r.cls.mro if isinstance(k, ClassInfo)]
            if sec.startswith("103 special addr="):
                addr = int(sec.split("addr=")[1], 0)
                if "_SpecialDeviceCommandOneParam" in names:
                    cases.append(("param", lambda I, st: construct(
                        I, st, r.cls, [IvInt("param")], {}),
                        [P("param", i) for i in range(8)] + _bits(code, 8) +
                        _bits(addr, 8)))
                elif r.name not in ("Initialise",):
                    cases.append(("noarg", lambda I, st: construct(
                        I, st, r.cls, [], {}),
                        _bits(0, 8) + _bits(code, 8) + _bits(addr, 8)))
            elif sec == "103 special2":
                cases.append(("a,b", lambda I, st: construct(
                    I, st, r.cls, [IvInt("a"), IvInt("b")], {}),
                    [P("b", i) for i in range(8)] +
                    [P("a", i) for i in range(8)] + _bits(code, 8)))
        for (label, builder, want) in cases:
            I = Interp(world, rx, folder)
            outs = builder(I, State())
            good = [(v, s) for (v, s) in outs if not isinstance(v, Raise)]
            if not good:
                continue       # reported by C02
            for (v, s) in good:
                iv_to_lanes({}, s)
                got = _frame_lanes(s, v)
                n += 1
                ok = got == want
                run.ob("R-LAYOUT", "%s#%s" % (r.cls.qname, label), ok,
                       "frame bits (MSB first) %s, the standard assigns %s"
                       % (_fmt(got), _fmt(want)), where(mod, r.cls.node),
                       sample={"rule": "R-LAYOUT", "class": r.name,
                               "shape": label, "frame": _fmt(got)}
                       if r.name in ("SetScene", "ProgramShortAddress",
                                     "SetEventFilter") and label in (
                                         "GearGroup", "address",
                                         "DeviceShort,InstanceType")
                       else None)
    # ---- event messages: header bits 23..10 per scheme (Table 3) -----------
    nev = 0
    for r in rows:
        if r.family != "_Event" or r.instance_type is None:
            continue
        it = _bits(r.instance_type, 5)
        from .C12 import SCHEMES
        argname = {"short_address": "sa", "instance_number": "inum",
                   "device_group": "dg", "instance_group": "ig"}
        schemes = []
        for (b23, b22, b15), (sname, fields) in SCHEMES.items():
            lanes = {23: b23, 16: 0, 15: b15}
            if b22 is not None:
                lanes[22] = b22
            kw = {}
            for fname, (hi, lo) in fields.items():
                if fname == "instance_type":
                    for i in range(5):
                        lanes[lo + i] = it[i]
                else:
                    kw[fname] = argname[fname]
                    for i in range(hi - lo + 1):
                        lanes[lo + i] = P(argname[fname], i)
            schemes.append((sname, kw, [lanes[b] for b in range(23, 9, -1)]))
        for (sname, kw, want_msb) in schemes:
            I = Interp(world, rx, folder)
            k = {a: IvInt(b) for a, b in kw.items()}
            if r.name in ("LightEvent", "OccupancyEvent"):
                k["data"] = IvInt("data")
            outs = construct(I, State(), r.cls, [], k)
            good = [(v, s_) for (v, s_) in outs if not isinstance(v, Raise)]
            legal = {"sa": 63, "inum": 31, "dg": 31, "ig": 31, "data": 1023}
            bad = []
            for (v, s_) in outs:
                if not isinstance(v, Raise) or str(v.exc).startswith(
                        ("UNVALIDATED", "TRUNCATED")):
                    continue
                # a refusal is wrong when every argument it was decided on
                # is inside its legal range
                ivs = {x.name: x for x in s_.ivref.values()}
                names = [b for b in list(kw.values()) + (
                    ["data"] if "data" in k else [])]
                if names and all(
                        n_ in ivs and ivs[n_].lo is not None and
                        ivs[n_].hi is not None and ivs[n_].lo >= 0 and
                        ivs[n_].hi <= legal[n_] for n_ in names
                        if n_ in ivs) and any(n_ in ivs for n_ in names):
                    bad.append(v)
            full = False
            for (v, s_) in good:
                iv_to_lanes({}, s_)
                got = _frame_lanes(s_, v)
                nev += 1
                head = list(reversed(got))[:14] if got else None
                ok = head == want_msb
                # every legal number of the scheme's fields is accepted
                ivs = [x for x in s_.ivref.values()]
                run.ob("R-LAYOUT", "%s#event:%s" % (r.cls.qname, sname), ok,
                       "event header bits 23..10 are %s, IEC 62386-103 "
                       "Table 3 assigns %s" % (
                           _fmt(list(reversed(head))) if head else None,
                           _fmt(list(reversed(want_msb)))),
                       where(repo.mod(r.mod), r.cls.node))
                full = full or all(
                    x.lo == 0 for x in ivs if x.name in kw.values())
            run.ob("R-LAYOUT", "%s#event:%s#all-numbers" % (r.cls.qname,
                                                            sname),
                   bool(good) and full and not bad,
                   "constructing the event in the %s scheme is refused for "
                   "some legal number (accepted intervals %s; refusals %s)"
                   % (sname, [repr(x) for (v, s_) in good
                              for x in s_.ivref.values()],
                      [str(b.exc)[:60] for b in bad][:2]),
                   where(repo.mod(r.mod), r.cls.node), trivial=True)
    run.floor("event headers compared with Table 3", nev, 50)
    run.floor("constructed frames compared with the standard's layout", n,
              1500)
    # DAPC
    dapc = world.cls("dali.gear.general.DAPC")
    for kind in GEAR_DESTS:
        I = Interp(world, rx, folder)
        for (a, s1) in build_address(I, world, State(), kind, "dest"):
            for (v, s) in construct(I, s1, dapc, [a, IvInt("power")], {}):
                if isinstance(v, Raise):
                    continue
                iv_to_lanes({}, s)
                got = _frame_lanes(s, v)
                want = [P("power", i) for i in range(8)] + [0] + addr7(kind)
                run.ob("R-LAYOUT", "dali.gear.general.DAPC#" + kind,
                       got == want, "frame bits %s, the standard assigns %s"
                       % (_fmt(got), _fmt(want)),
                       where(repo.mod("dali.gear.general"), dapc.node))


def _fmt(lanes):
    from ..codec import _lane_str
    if lanes is None:
        return None
    return " ".join(_lane_str(l) for l in reversed(lanes))
