"""C04 - address and instance codec: R-ADDR-LOCAL, R-ADDR-RT, R-ADDR-PART,
R-KIND, R-ADDR-EQ / R-EQ-REFL - by abstract interpretation of the per-kind
add_to_frame / from_frame / __eq__ methods."""
import ast

from ..core import AnalysisError, unparse, where
from ..fold import Folder
from ..front import ClassInfo
from .. import cmdtable
from ..codec import (Interp, State, Raise, Obj, AFrame, ClsRef, Ref, IvInt,
                     Unsupported, iv_to_lanes, lane_val, Bound)
from ..codec_run import (construct, build_address, same_value, lanes_match,
                         cube_str, GEAR_DESTS, DEVICE_DESTS, INSTANCES, ADDR)

FIELD = {"gear": (15, 9, 16), "device": (23, 17, 24), "instance": (15, 8, 24)}


def _family(kind):
    if kind in GEAR_DESTS:
        return "gear"
    if kind in DEVICE_DESTS:
        return "device"
    return "instance"


def _call_method(I, st, obj_ref, name, args):
    o = st.d(obj_ref)
    r = o.cls.lookup(name)
    if r is None or r[1] in ("attr", "class"):
        raise AnalysisError("%s has no method %s" % (o.cls.qname, name))
    return I.call_fn(r[2], r[0], args, {}, st, self_=obj_ref, kind="inst")


def _new_frame(st, width, const=None):
    lanes = [("in", j) for j in range(width)]
    for j, v in (const or {}).items():
        lanes[j] = v
    return st.new(AFrame("ForwardFrame", width, lanes))


def check(run, repo, world):
    run.explanation = (
        "Each address / instance kind's add_to_frame, from_frame and __eq__ "
        "is abstractly interpreted on a frame of symbolic lanes and an object "
        "with a symbolic (validated) number: (R-ADDR-LOCAL) lanes outside "
        "the kind's field are the untouched input lanes; (R-ADDR-RT) reading "
        "the written frame back gives an object of the same kind with the "
        "same number lanes; (R-ADDR-PART) the first-match scan over the "
        "registered kinds is interpreted once on a fully symbolic frame and "
        "its leaf cubes are compared with the standard's partition of the "
        "128 address prefixes (16- and 24-bit) and of the 256 instance "
        "bytes - exactly one kind each, none where the standard has none; "
        "(R-KIND) for every other frame width 1..64 add_to_frame raises "
        "IncompatibleFrame with the frame lanes untouched; (R-ADDR-EQ) "
        "__eq__ is True for two objects built from the same arguments, "
        "False across kinds and across numbers.")
    run.assumptions += ["the interpreted subset of codec.py"]
    folder = Folder(world)
    rx = cmdtable.registries(world, folder)
    mod = repo.mod("dali.address")
    kinds = GEAR_DESTS + DEVICE_DESTS + INSTANCES
    _frame_api(run, repo, world, mod)
    run.rule("R-ADDR-LOCAL", "add_to_frame changes only the kind's field")
    run.rule("R-ADDR-RT", "from_frame(add_to_frame(x)) == x")
    run.rule("R-KIND", "wrong frame size -> IncompatibleFrame, frame "
             "unmodified")
    for kind in kinds:
        fam = _family(kind)
        hi, lo, width = FIELD[fam]
        c = world.cls(ADDR + kind)
        I = Interp(world, rx, folder)
        st0 = State()
        built = build_address(I, world, st0, kind, "n")
        if not built:
            run.ob("R-ADDR-RT", ADDR + kind + "#constructible", False,
                   "no legal %s can be constructed" % kind,
                   where(mod, c.node))
            continue
        for (obj, st) in built:
            iv_to_lanes({}, st)
            fr = _new_frame(st, width, {16: 1} if fam != "gear" else None)
            outs = _call_method(I, st, obj, "add_to_frame", [fr])
            for (v, s2) in outs:
                if isinstance(v, Raise):
                    run.ob("R-ADDR-LOCAL", ADDR + kind, False,
                           "add_to_frame raises %s on a %d-bit frame"
                           % (v.exc, width), where(mod, c.node))
                    continue
                f2 = s2.d(fr)
                outside = [j for j in range(width)
                           if not (lo <= j <= hi) and f2.lanes[j] != (
                               1 if (j == 16 and fam != "gear")
                               else ("in", j))]
                inside_in = [j for j in range(lo, hi + 1)
                             if f2.lanes[j] == ("in", j)]
                # the same write into a fully symbolic frame: the selector
                # bit (16) of a 24-bit frame is not the address's to set
                if fam != "gear":
                    fsym = _new_frame(s2, width)
                    for (v3, s3) in _call_method(I, s2, obj, "add_to_frame",
                                                 [fsym]):
                        if isinstance(v3, Raise):
                            # a frame of the right size is never refused,
                            # whatever its bits are (the command bit, stale
                            # contents)
                            run.ob("R-ADDR-LOCAL", ADDR + kind +
                                   "#any-frame-of-the-size", False,
                                   "add_to_frame raises %s for some contents "
                                   "of a %d-bit frame: the refusal must "
                                   "depend on the frame's size only" % (
                                       v3.exc, width), where(mod, c.node))
                            continue
                        f3 = s3.d(fsym)
                        outside += [j for j in range(width) if not (
                            lo <= j <= hi) and f3.lanes[j] != ("in", j)
                            and j not in outside]
                run.ob("R-ADDR-LOCAL", ADDR + kind, not outside and
                       not inside_in,
                       "add_to_frame changes bits %s outside its field "
                       "[%d:%d] / leaves field bits %s unwritten" % (
                           outside, hi, lo, inside_in), where(mod, c.node),
                       sample={"rule": "R-ADDR-LOCAL", "kind": kind,
                               "frame_after": repr(f2)}
                       if kind in ("GearGroup", "DeviceShort",
                                   "FeatureInstanceType") else None)
                # read back
                if fam == "instance":
                    b = world.lookup("dali.address", "instance_from_frame")
                    res = I.call_fn(b.value, None, [fr], {}, s2,
                                    kind="static", mod="dali.address")
                else:
                    a = world.cls(ADDR + "Address")
                    r = a.lookup("from_frame")
                    res = I.call_fn(r[2], r[0], [fr], {}, s2,
                                    self_=ClsRef(a), kind="classmethod")
                for (rv, s3) in res:
                    if isinstance(rv, Raise) or rv is None:
                        diffs = ["reading back gives %r" % (rv,)]
                    else:
                        diffs = same_value(s3, obj, rv)
                    run.ob("R-ADDR-RT", ADDR + kind, not diffs,
                           "writing a %s into a frame and reading the frame "
                           "back does not give an equal object: %s (case %s)"
                           % (kind, "; ".join(diffs[:3]), cube_str(s3)),
                           where(mod, c.node))
        # wrong sizes
        bad_sizes = []
        for w in range(1, 65):
            if w == width:
                continue
            I2 = Interp(world, rx, folder)
            for (obj, st) in build_address(I2, world, State(), kind, "n"):
                iv_to_lanes({}, st)
                fr = _new_frame(st, w)
                for (v, s2) in _call_method(I2, st, obj, "add_to_frame",
                                            [fr]):
                    f2 = s2.d(fr)
                    unchanged = f2.lanes == [("in", j) for j in range(w)]
                    exc = _raised_class(world, "dali.address", v) \
                        if isinstance(v, Raise) else None
                    if exc != "dali.exceptions.IncompatibleFrame" or \
                            not unchanged:
                        bad_sizes.append((w, exc if isinstance(v, Raise)
                                          else "accepted", unchanged))
                break
        run.ob("R-KIND", ADDR + kind, not bad_sizes,
               "on a frame of the wrong size add_to_frame must raise "
               "IncompatibleFrame and leave the frame untouched; got (width, "
               "outcome, unchanged) %s" % bad_sizes[:4], where(mod, c.node),
               sample={"rule": "R-KIND", "kind": kind, "widths_checked": 63}
               if kind == "GearShort" else None)
    _partition(run, repo, world, rx, folder, mod)
    _equality(run, repo, world, rx, folder, mod, kinds)


def _raised_class(world, modname, r):
    n = getattr(r, "node", None)
    exc = n.exc if isinstance(n, ast.Raise) else None
    if exc is None:
        return str(r.exc)
    f = exc.func if isinstance(exc, ast.Call) else exc
    b = world.resolve(modname, f)
    if b is None:
        return unparse(exc)
    if b.kind == "class":
        return b.value.qname
    if b.kind == "expr":
        v = b.value
        if isinstance(v, ast.Call):
            k = world.resolve_class(b.mod, v.func)
            if k is not None:
                return k.qname if not isinstance(exc, ast.Call) else \
                    "call of an exception instance"
        return unparse(v)
    if b.kind == "func":
        if not isinstance(exc, ast.Call):
            return "function object `%s` (TypeError: exceptions must " \
                "derive from BaseException)" % unparse(exc)
        rets = [x.value for x in ast.walk(b.value) if isinstance(
            x, ast.Return) and x.value is not None]
        if len(rets) == 1 and isinstance(rets[0], ast.Call):
            k = world.resolve_class(b.mod, rets[0].func)
            if k is not None:
                return k.qname
        return "result of %s()" % unparse(f)
    return unparse(exc)


def _match(cube, neg, assignment):
    for k, v in cube.items():
        if k in assignment and assignment[k] != v:
            return False
    for n in neg:
        if all(assignment.get(k) == v for k, v in n.items()) and n:
            return False
    return True


def _partition(run, repo, world, rx, folder, mod):
    run.rule("R-ADDR-PART", "decode partition of address prefixes / "
             "instance bytes == the standard's (exactly one kind each)")
    a = world.cls(ADDR + "Address")
    r = a.lookup("from_frame")

    def std_gear(p):
        if p < 64:
            return "GearShort"
        if 0x40 <= p <= 0x4F:
            return "GearGroup"
        if p == 0x7F:
            return "GearBroadcast"
        if p == 0x7E:
            return "GearBroadcastUnaddressed"
        return None

    def std_dev(p):
        if p < 64:
            return "DeviceShort"
        if 0x40 <= p <= 0x5F:
            return "DeviceGroup"
        if p == 0x7F:
            return "DeviceBroadcast"
        if p == 0x7E:
            return "DeviceBroadcastUnaddressed"
        return None
    for (width, hi, std, extra) in ((16, 15, std_gear, {}),
                                    (24, 23, std_dev, {16: 1}),
                                    (24, 23, lambda p: None, {16: 0})):
        I = Interp(world, rx, folder)
        st = State()
        fr = _new_frame(st, width)
        res = I.call_fn(r[2], r[0], [fr], {}, st, self_=ClsRef(a),
                        kind="classmethod")
        leaves = []
        for (v, s) in res:
            if isinstance(v, Raise):
                run.ob("R-ADDR-PART", "%d-bit#raise" % width, False,
                       "address.from_frame raises %s" % v.exc,
                       where(mod, a.node))
                continue
            leaves.append((s.d(v).cls.name if v is not None else None,
                           s.cube, s.neg))
        bad = []
        for p in range(128):
            asg = {("in", hi - i): (p >> (6 - i)) & 1 for i in range(7)}
            for j, val in extra.items():
                asg[("in", j)] = val
            got = [k for (k, cube, neg) in leaves if _match(cube, neg, asg)]
            want = std(p)
            if got != [want]:
                bad.append((p, got, want))
        tag = "%d-bit%s" % (width, "" if not extra else "/bit16=%d"
                            % extra[16])
        run.ob("R-ADDR-PART", tag, not bad,
               "address prefixes decoded differently from the standard's "
               "partition (prefix, decoded kinds, standard): %s" % bad[:5],
               where(mod, a.node),
               sample={"rule": "R-ADDR-PART", "frame": tag,
                       "leaves": len(leaves), "prefixes_checked": 128})
        run.count(128)
    # no other frame length yields an address
    for w in (8, 17, 20, 25, 32):
        I = Interp(world, rx, folder)
        st = State()
        fr = _new_frame(st, w)
        res = I.call_fn(r[2], r[0], [fr], {}, st, self_=ClsRef(a),
                        kind="classmethod")
        run.ob("R-ADDR-PART", "%d-bit" % w, all(v is None for v, s in res),
               "a %d-bit frame yields an address" % w, where(mod, a.node),
               trivial=True)
    # instance bytes
    b = world.lookup("dali.address", "instance_from_frame")
    I = Interp(world, rx, folder)
    st = State()
    fr = _new_frame(st, 24)
    res = I.call_fn(b.value, None, [fr], {}, st, kind="static",
                    mod="dali.address")
    leaves = []
    for (v, s) in res:
        if isinstance(v, Raise):
            run.ob("R-ADDR-PART", "instance#raise", False,
                   "instance_from_frame raises %s" % v.exc,
                   where(mod, b.value))
            continue
        o = s.d(v)
        if o is None or not hasattr(o, "cls") or o.cls is None:
            run.ob("R-ADDR-PART", "instance#no-kind[%s]" % cube_str(s), False,
                   "instance_from_frame returns %r for instance bytes %s: "
                   "every byte must decode to exactly one instance kind (or "
                   "the reserved kind)" % (o, cube_str(s)),
                   where(mod, b.value))
            continue
        leaves.append((o.cls.name, s.cube, s.neg, o, s))

    def std_inst(byte):
        flags, num = byte >> 5, byte & 0x1f
        table = {0: "InstanceNumber", 4: "InstanceGroup", 6: "InstanceType",
                 1: "FeatureInstanceNumber", 5: "FeatureInstanceGroup",
                 3: "FeatureInstanceType"}
        if flags in table:
            return table[flags]
        return {0xFC: "FeatureDevice", 0xFD: "FeatureInstanceBroadcast",
                0xFE: "Device", 0xFF: "InstanceBroadcast"}.get(
                    byte, "ReservedInstance")
    bad = []
    for byte in range(256):
        asg = {("in", 8 + i): (byte >> i) & 1 for i in range(8)}
        got = [k for (k, cube, neg, o, s) in leaves if _match(cube, neg,
                                                              asg)]
        if got != [std_inst(byte)]:
            bad.append((hex(byte), got, std_inst(byte)))
    run.ob("R-ADDR-PART", "instance-byte", not bad,
           "instance bytes decoded differently from IEC 62386-103 Table 2 "
           "(byte, decoded kinds, standard): %s" % bad[:5],
           where(mod, b.value),
           sample={"rule": "R-ADDR-PART", "frame": "instance byte",
                   "leaves": len(leaves), "bytes_checked": 256})
    run.count(256)
    # writer constants agree with the reader's classes
    for kind in INSTANCES:
        c = world.cls(ADDR + kind)
        fl = folder.class_attr(c, "_flags") if c.lookup("_flags") else None
        vl = folder.class_attr(c, "_val") if c.lookup("_val") else None
        byte = fl if isinstance(fl, int) else vl
        ok = isinstance(byte, int) and std_inst(byte) == kind
        run.ob("R-ADDR-PART", "instance-writer:" + kind, ok,
               "%s writes byte pattern %s, which the standard assigns to %s"
               % (kind, hex(byte) if isinstance(byte, int) else byte,
                  std_inst(byte) if isinstance(byte, int) else None),
               where(mod, c.node), trivial=True)


def _equality(run, repo, world, rx, folder, mod, kinds):
    run.rule("R-ADDR-EQ", "x == y exactly when kind and number agree "
             "(reflexive; gear and device kinds never equal)")

    def build_const(I, st, kind, n):
        c = world.cls(ADDR + kind)
        r = c.lookup("__init__")
        np_ = len(r[2].args.args) - 1 if r is not None and r[1] not in (
            "attr", "class") else 0
        outs = construct(I, st, c, [n] if np_ == 1 else [], {})
        return [(v, s) for (v, s) in outs if not isinstance(v, Raise)]

    def eq(I, st, a, b):
        o = st.d(a)
        r = o.cls.lookup("__eq__")
        if r is None or r[1] in ("attr", "class"):
            return [("identity", st)]
        res = []
        for (v, s2) in I.call_fn(r[2], r[0], [b], {}, st, self_=a,
                                 kind="inst"):
            if isinstance(v, Raise):
                res.append(("raise:%s" % v.exc, s2))
                continue
            for (t, e3, s3) in I.truth(v, {}, s2):
                res.append((t, s3))
        return res
    for kind in kinds:
        c = world.cls(ADDR + kind)
        I = Interp(world, rx, folder)
        st = State()
        # two objects from the same symbolic argument
        pair = []
        for (a, s1) in build_address(I, world, st, kind, "n"):
            for (b, s2) in build_address(I, world, s1, kind, "n"):
                iv_to_lanes({}, s2)
                pair.append((a, b, s2))
        vals = []
        for (a, b, s2) in pair:
            vals += [t for (t, s3) in eq(I, s2, a, b)]
            vals += [t for (t, s3) in eq(I, s2, a, a)]
        run.ob("R-ADDR-EQ", ADDR + kind + "#reflexive",
               bool(vals) and all(t is True for t in vals),
               "two %s objects built from the same arguments (even the "
               "object and itself) compare %s: a decoded address/instance "
               "is never equal to the one encoded" % (kind, sorted(
                   set(map(str, vals)))), where(mod, c.node),
               sample={"rule": "R-ADDR-EQ", "kind": kind,
                       "x==x": sorted(set(map(str, vals)))}
               if kind in ("GearShort", "InstanceBroadcast") else None)
        # different numbers
        r = c.lookup("__init__")
        np_ = len(r[2].args.args) - 1 if r is not None and r[1] not in (
            "attr", "class") else 0
        if np_ == 1:
            I = Interp(world, rx, folder)
            st = State()
            vals = []
            for (a, s1) in build_const(I, st, kind, 1):
                for (b, s2) in build_const(I, s1, kind, 2):
                    vals += [t for (t, s3) in eq(I, s2, a, b)]
            run.ob("R-ADDR-EQ", ADDR + kind + "#number",
                   bool(vals) and all(t is False for t in vals),
                   "%s(1) == %s(2) evaluates to %s" % (kind, kind, vals),
                   where(mod, c.node), trivial=True)
        # other kinds
        others = []
        for k2 in kinds:
            if k2 == kind:
                continue
            I = Interp(world, rx, folder)
            st = State()
            for (a, s1) in build_const(I, st, kind, 1):
                for (b, s2) in build_const(I, s1, k2, 1):
                    for (t, s3) in eq(I, s2, a, b):
                        if t is not False:
                            others.append((k2, t))
        # a class that writes its own `!=` must make it the negation of
        # `==` (Python derives it that way when __ne__ is not defined)
        rne = c.lookup("__ne__")
        if rne is not None and rne[1] not in ("attr", "class") and \
                isinstance(rne[0], ClassInfo):
            def ne(I, st, a, b):
                res = []
                for (v, s2) in I.call_fn(rne[2], rne[0], [b], {}, st,
                                         self_=a, kind="inst"):
                    if isinstance(v, Raise):
                        res.append(("raise:%s" % v.exc, s2))
                        continue
                    for (t, e3, s3) in I.truth(v, {}, s2):
                        res.append((t, s3))
                return res
            disagree = []
            for k2 in kinds:
                for (n1, n2) in ((1, 1), (1, 2)):
                    I = Interp(world, rx, folder)
                    st = State()
                    for (a, s1) in build_const(I, st, kind, n1):
                        for (b, s2) in build_const(I, s1, k2, n2):
                            es = {t for (t, _s) in eq(I, s2, a, b)}
                            ns = {t for (t, _s) in ne(I, s2, a, b)}
                            if len(es) != 1 or len(ns) != 1 or \
                                    list(es)[0] is list(ns)[0]:
                                disagree.append((k2, n1, n2, sorted(
                                    map(str, es)), sorted(map(str, ns))))
            run.ob("R-ADDR-EQ", ADDR + kind + "#ne-is-not-eq", not disagree,
                   "%s.__ne__ is not the negation of __eq__: (other kind, "
                   "numbers, ==, !=) %s" % (kind, disagree[:3]),
                   where(mod, c.node))
        run.ob("R-ADDR-EQ", ADDR + kind + "#other-kinds", not others,
               "%s compares equal (or fails) against other kinds: %s" % (
                   kind, others[:4]), where(mod, c.node), trivial=True)


def _frame_api(run, repo, world, mod):
    """R-FRAME-API: the address codec is handed frames of any class (a plain
    Frame from a concatenation, a BackwardFrame, a ForwardFrame): whatever it
    reads off its frame parameter must be defined by Frame itself, or the
    read raises AttributeError instead of giving the address / None."""
    run.rule("R-FRAME-API", "the address codec uses only what dali.frame."
             "Frame defines on its frame parameter (any frame object can be "
             "read)")
    fr = world.cls("dali.frame.Frame")
    if fr is None:
        raise AnalysisError("dali.frame.Frame vanished")
    have = set(fr.methods) | set(fr.attrs)
    for (kind, f) in fr.methods.values():
        for n in ast.walk(f):
            if isinstance(n, ast.Attribute) and isinstance(
                    n.ctx, ast.Store) and isinstance(
                        n.value, ast.Name) and n.value.id == "self":
                have.add(n.attr)
    have |= {"__class__", "__len__", "__getitem__", "__setitem__"}
    def reads(f):
        ps = [a.arg for a in f.args.args]
        fp = ps[1] if len(ps) > 1 else None
        return fp, [n for n in ast.walk(f) if isinstance(
            n, ast.Attribute) and isinstance(n.value, ast.Name) and
            n.value.id == fp]
    # the expected count on this tree is zero: a built-in example keeps the
    # matcher honest on every run
    ex = ast.parse("def from_frame(cls, f):\n    if f.is_proprietary:\n"
                   "        return\n    return f[7:0]\n").body[0]
    exr = reads(ex)[1]
    if [n.attr for n in exr] != ["is_proprietary"] or \
            "is_proprietary" in have:
        raise AnalysisError("R-FRAME-API: the built-in example is no longer "
                            "matched")
    n_sites = 0
    n_fns = 0
    for c in world.classes_in("dali.address"):
        for name, (kind, f) in sorted(c.methods.items()):
            if name not in ("from_frame", "add_to_frame"):
                continue
            n_fns += 1
            fp, rs = reads(f)
            run.ob("R-FRAME-API", "%s.%s#frame-api" % (c.qname, name),
                   all(n.attr in have for n in rs),
                   "%s.%s reads %s off its frame parameter, which "
                   "dali.frame.Frame does not define" % (
                       c.qname, name, sorted({n.attr for n in rs
                                              if n.attr not in have})),
                   where(mod, f))
            for n in rs:
                if n.attr not in have:
                    n_sites += 1
                    run.ob("R-FRAME-API", "%s.%s#%s.%s" % (
                        c.qname, name, fp, n.attr), False,
                        "%s.%s reads `%s.%s`, which dali.frame.Frame does "
                        "not define: for a frame that is not of the subclass "
                        "that has it (a plain Frame, a BackwardFrame) the "
                        "read raises AttributeError instead of yielding the "
                        "address or None" % (c.qname, name, fp, n.attr),
                        where(mod, n))
    run.floor("address codec methods examined for their frame reads", n_fns,
              12)
    run.analysed["reads outside Frame's interface"] = n_sites
    # an address object and the codec keep nothing between calls: a memo of
    # decoded addresses shared by all frames answers for another frame
    from ..seq import shared_state_writes
    run.rule("R-ADDR-PURE", "no method of an address / instance class writes "
             "to state shared between objects (class-level container, "
             "module global); registration by the metaclass aside")
    nm = 0
    for c in world.classes_in("dali.address"):
        if any(getattr(b, "name", None) == "type" or b == "type"
               for b in c.mro) or c.has_ext_base("type"):
            continue
        for name, (kind, f) in sorted(c.methods.items()):
            nm += 1
            bad = shared_state_writes(world, c, f)
            run.ob("R-ADDR-PURE", "%s.%s" % (c.qname, name), not bad,
                   "%s.%s writes to state shared between address objects "
                   "(%s): what one frame decodes to then depends on the "
                   "frames decoded before it" % (c.qname, name,
                                                 "; ".join(bad[:3])),
                   where(mod, f))
    run.floor("address class methods examined for shared writes", nm, 40)
